//! E3: crash-isolating worker processes for properties whose subject may abort the
//! process (stack overflow, impossible allocation, SIGSEGV) or not terminate.
//!
//! The parent re-executes this binary (`vh run <prop> <tier>`) with VH_CHILD_* set; in the
//! child only the named sub-check runs, over a contiguous range of case indices, writing
//! the index of the case it is about to run into a marker file. The parent watches the
//! marker: a dead child => the marked case crashed the process (classified from the wait
//! status and the stderr tail); a marker that does not move for `watchdog` => the case does
//! not terminate (discarded, counted, the shard resumes after it).
use crate::engine::*;
use proptest::strategy::{Strategy, ValueTree};
use proptest::test_runner::{TestCaseError, TestError};
use serde_json::{json, Value};
use std::cell::RefCell;
use std::io::Write;
use std::os::unix::fs::FileExt;
use std::os::unix::process::ExitStatusExt;
use std::process::{Child, Command, Stdio};
use std::time::{Duration, Instant};

pub struct IsoOpts {
    /// seconds without marker progress before a case is declared non-terminating
    pub watchdog_s: u64,
    /// per-worker address-space limit
    pub rlimit_as_gib: u64,
    /// cases per child process
    pub chunk: u64,
    /// what a non-terminating case means: true = inconclusive (exit 2), false = discard
    pub hang_is_inconclusive: bool,
}

impl Default for IsoOpts {
    fn default() -> Self {
        IsoOpts { watchdog_s: 20, rlimit_as_gib: 6, chunk: 2000, hang_is_inconclusive: false }
    }
}

pub fn entropy_for(base: u64, case: u64, max_len: usize) -> Vec<u8> {
    let mut runner = runner_for(base, case);
    EntropyStrategy { max_len }.new_tree(&mut runner).map(|t| t.current().0).unwrap_or_default()
}

fn set_rlimit_as(gib: u64) {
    let lim = libc::rlimit { rlim_cur: gib << 30, rlim_max: gib << 30 };
    unsafe {
        libc::setrlimit(libc::RLIMIT_AS, &lim);
        // no core dumps from deliberate crashes
        let z = libc::rlimit { rlim_cur: 0, rlim_max: 0 };
        libc::setrlimit(libc::RLIMIT_CORE, &z);
    }
}

/// How a dead worker died, from wait status + stderr tail.
#[derive(Debug, Clone, PartialEq)]
pub enum Death {
    StackOverflow,
    /// memory allocation of N bytes failed / capacity overflow
    Alloc(Option<u128>),
    Signal(i32),
    Exit(i32),
}

fn classify_death(code: Option<i32>, signal: Option<i32>, stderr: &str) -> Death {
    if stderr.contains("has overflowed its stack") || stderr.contains("stack overflow") {
        return Death::StackOverflow;
    }
    if let Some(i) = stderr.find("memory allocation of ") {
        let rest = &stderr[i + "memory allocation of ".len()..];
        let n: String = rest.chars().take_while(|c| c.is_ascii_digit()).collect();
        return Death::Alloc(n.parse().ok());
    }
    if stderr.contains("capacity overflow") {
        return Death::Alloc(None);
    }
    if let Some(s) = signal {
        return Death::Signal(s);
    }
    Death::Exit(code.unwrap_or(-1))
}

struct Worker {
    child: Child,
    lo: u64,
    hi: u64,
    marker_path: String,
    out_path: String,
    err_path: String,
    last_marker: u64,
    last_progress: Instant,
}

fn read_marker(path: &str) -> u64 {
    match std::fs::read(path) {
        Ok(b) if b.len() >= 8 => u64::from_le_bytes(b[..8].try_into().unwrap()),
        _ => u64::MAX,
    }
}

impl Ctx {
    /// Like `check`, but every shard runs in a child process (see module docs).
    pub fn check_isolated<F>(&mut self, name: &str, rule: &str, budget: Budget, opts: IsoOpts, f: F)
    where
        F: Fn(&mut Src, &mut Stats) -> Result<(), Fail> + Sync,
    {
        if self.skip(name) {
            return;
        }
        let base = self.sub_seed(name);
        if self.is_child() {
            child_main(self, base, &budget, &opts, &f);
        }
        let t0 = Instant::now();
        let tmp = format!("{}/out/tmp/iso-{}-{}", self.root, std::process::id(), sanitize(name));
        let _ = std::fs::create_dir_all(&tmp);
        let exe = std::env::current_exe().expect("current_exe");
        let tier = if self.tier == Tier::Quick { "quick" } else { "thorough" };

        let spawn = |lo: u64, hi: u64, id: u64, entropy: Option<&[u8]>| -> Worker {
            let marker_path = format!("{}/m-{}", tmp, id);
            let out_path = format!("{}/o-{}", tmp, id);
            let err_path = format!("{}/e-{}", tmp, id);
            let _ = std::fs::write(&marker_path, u64::MAX.to_le_bytes());
            let mut cmd = Command::new(&exe);
            // same command line as the parent (vh run <prop> <tier> | vh selftest | vh replay ..)
            cmd.args(std::env::args().skip(1))
                .env("VH_CHILD_SUB", name)
                .env("VH_CHILD_RANGE", format!("{}:{}", lo, hi))
                .env("VH_CHILD_MARKER", &marker_path)
                .env("RUST_BACKTRACE", "0")
                .env("VERIF_SEED", self.seed.to_string())
                .env("VERIF_TIER", tier)
                .stdin(Stdio::null())
                .stdout(Stdio::from(std::fs::File::create(&out_path).expect("tmp")))
                .stderr(Stdio::from(std::fs::File::create(&err_path).expect("tmp")));
            if let Some(e) = entropy {
                cmd.env("VH_CHILD_ENTROPY", hex(e));
            }
            let child = cmd.spawn().expect("spawn worker");
            Worker { child, lo, hi, marker_path, out_path, err_path, last_marker: u64::MAX, last_progress: Instant::now() }
        };

        let mut stats = Stats::default();
        let mut first_fail: Option<(u64, Vec<u8>, Fail)> = None;
        let mut hangs: Vec<u64> = vec![];
        let mut inconclusive_allocs = 0u64;

        // replay mode: one entropy in one child
        let replay = self.replay_entropy.clone();
        let total = if replay.is_some() { 1 } else { self.cases(&budget) };
        if let Some((sub, _)) = &replay {
            if sub != name {
                return;
            }
        }
        let mut pending: Vec<(u64, u64)> = vec![];
        if replay.is_none() {
            let mut lo = 0;
            while lo < total {
                let hi = (lo + opts.chunk).min(total);
                pending.push((lo, hi));
                lo = hi;
            }
            pending.reverse();
        } else {
            pending.push((0, 1));
        }
        let mut running: Vec<Worker> = vec![];
        let mut next_id = 0u64;
        let maxpar = self.threads.max(1);
        let watchdog = Duration::from_secs(opts.watchdog_s);
        let mut stop = false;

        while !(pending.is_empty() && running.is_empty()) {
            while !stop && running.len() < maxpar {
                let Some((lo, hi)) = pending.pop() else { break };
                let ent = replay.as_ref().map(|r| r.1.as_slice());
                running.push(spawn(lo, hi, next_id, ent));
                next_id += 1;
            }
            if stop {
                pending.clear();
            }
            std::thread::sleep(Duration::from_millis(if replay.is_some() { 2 } else { 20 }));
            let mut i = 0;
            while i < running.len() {
                let w = &mut running[i];
                let m = read_marker(&w.marker_path);
                if m != w.last_marker {
                    w.last_marker = m;
                    w.last_progress = Instant::now();
                }
                let status = w.child.try_wait().ok().flatten();
                let hung = status.is_none() && w.last_progress.elapsed() > watchdog;
                if status.is_none() && !hung {
                    if stop {
                        let _ = w.child.kill();
                        let _ = w.child.wait();
                        running.swap_remove(i);
                        continue;
                    }
                    i += 1;
                    continue;
                }
                let mut w = running.swap_remove(i);
                if hung {
                    let _ = w.child.kill();
                    let _ = w.child.wait();
                    let at = if w.last_marker == u64::MAX { w.lo } else { w.last_marker };
                    hangs.push(at);
                    stats.discarded += 1;
                    if at + 1 < w.hi && !stop && replay.is_none() {
                        pending.push((at + 1, w.hi));
                    }
                    continue;
                }
                let status = status.unwrap();
                let out = std::fs::read_to_string(&w.out_path).unwrap_or_default();
                let err = std::fs::read_to_string(&w.err_path).unwrap_or_default();
                let parsed: Option<Value> = out.lines().rev().find(|l| l.starts_with("{\"vh_child\"")).and_then(|l| serde_json::from_str(l).ok());
                if let (Some(v), true) = (&parsed, status.success()) {
                    stats.merge(Stats::from_json(&v["stats"]));
                    if !v["fail"].is_null() {
                        let idx = v["fail"]["case"].as_u64().unwrap_or(0);
                        let ent = unhex(v["fail"]["entropy_hex"].as_str().unwrap_or(""));
                        let fl = Fail::new(v["fail"]["sig"].as_str().unwrap_or("?"), v["fail"]["detail"].clone());
                        if first_fail.as_ref().map_or(true, |f| idx < f.0) {
                            first_fail = Some((idx, ent, fl));
                        }
                        stop = true;
                    }
                    continue;
                }
                // the worker died
                let at = if w.last_marker == u64::MAX { w.lo } else { w.last_marker };
                let death = classify_death(status.code(), status.signal(), &err);
                let ent = match &replay {
                    Some(r) => r.1.clone(),
                    None => entropy_for(base, at, budget.max_len),
                };
                let tail: String = err.chars().rev().take(600).collect::<String>().chars().rev().collect();
                let benign_alloc = matches!(death, Death::Alloc(Some(n)) if n < (1u128 << 40));
                if benign_alloc {
                    // a legitimately large request met RLIMIT_AS: inconclusive for this case
                    inconclusive_allocs += 1;
                    stats.discarded += 1;
                } else {
                    let kind = match &death {
                        Death::StackOverflow => "stack-overflow".to_string(),
                        Death::Alloc(_) => "impossible-allocation".to_string(),
                        Death::Signal(s) => format!("signal-{}", s),
                        Death::Exit(c) => format!("exit-{}", c),
                    };
                    let fl = Fail::new(
                        format!("{}/{}/process-abort/{}", self.prop, name, kind),
                        json!({"death": format!("{:?}", death), "stderr_tail": tail, "case_index": at,
                               "note": "the worker process died while running this case; entropy regenerated from the case index (unshrunk)"}),
                    );
                    if self.is_known(&fl.sig) {
                        stats.known_hit(&fl.sig);
                        *stats.excluded_known.entry(fl.sig.clone()).or_insert(0) += 0;
                    } else if first_fail.as_ref().map_or(true, |f| at < f.0) {
                        first_fail = Some((at, ent, fl));
                        stop = true;
                    }
                }
                if at + 1 < w.hi && !stop && replay.is_none() {
                    pending.push((at + 1, w.hi));
                }
            }
        }
        let _ = std::fs::remove_dir_all(&tmp);
        stats.recording = true;
        stats.samples.sort_by(|a, b| a.0.cmp(&b.0));
        if !hangs.is_empty() {
            self.note(format!("{}: {} non-terminating case(s) killed by the {} s watchdog and discarded (case indices {:?})", name, hangs.len(), opts.watchdog_s, &hangs[..hangs.len().min(8)]));
            if opts.hang_is_inconclusive {
                self.infra(format!("{}: case(s) {:?} did not finish within {} s", name, &hangs[..hangs.len().min(8)], opts.watchdog_s));
            }
        }
        if inconclusive_allocs > 0 {
            self.note(format!("{}: {} case(s) hit the {} GiB address-space limit with a plausible allocation (< 2^40 bytes); discarded", name, inconclusive_allocs, opts.rlimit_as_gib));
        }
        if let Some((idx, ent, fl)) = first_fail {
            if replay.is_some() {
                self.report_failure(name, Some((0, &ent)), fl);
            } else {
                self.report_failure(name, Some((idx, &ent)), fl);
            }
        } else if replay.is_some() {
            println!("REPLAY-OK property={} subcheck={}", self.prop, name);
        }
        self.subs.push(SubReport {
            max_len: budget.max_len,
            sub_seed: base,
            name: name.to_string(),
            rule: rule.to_string(),
            stats,
            exhaustive: false,
            wall_s: t0.elapsed().as_secs_f64(),
        });
    }
}

/// Worker side: run cases lo..hi of one sub-check, print the result, exit.
fn child_main<F>(cx: &Ctx, base: u64, budget: &Budget, opts: &IsoOpts, f: &F) -> !
where
    F: Fn(&mut Src, &mut Stats) -> Result<(), Fail> + Sync,
{
    set_rlimit_as(opts.rlimit_as_gib);
    let range = std::env::var("VH_CHILD_RANGE").unwrap_or_else(|_| "0:0".into());
    let (lo, hi) = range.split_once(':').map(|(a, b)| (a.parse::<u64>().unwrap_or(0), b.parse::<u64>().unwrap_or(0))).unwrap_or((0, 0));
    let marker = std::env::var("VH_CHILD_MARKER").ok().and_then(|p| std::fs::OpenOptions::new().write(true).open(p).ok());
    let known_sigs: Vec<String> = cx.known.iter().filter(|k| k.status == "known").map(|k| k.signature.clone()).collect();
    let stats = RefCell::new(Stats { recording: true, ..Stats::default() });
    let strat = EntropyStrategy { max_len: budget.max_len };
    let fixed: Option<Vec<u8>> = std::env::var("VH_CHILD_ENTROPY").ok().map(|h| unhex(&h));
    let strict = fixed.is_some();
    let mut fail_json = Value::Null;
    for i in lo..hi {
        if let Some(m) = &marker {
            let _ = m.write_at(&i.to_le_bytes(), 0);
        }
        let mut runner = runner_for(base, i);
        let tree = match &fixed {
            Some(e) => EntropyTree::from_bytes(e.clone()),
            None => match strat.new_tree(&mut runner) {
                Ok(t) => t,
                Err(_) => continue,
            },
        };
        {
            let mut st = stats.borrow_mut();
            st.cur_case = i;
            st.cases += 1;
        }
        let last_fail: RefCell<Option<Fail>> = RefCell::new(None);
        let test = |e: Entropy| -> Result<(), TestCaseError> {
            let r = {
                let mut st = stats.borrow_mut();
                let mut src = Src::new(&e.0);
                let st_ref: &mut Stats = &mut st;
                catch(|| f(&mut src, st_ref))
            };
            let r = match r {
                Ok(r) => r,
                Err((loc, msg)) => Err(Fail::new(format!("panic@{}", panic_sig(&loc)), json!({"panic": msg, "location": loc}))),
            };
            match r {
                Ok(()) => Ok(()),
                Err(fl) => {
                    if !strict && known_sigs.iter().any(|k| *k == fl.sig) {
                        stats.borrow_mut().known_hit(&fl.sig);
                        return Ok(());
                    }
                    stats.borrow_mut().recording = false;
                    let sig = fl.sig.clone();
                    *last_fail.borrow_mut() = Some(fl);
                    Err(TestCaseError::fail(sig))
                }
            }
        };
        if strict {
            // replay: no shrinking
            stats.borrow_mut().want_desc = true;
            let failed = test(Entropy(fixed.clone().unwrap())).is_err();
            if let Some(d) = stats.borrow_mut().last_dump.take() {
                // E5 replay: the driver compares these files across configurations
                let path = format!("{}/out/replay-dump.{}.txt", cx.root, cx.config);
                let _ = std::fs::write(&path, &d);
                eprintln!("REPLAY-DUMP config={} digest={:016x} file={}", cx.config, hash_str(&d), path);
            }
            if failed {
                let mut fl = last_fail.borrow_mut().take().unwrap();
                if let (Some(d), Some(m)) = (stats.borrow_mut().case_desc.take(), fl.detail.as_object_mut()) {
                    m.entry("case").or_insert(d);
                }
                fail_json = json!({"case": i, "entropy_hex": hex(fixed.as_ref().unwrap()), "sig": fl.sig, "detail": fl.detail});
            }
            break;
        }
        let res = runner.run_one(tree, &test);
        if let Err(TestError::Fail(_, ent)) = res {
            stats.borrow_mut().want_desc = true;
            let _ = test(ent.clone());
            let mut fl = last_fail.borrow_mut().take().unwrap_or_else(|| Fail::new("unknown", json!({})));
            if let (Some(d), Some(m)) = (stats.borrow_mut().case_desc.take(), fl.detail.as_object_mut()) {
                m.entry("case").or_insert(d);
            }
            fail_json = json!({"case": i, "entropy_hex": hex(&ent.0), "sig": fl.sig, "detail": fl.detail});
            break;
        }
    }
    let st = stats.into_inner();
    let line = json!({"vh_child": 1, "stats": st.to_json(), "fail": fail_json});
    let mut so = std::io::stdout();
    let _ = writeln!(so, "{}", line);
    let _ = so.flush();
    std::process::exit(0)
}
