//! E2: black-box CLI driver. Spawns the `succinctly` binary built from /repo's working
//! tree (path in $VH_CLI) with a scrubbed environment; stdout/stderr go to files so large
//! outputs cannot dead-lock; a watchdog kills runaway children (reported as timed_out —
//! inconclusive, never a violation by itself).
use std::fs::File;
use std::io::Write;
use std::path::{Path, PathBuf};
use std::process::{Command, Stdio};
use std::sync::atomic::{AtomicU64, Ordering};
use std::time::{Duration, Instant};

#[derive(Debug, Clone)]
pub struct CliOut {
    /// exit status (None if killed by a signal)
    pub code: Option<i32>,
    pub signal: Option<i32>,
    pub stdout: Vec<u8>,
    pub stderr: Vec<u8>,
    pub timed_out: bool,
}

impl CliOut {
    /// a crash in the sense of C19/C30: Rust panic exit status 101 or death by signal
    pub fn crashed(&self) -> bool {
        !self.timed_out && (self.code == Some(101) || self.signal.is_some())
    }
    pub fn ok(&self) -> bool {
        self.code == Some(0)
    }
    pub fn stdout_str(&self) -> String {
        String::from_utf8_lossy(&self.stdout).to_string()
    }
    pub fn stderr_str(&self) -> String {
        String::from_utf8_lossy(&self.stderr).to_string()
    }
}

pub fn cli_path() -> String {
    std::env::var("VH_CLI").unwrap_or_else(|_| format!("{}/target/cli/release/succinctly", crate::engine::verif_root()))
}

pub fn cli_available() -> bool {
    Path::new(&cli_path()).exists()
}

static COUNTER: AtomicU64 = AtomicU64::new(0);

/// Per-process scratch directory under <verif>/out/tmp/<pid>; removed by `cleanup()`.
pub fn tmp_root() -> PathBuf {
    let p = PathBuf::from(format!("{}/out/tmp/{}", crate::engine::verif_root(), std::process::id()));
    let _ = std::fs::create_dir_all(p.join("home"));
    p
}

pub fn cleanup() {
    let _ = std::fs::remove_dir_all(tmp_root());
}

/// A fresh file path in the scratch directory.
pub fn tmp_file(stem: &str) -> PathBuf {
    let n = COUNTER.fetch_add(1, Ordering::Relaxed);
    tmp_root().join(format!("{}-{}", stem, n))
}

pub fn write_tmp(stem: &str, data: &[u8]) -> PathBuf {
    let p = tmp_file(stem);
    let mut f = File::create(&p).expect("create temp file");
    f.write_all(data).expect("write temp file");
    p
}

pub fn run(args: &[&str], stdin: Option<&[u8]>) -> CliOut {
    run_with(&cli_path(), args, stdin, Duration::from_secs(20), &[])
}

pub fn run_env(args: &[&str], stdin: Option<&[u8]>, env: &[(&str, &str)]) -> CliOut {
    run_with(&cli_path(), args, stdin, Duration::from_secs(20), env)
}

pub fn run_with(bin: &str, args: &[&str], stdin: Option<&[u8]>, timeout: Duration, env: &[(&str, &str)]) -> CliOut {
    let root = tmp_root();
    let n = COUNTER.fetch_add(1, Ordering::Relaxed);
    let out_p = root.join(format!("o-{}", n));
    let err_p = root.join(format!("e-{}", n));
    let in_p = root.join(format!("i-{}", n));
    let mut cmd = Command::new(bin);
    cmd.args(args)
        .env_clear()
        .env("PATH", "/usr/bin:/bin")
        .env("HOME", root.join("home"))
        .env("RUST_BACKTRACE", "0")
        .env("NO_COLOR", "1")
        .env("TZ", "UTC")
        .env("LC_ALL", "C.UTF-8")
        .current_dir(&root)
        .stdout(Stdio::from(File::create(&out_p).expect("tmp stdout")))
        .stderr(Stdio::from(File::create(&err_p).expect("tmp stderr")));
    for (k, v) in env {
        cmd.env(k, v);
    }
    match stdin {
        Some(d) => {
            std::fs::write(&in_p, d).expect("tmp stdin");
            cmd.stdin(Stdio::from(File::open(&in_p).expect("tmp stdin open")));
        }
        None => {
            cmd.stdin(Stdio::null());
        }
    }
    let mut child = match cmd.spawn() {
        Ok(c) => c,
        Err(e) => {
            return CliOut { code: None, signal: None, stdout: vec![], stderr: format!("spawn failed: {}", e).into_bytes(), timed_out: true }
        }
    };
    let t0 = Instant::now();
    let mut sleep_us = 200u64;
    let mut timed_out = false;
    let status = loop {
        match child.try_wait() {
            Ok(Some(s)) => break Some(s),
            Ok(None) => {
                if t0.elapsed() > timeout {
                    let _ = child.kill();
                    let _ = child.wait();
                    timed_out = true;
                    break None;
                }
                std::thread::sleep(Duration::from_micros(sleep_us));
                sleep_us = (sleep_us * 3 / 2).min(5000);
            }
            Err(_) => break None,
        }
    };
    let stdout = std::fs::read(&out_p).unwrap_or_default();
    let stderr = std::fs::read(&err_p).unwrap_or_default();
    let _ = std::fs::remove_file(&out_p);
    let _ = std::fs::remove_file(&err_p);
    let _ = std::fs::remove_file(&in_p);
    use std::os::unix::process::ExitStatusExt;
    CliOut {
        code: status.and_then(|s| s.code()),
        signal: status.and_then(|s| s.signal()),
        stdout,
        stderr,
        timed_out,
    }
}
