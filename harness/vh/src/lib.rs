//! vh — verification harness library (shared by the `vh` binary and the cargo-fuzz targets).
#[macro_use]
pub mod engine;
pub mod cli;
pub mod gen;
pub mod isolate;
pub mod merge;
pub mod oracle;
pub mod props;
pub mod selftest;
pub mod fuzz;
