//! E4 glue: run one sub-check's closure on fuzzer-provided entropy. Every `cx.check`
//! sub-check is reachable this way because the replay path executes the closure on a given
//! entropy string; the cargo-fuzz targets under /verif/fuzz are three lines each.
use crate::engine::{Ctx, Tier};

/// Returns Some(signature) if the case violates the property (unlisted failure).
pub fn one(prop: &str, sub: &str, data: &[u8]) -> Option<String> {
    let reg = crate::props::registry();
    let (id, run, _) = reg.iter().find(|r| r.0 == prop)?;
    let mut cx = Ctx::new(id, Tier::Quick);
    cx.quiet = true;
    cx.replays.clear();
    cx.replay_entropy = Some((sub.to_string(), data.to_vec()));
    run(&mut cx);
    cx.violations.first().map(|v| format!("{} (replay {})", v.sig, v.replay_path))
}
