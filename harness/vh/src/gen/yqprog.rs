//! G-yqprog: yq program generators for the black-box yq properties.
//!
//! * [`gen_write`] — the *write fragment* of DESIGN §4 C15 (identity, field/index
//!   navigation, assignment, update, deletion, merge) with paths drawn from a G-yaml
//!   document: existing nodes, nodes behind anchors and aliases, parents of block scalars,
//!   new keys, appended indices. Programs are integer-preserving (no division, `. + 1` only
//!   where the model has an int) so no float can arise from a document with
//!   string/int/bool/null leaves.
//! * [`gen_core`] — a *presentation-agnostic* program over a data tree (C26): paths,
//!   iteration, pipes, comma, construction, integer arithmetic, comparison, boolean
//!   operators, `//`, `if`, `select`, `map`, `keys`, `length`, `type`, `to_entries`, `has`,
//!   `sort`, `add`, string functions, simple writes. Nothing that inspects presentation
//!   (`style`, `tag`, `anchor`, `line`, `column`, comments, `at_offset`, `@yaml`, `filename`,
//!   `document_index`, `key`, `parent`, `kind`).
//!   Keys, indices and comparison operands are drawn from the document through a cheap
//!   abstract interpretation: every sub-expression is generated against the *sample set* of
//!   model values `.` can have at that point, so programs hit data most of the time.
//!
//! Programs are returned as text (what the CLI receives through `--from-file`) plus class
//! tags for the evidence histogram.
use crate::engine::Src;
use crate::gen::yaml::{self as gy, Seg, YOpts, Y};
use crate::oracle::jqeval::jq_string;

/// words the crate's jq parser treats as keywords: a key spelled like one is written
/// `.["and"]`, never `.and` (the dot form of keyword keys is C28's subject, not ours)
const KEYWORDS: &[&str] = &[
    "and", "or", "not", "as", "if", "then", "elif", "else", "end", "try", "catch", "def", "reduce", "foreach",
    "import", "include", "label", "true", "false", "null", "__loc__",
];

fn ident_like(k: &str) -> bool {
    let mut cs = k.chars();
    match cs.next() {
        Some(c) if c.is_ascii_alphabetic() || c == '_' => {}
        _ => return false,
    }
    cs.all(|c| c.is_ascii_alphanumeric() || c == '_') && !KEYWORDS.contains(&k)
}

/// jq path text of `p` relative to `.`: `.`, `.a.b`, `.["k k"][2].c`
pub fn path_text(p: &[Seg]) -> String {
    if p.is_empty() {
        return ".".to_string();
    }
    let mut s = String::new();
    for (i, x) in p.iter().enumerate() {
        match x {
            Seg::Key(k) if ident_like(k) => {
                s.push('.');
                s.push_str(k);
            }
            Seg::Key(k) => {
                if i == 0 {
                    s.push('.');
                }
                s.push('[');
                s.push_str(&jq_string(k));
                s.push(']');
            }
            Seg::Idx(n) => {
                if i == 0 {
                    s.push('.');
                }
                s.push_str(&format!("[{}]", n));
            }
        }
    }
    s
}

/// a model value as a jq literal (JSON text; object keys quoted)
pub fn lit_text(y: &Y) -> String {
    match y {
        Y::Null => "null".into(),
        Y::Bool(b) => b.to_string(),
        Y::Int(n) => n.to_string(),
        Y::Str(s) => jq_string(s),
        Y::Seq(a) => format!("[{}]", a.iter().map(lit_text).collect::<Vec<_>>().join(", ")),
        Y::Map(m) => format!("{{{}}}", m.iter().map(|(k, v)| format!("{}: {}", jq_string(k), lit_text(v))).collect::<Vec<_>>().join(", ")),
    }
}

/// every node of `y` with its path (pre-order)
pub fn all_paths<'a>(y: &'a Y, out: &mut Vec<(Vec<Seg>, &'a Y)>, cur: &mut Vec<Seg>) {
    out.push((cur.clone(), y));
    match y {
        Y::Seq(a) => {
            for (i, x) in a.iter().enumerate() {
                cur.push(Seg::Idx(i));
                all_paths(x, out, cur);
                cur.pop();
            }
        }
        Y::Map(m) => {
            for (k, x) in m {
                cur.push(Seg::Key(k.clone()));
                all_paths(x, out, cur);
                cur.pop();
            }
        }
        _ => {}
    }
}

fn small_opts(simple: bool) -> YOpts {
    let mut o = YOpts::full();
    if simple {
        o.strings = gy::YStrings::Simple;
    }
    o.max_depth = 2;
    o.max_nodes = 6;
    o.max_docs = 1;
    o.deep_spine_16 = 0;
    o
}

/// a literal operand: mostly hostile / ambiguous strings (what an emitter must quote),
/// ints, null/bool, sometimes a small collection
pub fn gen_lit(u: &mut Src, simple: bool) -> Y {
    let o = small_opts(simple);
    match u.below(12) {
        0 => Y::Null,
        1 => Y::Bool(u.bool()),
        2 | 3 => Y::Int(match u.below(4) {
            0 => *u.pick(&[0, 1, -1, i64::MAX, i64::MIN, 1 << 53, (1 << 53) + 1]),
            _ => u.range_i64(-50, 1000),
        }),
        4 => gy::gen_doc(u, &o),
        5 => Y::Seq(vec![]),
        6 => Y::Map(vec![]),
        _ => Y::Str(gy::gen_string(u, &o)),
    }
}

/// a key that does not occur in `avoid`; never `<<` (merge keys are outside the statements)
pub fn gen_new_key(u: &mut Src, avoid: &[&str], simple: bool) -> String {
    let o = small_opts(simple);
    let mut k = gy::gen_key(u, &o);
    if k == "<<" {
        k = "<<<".into();
    }
    let mut t = 0;
    while avoid.contains(&k.as_str()) {
        k = format!("{}{}", k, t);
        t += 1;
    }
    k
}

// ---------------------------------------------------------------- C15: write fragment

#[derive(Clone, Debug, Default)]
pub struct WriteProg {
    pub text: String,
    /// class tags (`identity`, `navigate`, `assign`, `update`, `add-assign`, `delete`,
    /// `merge-literal`, `merge-assign`, `alt-assign`, `pipe`, and path classes
    /// `path:anchor`, `path:alias`, `path:through-alias`, `path:block-scalar-parent`,
    /// `path:new-key`, `path:append`, `path:missing`, `path:existing`)
    pub tags: Vec<&'static str>,
    /// the program changes the document (not identity / navigation)
    pub is_write: bool,
    /// for a pure navigation program: the path it selects
    pub nav_path: Option<Vec<Seg>>,
}

/// Special paths of the rendered document (from the G-yaml span table).
#[derive(Clone, Debug, Default)]
pub struct DocHints {
    pub anchors: Vec<Vec<Seg>>,
    pub aliases: Vec<Vec<Seg>>,
    pub block_scalars: Vec<Vec<Seg>>,
}

pub fn hints_of(r: &gy::RenderedYaml, doc: usize) -> DocHints {
    let mut h = DocHints::default();
    for sp in r.spans.iter().filter(|s| s.doc == doc && s.role == gy::YRole::Value) {
        if sp.anchor.is_some() {
            h.anchors.push(sp.path.clone());
        }
        if sp.alias.is_some() {
            h.aliases.push(sp.path.clone());
        }
        if matches!(sp.style, gy::YStyle::Literal | gy::YStyle::Folded) {
            h.block_scalars.push(sp.path.clone());
        }
    }
    for c in r.containers.iter().filter(|c| c.doc == doc) {
        if c.anchor.is_some() {
            h.anchors.push(c.path.clone());
        }
    }
    h
}

struct WCtx<'a> {
    simple: bool,
    doc: &'a Y,
    nodes: Vec<(Vec<Seg>, &'a Y)>,
    hints: &'a DocHints,
}

impl<'a> WCtx<'a> {
    /// a path for a write or a navigation, with its class tag and the model value there
    fn pick_path(&self, u: &mut Src, want_container: bool) -> (Vec<Seg>, &'static str, Option<&'a Y>) {
        let containers: Vec<&(Vec<Seg>, &Y)> = self.nodes.iter().filter(|n| n.1.is_container()).collect();
        let choice = u.weighted(&[5, 4, 5, 4, 5, 4, 2, 1]);
        match choice {
            1 if !self.hints.anchors.is_empty() => {
                let p = u.pick(&self.hints.anchors).clone();
                let v = gy::value_at(self.doc, &p);
                return (p, "path:anchor", v);
            }
            2 if !self.hints.aliases.is_empty() => {
                let p = u.pick(&self.hints.aliases).clone();
                let v = gy::value_at(self.doc, &p);
                return (p, "path:alias", v);
            }
            3 if !self.hints.aliases.is_empty() || !self.hints.anchors.is_empty() => {
                // a node strictly inside an aliased / anchored collection: the write goes *through* it
                let pool: Vec<&Vec<Seg>> = self.hints.aliases.iter().chain(self.hints.anchors.iter()).collect();
                let base = (*u.pick(&pool)).clone();
                let inside: Vec<&(Vec<Seg>, &Y)> = self.nodes.iter().filter(|n| n.0.len() > base.len() && n.0.starts_with(&base)).collect();
                if !inside.is_empty() {
                    let n = *u.pick(&inside);
                    return (n.0.clone(), "path:through-alias", Some(n.1));
                }
            }
            4 if !self.hints.block_scalars.is_empty() => {
                let p = u.pick(&self.hints.block_scalars).clone();
                if u.bool() && !p.is_empty() {
                    let parent = p[..p.len() - 1].to_vec();
                    let v = gy::value_at(self.doc, &parent);
                    return (parent, "path:block-scalar-parent", v);
                }
                let v = gy::value_at(self.doc, &p);
                return (p, "path:block-scalar", v);
            }
            5 if !containers.is_empty() => {
                // a new key / an appended index under an existing collection
                let (p, y) = *u.pick(&containers);
                let mut p = p.clone();
                match y {
                    Y::Map(m) => {
                        let keys: Vec<&str> = m.iter().map(|e| e.0.as_str()).collect();
                        p.push(Seg::Key(gen_new_key(u, &keys, self.simple)));
                        return (p, "path:new-key", None);
                    }
                    Y::Seq(a) => {
                        p.push(Seg::Idx(a.len() + if u.ratio(1, 4) { 1 } else { 0 }));
                        return (p, "path:append", None);
                    }
                    _ => {}
                }
            }
            6 => {
                // a path that does not exist: one or two fresh steps below an existing node
                let (p, _) = u.pick(&self.nodes);
                let mut p = p.clone();
                for _ in 0..u.range(1, 2) {
                    if u.ratio(3, 4) {
                        p.push(Seg::Key(gen_new_key(u, &[], self.simple)));
                    } else {
                        p.push(Seg::Idx(u.below(3)));
                    }
                }
                return (p, "path:missing", None);
            }
            7 => return (vec![], "path:root", Some(self.doc)),
            _ => {}
        }
        if want_container && !containers.is_empty() && u.ratio(3, 4) {
            let (p, y) = *u.pick(&containers);
            return (p.clone(), "path:existing", Some(*y));
        }
        let (p, y) = u.pick(&self.nodes);
        (p.clone(), "path:existing", Some(*y))
    }

    fn update_fn(&self, u: &mut Src, at: Option<&Y>) -> (String, &'static str) {
        let int_there = matches!(at, Some(Y::Int(_)));
        match u.below(if int_there { 8 } else { 5 }) {
            0 => (".".into(), "update:identity"),
            1 => ("tostring".into(), "update:tostring"),
            2 => ("[.]".into(), "update:wrap-array"),
            3 => (format!("{{{}: .}}", jq_string(&gen_new_key(u, &[], self.simple))), "update:wrap-object"),
            4 => ("[., .]".into(), "update:wrap-array"),
            _ => (". + 1".into(), "update:plus-one"),
        }
    }

    fn one(&self, u: &mut Src, allow_read: bool, allow_write: bool) -> WriteProg {
        let mut w = WriteProg::default();
        let ww = |n: u32| if allow_write { n } else { 0 };
        let kind = u.weighted(&[if allow_read { 2 } else { 0 }, if allow_read { 3 } else { 0 }, ww(8), ww(5), ww(3), ww(4), ww(2), ww(2), ww(2)]);
        match kind {
            0 => {
                w.text = ".".into();
                w.tags.push("identity");
            }
            1 => {
                let (p, tag, _) = self.pick_path(u, true);
                w.text = path_text(&p);
                w.nav_path = Some(p.clone());
                w.tags.push("navigate");
                w.tags.push(tag);
            }
            2 => {
                let (p, tag, _) = self.pick_path(u, false);
                w.text = format!("{} = {}", path_text(&p), lit_text(&gen_lit(u, self.simple)));
                w.tags.push("assign");
                w.tags.push(tag);
                w.is_write = true;
            }
            3 => {
                // a third of the updates go to an integer leaf (for `. + 1`), when there is one
                let ints: Vec<&(Vec<Seg>, &Y)> = self.nodes.iter().filter(|n| matches!(n.1, Y::Int(_))).collect();
                let (p, tag, at) = if !ints.is_empty() && u.ratio(1, 3) {
                    let n = *u.pick(&ints);
                    (n.0.clone(), "path:existing", Some(n.1))
                } else {
                    self.pick_path(u, false)
                };
                let (f, ftag) = self.update_fn(u, at);
                w.text = format!("{} |= {}", path_text(&p), f);
                w.tags.push("update");
                w.tags.push(ftag);
                w.tags.push(tag);
                w.is_write = true;
            }
            4 => {
                let (p, tag, at) = self.pick_path(u, false);
                // an operand of the kind found there (so that `+=` usually succeeds)
                let lit = match at {
                    Some(Y::Int(_)) => Y::Int(u.range_i64(-5, 100)),
                    Some(Y::Str(_)) => Y::Str(gy::gen_string(u, &small_opts(self.simple))),
                    Some(Y::Seq(_)) => Y::Seq((0..u.range(0, 2)).map(|_| gen_lit(u, self.simple)).collect()),
                    Some(Y::Map(m)) => {
                        let keys: Vec<&str> = m.iter().map(|e| e.0.as_str()).collect();
                        let mut lm = vec![(gen_new_key(u, &keys, self.simple), gen_lit(u, self.simple))];
                        if let (true, Some(e)) = (u.bool(), m.first()) {
                            lm.push((e.0.clone(), gen_lit(u, self.simple)));
                        }
                        Y::Map(lm)
                    }
                    _ => gen_lit(u, self.simple),
                };
                w.text = format!("{} += {}", path_text(&p), lit_text(&lit));
                w.tags.push("add-assign");
                w.tags.push(tag);
                w.is_write = true;
            }
            5 => {
                let (p, tag, _) = self.pick_path(u, false);
                w.text = format!("del({})", path_text(&p));
                w.tags.push("delete");
                w.tags.push(tag);
                w.is_write = true;
            }
            6 => {
                // `. * {…}` (or under a mapping path): new keys and overwritten ones
                let maps: Vec<&(Vec<Seg>, &Y)> = self.nodes.iter().filter(|n| matches!(n.1, Y::Map(_))).collect();
                let (p, m): (Vec<Seg>, Vec<(String, Y)>) = if maps.is_empty() {
                    (vec![], vec![])
                } else {
                    let (p, y) = *u.pick(&maps);
                    (if u.ratio(2, 3) { vec![] } else { p.clone() }, if let Y::Map(m) = y { m.clone() } else { vec![] })
                };
                let keys: Vec<&str> = m.iter().map(|e| e.0.as_str()).collect();
                let mut lm = vec![(gen_new_key(u, &keys, self.simple), gen_lit(u, self.simple))];
                if !m.is_empty() && u.bool() {
                    let e = u.pick(&m);
                    lm.push((e.0.clone(), gen_lit(u, self.simple)));
                }
                if p.is_empty() {
                    w.text = format!(". * {}", lit_text(&Y::Map(lm)));
                } else {
                    w.text = format!("{} *= {}", path_text(&p), lit_text(&Y::Map(lm)));
                }
                w.tags.push("merge-literal");
                w.is_write = true;
            }
            7 => {
                // `.p *= .q` on two collections of the document
                let conts: Vec<&(Vec<Seg>, &Y)> = self.nodes.iter().filter(|n| n.1.is_container() && !n.0.is_empty()).collect();
                if conts.len() >= 2 {
                    let a = *u.pick(&conts);
                    let same: Vec<&&(Vec<Seg>, &Y)> = conts.iter().filter(|c| std::mem::discriminant(c.1) == std::mem::discriminant(a.1)).collect();
                    let b = **u.pick(&same);
                    w.text = format!("{} *= {}", path_text(&a.0), path_text(&b.0));
                } else {
                    let (p, _, _) = self.pick_path(u, true);
                    w.text = format!("{} *= {{}}", path_text(&p));
                }
                w.tags.push("merge-assign");
                w.is_write = true;
            }
            _ => {
                let (p, tag, _) = self.pick_path(u, false);
                w.text = format!("{} //= {}", path_text(&p), lit_text(&gen_lit(u, self.simple)));
                w.tags.push("alt-assign");
                w.tags.push(tag);
                w.is_write = true;
            }
        }
        w
    }
}

#[derive(Clone, Copy, Debug, PartialEq)]
pub enum ProgMode {
    Any,
    /// identity / navigation only (the streaming emitter's route)
    ReadOnly,
    /// a program that changes the document
    WriteOnly,
}

/// A program of the write fragment for `doc` (the model of the *first* document of the
/// stream; the same program then runs on every document). `simple`: literals and new keys
/// come from the simple string palette.
pub fn gen_write(u: &mut Src, doc: &Y, hints: &DocHints, mode: ProgMode, simple: bool) -> WriteProg {
    let mut nodes = vec![];
    all_paths(doc, &mut nodes, &mut vec![]);
    let cx = WCtx { simple, doc, nodes, hints };
    let mut w = cx.one(u, mode != ProgMode::WriteOnly, mode != ProgMode::ReadOnly);
    // a pipeline of writes (each stage sees the previous stage's result; paths still come
    // from the original document, so later stages may miss — that is fine)
    let mut stages = 0;
    while w.is_write && stages < 2 && u.ratio(1, 4) {
        let n = cx.one(u, false, true);
        w.text = format!("{} | {}", w.text, n.text);
        w.tags.extend(n.tags);
        if stages == 0 {
            w.tags.push("pipe");
        }
        stages += 1;
    }
    w
}

// ---------------------------------------------------------------- C26: presentation-agnostic core

#[derive(Clone, Debug, Default)]
pub struct CoreProg {
    pub text: String,
    /// number of AST nodes
    pub nodes: usize,
    /// builtin / operator names used (class tags)
    pub tags: Vec<&'static str>,
}

struct G<'a, 'b, 'c> {
    u: &'b mut Src<'c>,
    nodes: usize,
    tags: Vec<&'static str>,
    root: &'a Y,
}

type Samples<'a> = Vec<&'a Y>;

fn children<'a>(s: &Samples<'a>) -> Samples<'a> {
    let mut out = vec![];
    for y in s {
        match y {
            Y::Seq(a) => out.extend(a.iter()),
            Y::Map(m) => out.extend(m.iter().map(|e| &e.1)),
            _ => {}
        }
    }
    out.truncate(24);
    out
}

const WORDS: &[&str] = &["a", "b", "x", "id", "name", "value", "key", "foo", "e", "1", "", " ", "al", "ba"];

impl<'a, 'b, 'c> G<'a, 'b, 'c> {
    fn tag(&mut self, t: &'static str) {
        self.nodes += 1;
        if !self.tags.contains(&t) {
            self.tags.push(t);
        }
    }

    fn some_key(&mut self, s: &Samples<'a>) -> String {
        let mut keys: Vec<&str> = vec![];
        for y in s {
            if let Y::Map(m) = y {
                keys.extend(m.iter().map(|e| e.0.as_str()));
            }
        }
        if !keys.is_empty() && self.u.ratio(7, 8) {
            (*self.u.pick(&keys)).to_string()
        } else {
            (*self.u.pick(WORDS)).to_string()
        }
    }

    fn some_index(&mut self, s: &Samples<'a>) -> i64 {
        let mx = s.iter().filter_map(|y| if let Y::Seq(a) = y { Some(a.len()) } else { None }).max().unwrap_or(0);
        match self.u.below(8) {
            0 => -1,
            1 => mx as i64,
            2 => -(self.u.range(1, mx.max(1) + 1) as i64),
            _ => self.u.below(mx.max(1)) as i64,
        }
    }

    /// a scalar literal, mostly one that occurs in the samples (so comparisons hit)
    fn scalar_lit(&mut self, s: &Samples<'a>) -> String {
        let mut pool: Vec<&Y> = vec![];
        for y in s.iter().chain(children(s).iter()) {
            if !y.is_container() {
                pool.push(y);
            }
        }
        if !pool.is_empty() && self.u.ratio(3, 4) {
            return lit_text(*self.u.pick(&pool[..]));
        }
        match self.u.below(6) {
            0 => "null".into(),
            1 => (*self.u.pick(&["true", "false"])).into(),
            2 | 3 => self.u.range_i64(-3, 12).to_string(),
            _ => jq_string(*self.u.pick(WORDS)),
        }
    }

    fn key_step(&mut self, k: &str, first: bool) -> String {
        if ident_like(k) && self.u.ratio(3, 4) {
            format!(".{}", k)
        } else if first {
            format!(".[{}]", jq_string(k))
        } else {
            format!("[{}]", jq_string(k))
        }
    }

    /// a path expression of 1..3 steps from `.`, following the samples
    fn path(&mut self, s: &Samples<'a>) -> (String, Samples<'a>) {
        let mut cur: Samples<'a> = s.clone();
        let mut text = String::new();
        let steps = self.u.range(1, 3);
        for i in 0..steps {
            let has_map = cur.iter().any(|y| matches!(y, Y::Map(_)));
            let has_seq = cur.iter().any(|y| matches!(y, Y::Seq(_)));
            let first = i == 0;
            let choice = self.u.weighted(&[if has_map || !has_seq { 6 } else { 1 }, if has_seq { 5 } else { 1 }, 2, 1]);
            match choice {
                0 => {
                    let k = self.some_key(&cur);
                    text.push_str(&self.key_step(&k, first));
                    if self.u.ratio(1, 10) {
                        text.push('?');
                    }
                    cur = cur.iter().filter_map(|y| if let Y::Map(m) = y { m.iter().find(|e| e.0 == k).map(|e| &e.1) } else { None }).collect();
                    self.tag("field");
                }
                1 => {
                    let n = self.some_index(&cur);
                    text.push_str(&if first { format!(".[{}]", n) } else { format!("[{}]", n) });
                    cur = cur
                        .iter()
                        .filter_map(|y| if let Y::Seq(a) = y { if n >= 0 { a.get(n as usize) } else { a.len().checked_sub((-n) as usize).and_then(|i| a.get(i)) } } else { None })
                        .collect();
                    self.tag("index");
                }
                2 => {
                    text.push_str(if first { ".[]" } else { "[]" });
                    if self.u.ratio(1, 4) {
                        text.push('?');
                    }
                    cur = children(&cur);
                    self.tag("iterate");
                }
                _ => {
                    // slice of arrays / strings
                    let a = self.u.below(3);
                    let b = a + self.u.below(3);
                    text.push_str(&if first { format!(".[{}:{}]", a, b) } else { format!("[{}:{}]", a, b) });
                    cur = vec![];
                    self.tag("slice");
                }
            }
        }
        (text, cur)
    }

    /// an expression evaluated against `.` ∈ samples; returns text and the samples of its outputs
    fn expr(&mut self, s: &Samples<'a>, depth: usize) -> (String, Samples<'a>) {
        if depth == 0 || self.nodes > 14 {
            return self.leaf(s);
        }
        let any_cont = s.iter().any(|y| y.is_container());
        let any_str = s.iter().any(|y| matches!(y, Y::Str(_)));
        let any_int = s.iter().any(|y| matches!(y, Y::Int(_)));
        let w = [
            8,                            // 0 path
            6,                            // 1 pipe
            2,                            // 2 comma
            3,                            // 3 array construction
            3,                            // 4 object construction
            if any_int { 4 } else { 1 },  // 5 int arithmetic
            4,                            // 6 comparison
            2,                            // 7 boolean ops
            2,                            // 8 alternative
            3,                            // 9 if
            if any_cont { 5 } else { 1 }, // 10 select over children
            if any_cont { 5 } else { 1 }, // 11 map
            if any_cont { 6 } else { 2 }, // 12 collection builtin
            if any_str { 5 } else { 1 },  // 13 string builtin
            3,                            // 14 generic builtin
            2,                            // 15 write
            1,                            // 16 reduce / as-binding
            1,                            // 17 paths / recursion
        ];
        match self.u.weighted(&w) {
            0 => self.path(s),
            1 => {
                let (a, sa) = self.expr(s, depth - 1);
                let (b, sb) = self.expr(&sa, depth - 1);
                self.tag("pipe");
                (format!("{} | {}", a, b), sb)
            }
            2 => {
                let (a, mut sa) = self.expr(s, depth - 1);
                let (b, sb) = self.expr(s, depth - 1);
                sa.extend(sb);
                self.tag("comma");
                (format!("({}, {})", a, b), sa)
            }
            3 => {
                let (a, _) = self.expr(s, depth - 1);
                self.tag("array-construct");
                (format!("[{}]", a), vec![])
            }
            4 => {
                let n = self.u.range(1, 3);
                let mut parts = vec![];
                for i in 0..n {
                    let (v, _) = self.expr(s, depth - 1);
                    let k = if self.u.ratio(1, 4) { self.some_key(s) } else { format!("k{}", i) };
                    if self.u.ratio(1, 6) {
                        // computed key (must be a string: `tostring` keeps it one)
                        let (kx, _) = self.leaf(s);
                        parts.push(format!("(({}) | tostring): ({})", kx, v));
                    } else {
                        parts.push(format!("{}: ({})", jq_string(&k), v));
                    }
                }
                self.tag("object-construct");
                (format!("{{{}}}", parts.join(", ")), vec![])
            }
            5 => {
                // integer-preserving arithmetic: + - on anything (errors are compared too),
                // * only between operands that are ints by construction
                let op = *self.u.pick(&["+", "-", "+", "*"]);
                if op == "*" {
                    let a = self.int_operand(s);
                    let b = self.int_operand(s);
                    self.tag("multiply");
                    (format!("({} * {})", a, b), vec![])
                } else {
                    let (a, _) = self.expr(s, depth - 1);
                    let (b, _) = if self.u.bool() { self.leaf(s) } else { (self.scalar_lit(s), vec![]) };
                    self.tag(if op == "+" { "add-op" } else { "subtract" });
                    (format!("(({}) {} ({}))", a, op, b), vec![])
                }
            }
            6 => {
                let (a, sa) = self.expr(s, depth - 1);
                let b = if self.u.ratio(2, 3) { self.scalar_lit(&sa) } else { self.leaf(s).0 };
                let op = *self.u.pick(&["==", "!=", "<", "<=", ">", ">=", "=="]);
                self.tag("compare");
                (format!("(({}) {} ({}))", a, op, b), vec![])
            }
            7 => {
                let (a, _) = self.expr(s, depth - 1);
                let (b, _) = self.expr(s, depth - 1);
                let t = match self.u.below(3) {
                    0 => format!("(({}) and ({}))", a, b),
                    1 => format!("(({}) or ({}))", a, b),
                    _ => format!("(({}) | not)", a),
                };
                self.tag("boolean");
                (t, vec![])
            }
            8 => {
                let (a, mut sa) = self.expr(s, depth - 1);
                let (b, sb) = self.leaf(s);
                sa.extend(sb);
                self.tag("alternative");
                (format!("(({}) // ({}))", a, b), sa)
            }
            9 => {
                let (c, _) = self.cond(s, depth - 1);
                let (a, mut sa) = self.expr(s, depth - 1);
                self.tag("if");
                if self.u.ratio(1, 4) {
                    (format!("if {} then {} end", c, a), sa)
                } else {
                    let (b, sb) = self.expr(s, depth - 1);
                    sa.extend(sb);
                    (format!("if {} then {} else {} end", c, a, b), sa)
                }
            }
            10 => {
                let ch = children(s);
                let (c, _) = self.cond(&ch, depth - 1);
                self.tag("select");
                match self.u.below(3) {
                    0 => (format!("[.[] | select({})]", c), vec![]),
                    1 => (format!(".[] | select({})", c), ch),
                    _ => (format!("map(select({}))", c), vec![]),
                }
            }
            11 => {
                let ch = children(s);
                let (f, _) = self.expr(&ch, depth - 1);
                let which = *self.u.pick(&["map", "map", "map_values", "with_entries"]);
                self.tag(which);
                if which == "with_entries" {
                    let (g, _) = self.expr(&ch, depth - 1);
                    (format!("with_entries(.value |= ({}))", g), vec![])
                } else {
                    (format!("{}({})", which, f), vec![])
                }
            }
            12 => self.collection_builtin(s, depth),
            13 => self.string_builtin(s),
            14 => {
                let t = *self.u.pick(&[
                    "length", "type", "tostring", "tojson", "not", "keys", "to_entries", "add", "sort", "reverse", "values", "empty",
                    "first", "last", "[paths]", "tonumber", "@json", "@text", "@base64", "utf8bytelength", "explode", "[.[]?]",
                    "objects", "arrays", "strings", "numbers", "booleans", "nulls", "scalars", "iterables", "tojson | fromjson",
                    "getpath([])", "any", "all", "flatten", "unique", "min", "max", "ascii_downcase", "ascii_upcase",
                ]);
                self.tag(match t {
                    "length" => "length",
                    "type" => "type",
                    "keys" => "keys",
                    "to_entries" => "to_entries",
                    "add" => "add",
                    "sort" => "sort",
                    "tostring" => "tostring",
                    "tojson" | "@json" => "tojson",
                    _ => "other-builtin",
                });
                (t.to_string(), vec![])
            }
            15 => self.write(s, depth),
            16 => {
                self.tag("reduce-or-binding");
                match self.u.below(3) {
                    0 => {
                        let (f, _) = self.leaf(&children(s));
                        (format!("reduce .[] as $x (0; . + ($x | {} | length))", f), vec![])
                    }
                    1 => {
                        let (a, sa) = self.path(s);
                        let (b, sb) = self.expr(s, depth - 1);
                        let _ = sa;
                        (format!("({}) as $v | [$v, ({})]", a, b), sb.into_iter().take(0).collect())
                    }
                    _ => {
                        let (f, _) = self.leaf(&children(s));
                        (format!("[limit(3; .[] | {})]", f), vec![])
                    }
                }
            }
            _ => {
                self.tag("recursion");
                match self.u.below(5) {
                    0 => ("[..]".into(), vec![]),
                    1 => ("[paths]".into(), vec![]),
                    2 => ("[leaf_paths]".into(), vec![]),
                    3 => ("[.. | scalars]".into(), vec![]),
                    _ => {
                        let (c, _) = self.cond(&children(s), 1);
                        (format!("[.. | select({})?]", c), vec![])
                    }
                }
            }
        }
    }

    fn int_operand(&mut self, s: &Samples<'a>) -> String {
        // ints by construction: literals, `length`, or a field whose sample values are all ints
        let mut int_keys: Vec<&str> = vec![];
        for y in s {
            if let Y::Map(m) = y {
                for (k, v) in m {
                    if matches!(v, Y::Int(_)) && s.iter().all(|o| match o {
                        Y::Map(m2) => m2.iter().all(|(k2, v2)| k2 != k || matches!(v2, Y::Int(_))),
                        _ => true,
                    }) {
                        int_keys.push(k);
                    }
                }
            }
        }
        match self.u.below(4) {
            0 if !int_keys.is_empty() => {
                let k = (*self.u.pick(&int_keys)).to_string();
                // `// 0`-free: a missing key gives null and `null * n` is compared as an error/… too,
                // but keep the operand an int whenever the key exists
                format!("(.[{}] | numbers)", jq_string(&k))
            }
            1 => "length".into(),
            _ => self.u.range_i64(-4, 9).to_string(),
        }
    }

    fn leaf(&mut self, s: &Samples<'a>) -> (String, Samples<'a>) {
        match self.u.below(8) {
            0 => {
                self.tag("identity");
                (".".into(), s.clone())
            }
            1 => {
                self.tag("literal");
                (self.scalar_lit(s), vec![])
            }
            2 => {
                let t = *self.u.pick(&["length", "type", "tostring", "keys"]);
                self.tag(match t {
                    "length" => "length",
                    "type" => "type",
                    "keys" => "keys",
                    _ => "tostring",
                });
                (t.into(), vec![])
            }
            _ => self.path(s),
        }
    }

    /// a boolean-ish expression about `.` ∈ samples
    fn cond(&mut self, s: &Samples<'a>, depth: usize) -> (String, Samples<'a>) {
        match self.u.below(8) {
            0 => {
                let k = self.some_key(s);
                self.tag("has");
                (format!("has({})", jq_string(&k)), vec![])
            }
            1 => {
                let t = *self.u.pick(&["string", "number", "object", "array", "null", "boolean"]);
                self.tag("type");
                (format!("type == \"{}\"", t), vec![])
            }
            2 | 3 | 4 => {
                let (a, sa) = if self.u.bool() { self.path(s) } else { (".".to_string(), s.clone()) };
                let lit = self.scalar_lit(&sa);
                let op = *self.u.pick(&["==", "!=", "<", ">=", "=="]);
                self.tag("compare");
                (format!("{} {} {}", a, op, lit), vec![])
            }
            5 => {
                let (a, _) = self.path(s);
                self.tag("truthiness");
                (a, vec![])
            }
            _ => {
                if depth > 0 {
                    let (a, _) = self.cond(s, depth - 1);
                    let (b, _) = self.cond(s, depth - 1);
                    self.tag("boolean");
                    (format!("({}) {} ({})", a, *self.u.pick(&["and", "or"]), b), vec![])
                } else {
                    self.tag("length");
                    ("length > 1".into(), vec![])
                }
            }
        }
    }

    fn collection_builtin(&mut self, s: &Samples<'a>, depth: usize) -> (String, Samples<'a>) {
        let ch = children(s);
        let k = self.some_key(&ch);
        let kp = self.key_step(&k, true);
        let which = self.u.below(22);
        let (t, tag): (String, &'static str) = match which {
            0 => ("keys".into(), "keys"),
            1 => ("length".into(), "length"),
            2 => ("to_entries".into(), "to_entries"),
            3 => (format!("has({})", if s.iter().any(|y| matches!(y, Y::Seq(_))) && self.u.bool() { self.some_index(s).max(0).to_string() } else { jq_string(&self.some_key(s)) }), "has"),
            4 => ("sort".into(), "sort"),
            5 => ("add".into(), "add"),
            6 => (format!("sort_by({})", kp), "sort_by"),
            7 => (format!("group_by({})", kp), "group_by"),
            8 => (format!("unique_by({})", kp), "unique_by"),
            9 => ("unique".into(), "unique"),
            10 => ((*self.u.pick(&["min", "max"])).into(), "min-max"),
            11 => (format!("{}({})", *self.u.pick(&["min_by", "max_by"]), kp), "min-max"),
            12 => ("reverse".into(), "reverse"),
            13 => ("flatten".into(), "flatten"),
            14 => ((*self.u.pick(&["first", "last", "first(.[])", ".[-1:]", ".[1:]", ".[:1]"])).into(), "first-last"),
            15 => {
                let (c, _) = self.cond(&ch, depth.saturating_sub(1));
                (format!("{}(.[]; {})", *self.u.pick(&["any", "all"]), c), "any-all")
            }
            16 => (format!("to_entries | map(select(.value != {})) | from_entries", self.scalar_lit(&ch)), "from_entries"),
            17 => (format!("contains({})", self.contains_operand(s)), "contains"),
            18 => (format!("index({})", self.scalar_lit(&ch)), "index-of"),
            19 => (format!("join({})", jq_string(*self.u.pick(&[",", "-", "", " "]))), "join"),
            20 => (format!("map({}) | add", *self.u.pick(&["length", "tostring", "type", "[.]"])), "add"),
            _ => (format!("del({})", self.path(s).0), "delete"),
        };
        self.tag(tag);
        (t, vec![])
    }

    fn contains_operand(&mut self, s: &Samples<'a>) -> String {
        // a sub-value of one of the samples
        let mut pool: Vec<String> = vec![];
        for y in s.iter().take(6) {
            match y {
                Y::Map(m) => {
                    if let Some(e) = m.first() {
                        pool.push(lit_text(&Y::Map(vec![e.clone()])));
                    }
                }
                Y::Seq(a) => {
                    if let Some(e) = a.last() {
                        pool.push(lit_text(&Y::Seq(vec![e.clone()])));
                    }
                }
                Y::Str(t) => pool.push(jq_string(&t.chars().take(2).collect::<String>())),
                _ => {}
            }
        }
        if pool.is_empty() {
            "{}".into()
        } else {
            self.u.pick(&pool).clone()
        }
    }

    fn string_builtin(&mut self, s: &Samples<'a>) -> (String, Samples<'a>) {
        // a fragment of one of the sample strings, so that tests and splits hit
        let strs: Vec<&str> = s.iter().filter_map(|y| if let Y::Str(t) = y { Some(t.as_str()) } else { None }).collect();
        let frag: String = if !strs.is_empty() && self.u.ratio(3, 4) {
            let t: Vec<char> = self.u.pick(&strs).chars().collect();
            if t.is_empty() {
                String::new()
            } else {
                let a = self.u.below(t.len());
                let l = self.u.range(1, 3).min(t.len() - a);
                t[a..a + l].iter().collect()
            }
        } else {
            (*self.u.pick(WORDS)).to_string()
        };
        // regex operands: only letters and digits (no metacharacters to misread)
        let re: String = frag.chars().filter(|c| c.is_ascii_alphanumeric()).collect();
        let re = if re.is_empty() { "a".to_string() } else { re };
        let f = jq_string(&frag);
        let (t, tag): (String, &'static str) = match self.u.below(16) {
            0 => ("length".into(), "length"),
            1 => ("ascii_downcase".into(), "case"),
            2 => ("ascii_upcase".into(), "case"),
            3 => (format!("startswith({})", f), "startswith"),
            4 => (format!("endswith({})", f), "startswith"),
            5 => (format!("ltrimstr({})", f), "trimstr"),
            6 => (format!("rtrimstr({})", f), "trimstr"),
            7 => (format!("split({})", f), "split"),
            8 => (format!("test({})", jq_string(&re)), "test"),
            9 => (format!("contains({})", f), "contains"),
            10 => (format!("(. + {})", f), "add-op"),
            11 => (format!("sub({}; \"_\")", jq_string(&re)), "sub"),
            12 => ("explode".into(), "explode"),
            13 => ("utf8bytelength".into(), "utf8bytelength"),
            14 => (format!("[match({}).offset]", jq_string(&re)), "match"),
            _ => (format!("index({})", f), "index-of"),
        };
        self.tag(tag);
        (t, vec![])
    }

    fn write(&mut self, s: &Samples<'a>, depth: usize) -> (String, Samples<'a>) {
        let (p, sp) = self.path(s);
        let t = match self.u.below(6) {
            0 => format!("{} = {}", p, self.scalar_lit(&sp)),
            1 => {
                let (f, _) = self.expr(&sp, depth.saturating_sub(1).min(1));
                format!("{} |= ({})", p, f)
            }
            2 => format!("del({})", p),
            3 => format!("{} += {}", p, self.scalar_lit(&sp)),
            4 => format!("{} //= {}", p, self.scalar_lit(&sp)),
            _ => format!("{} = ({})", p, self.leaf(s).0),
        };
        self.tag("write");
        (t, vec![])
    }
}

/// A presentation-agnostic program over the data tree `doc`.
pub fn gen_core(u: &mut Src, doc: &Y) -> CoreProg {
    let depth = u.range(1, 3);
    let mut g = G { u, nodes: 0, tags: vec![], root: doc };
    let s: Samples = vec![g.root];
    let (text, _) = g.expr(&s, depth);
    CoreProg { text: guard_text_reading_builtins(&text), nodes: g.nodes, tags: g.tags }
}

/// In yq semantics a few builtins operate on the *source text* of a boolean, null or number
/// (`length` of a number is the length of its spelling, `reverse` reverses the spelling,
/// `tonumber` quotes it in its error message), so on such operands they inspect presentation
/// (`+28` / `28`, `True` / `true`, `~` / `null` are the same value). The presentation-agnostic
/// fragment applies them to the other types only: every occurrence of the identifier outside
/// string literals is wrapped in a type test.
pub fn guard_text_reading_builtins(program: &str) -> String {
    const GUARDS: &[(&str, &str)] = &[
        ("length", "(if type == \"number\" then 0 else length end)"),
        ("reverse", "(if (type == \"string\" or type == \"array\") then reverse else . end)"),
        ("tonumber", "(if (type == \"string\" or type == \"number\") then tonumber else . end)"),
    ];
    let b = program.as_bytes();
    let ident = |c: u8| c.is_ascii_alphanumeric() || c == b'_';
    let mut out = String::with_capacity(program.len() + 32);
    let mut i = 0;
    let mut in_str = false;
    'outer: while i < b.len() {
        if in_str {
            if b[i] == b'\\' && i + 1 < b.len() {
                out.push_str(&program[i..i + 2]);
                i += 2;
                continue;
            }
            if b[i] == b'"' {
                in_str = false;
            }
        } else if b[i] == b'"' {
            in_str = true;
        } else if ident(b[i]) && (i == 0 || !(ident(b[i - 1]) || b[i - 1] == b'.' || b[i - 1] == b'$' || b[i - 1] == b'@')) {
            for (name, guarded) in GUARDS {
                if program[i..].starts_with(name) && !b.get(i + name.len()).map_or(false, |&c| ident(c) || c == b'(') {
                    out.push_str(guarded);
                    i += name.len();
                    continue 'outer;
                }
            }
            // copy the whole identifier so that its tail is not matched again
            let mut k = i;
            while k < b.len() && ident(b[k]) {
                k += 1;
            }
            out.push_str(&program[i..k]);
            i = k;
            continue;
        }
        // copy one character (programs may contain non-ASCII text inside strings)
        let ch_len = program[i..].chars().next().map_or(1, |c| c.len_utf8());
        out.push_str(&program[i..i + ch_len]);
        i += ch_len;
    }
    out
}

