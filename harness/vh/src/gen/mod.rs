pub mod bits;
pub mod json;
