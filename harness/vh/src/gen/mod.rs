pub mod bits;
pub mod dsv;
pub mod text;
