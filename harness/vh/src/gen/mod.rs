pub mod bits;
pub mod json;
pub mod jqcore;
