pub mod bits;
pub mod dsv;
pub mod json;
pub mod jsonmut;
pub mod text;
