pub mod bits;
pub mod bp;
pub mod dsv;
pub mod json;
pub mod jsonmut;
pub mod text;
pub mod yaml;
pub mod yqprog;
