pub mod bits;
