pub mod bits;
pub mod bp;
pub mod dsv;
pub mod json;
pub mod jsonmut;
pub mod soup;
pub mod text;
pub mod yaml;
