pub mod bits;
pub mod bp;
