//! G-json: JSON value model, constructive generator and renderer with span table
//! (DESIGN §3). The model knows the value by construction; the renderer makes the
//! presentation choices (whitespace per gap, escape form per character) from the
//! entropy and records the byte span of every token.
use crate::engine::Src;

#[derive(Clone, Debug)]
pub struct Num {
    /// literal spelling (JSON grammar)
    pub text: String,
    /// value: Rust's correctly-rounded parse of `text`
    pub value: f64,
    /// Some(n) iff the spelling is a plain integer literal that fits i64
    pub int: Option<i64>,
}

#[derive(Clone, Debug)]
pub enum J {
    Null,
    Bool(bool),
    Num(Num),
    Str(String),
    Arr(Vec<J>),
    Obj(Vec<(String, J)>),
}

impl J {
    pub fn kind(&self) -> &'static str {
        match self {
            J::Null => "null",
            J::Bool(_) => "boolean",
            J::Num(_) => "number",
            J::Str(_) => "string",
            J::Arr(_) => "array",
            J::Obj(_) => "object",
        }
    }
    pub fn is_container(&self) -> bool {
        matches!(self, J::Arr(_) | J::Obj(_))
    }
    pub fn num(text: &str) -> J {
        let value: f64 = text.parse().expect("generated number literal parses");
        let int = if text.bytes().all(|b| b.is_ascii_digit() || b == b'-') {
            text.parse::<i64>().ok()
        } else {
            None
        };
        J::Num(Num { text: text.to_string(), value, int })
    }
    pub fn int(n: i64) -> J {
        J::Num(Num { text: n.to_string(), value: n as f64, int: Some(n) })
    }
    /// nesting depth (scalar = 0, [] = 1)
    pub fn depth(&self) -> usize {
        // iterative: documents can be thousands of levels deep
        let mut max = 0;
        let mut stack: Vec<(&J, usize)> = vec![(self, 0)];
        while let Some((j, d)) = stack.pop() {
            match j {
                J::Arr(a) => {
                    max = max.max(d + 1);
                    for x in a {
                        stack.push((x, d + 1));
                    }
                }
                J::Obj(o) => {
                    max = max.max(d + 1);
                    for (_, x) in o {
                        stack.push((x, d + 1));
                    }
                }
                _ => max = max.max(d),
            }
        }
        max
    }
    pub fn node_count(&self) -> usize {
        let mut n = 0;
        let mut stack: Vec<&J> = vec![self];
        while let Some(j) = stack.pop() {
            n += 1;
            match j {
                J::Arr(a) => stack.extend(a.iter()),
                J::Obj(o) => stack.extend(o.iter().map(|x| &x.1)),
                _ => {}
            }
        }
        n
    }
    pub fn has_dup_keys(&self) -> bool {
        let mut stack: Vec<&J> = vec![self];
        while let Some(j) = stack.pop() {
            match j {
                J::Arr(a) => stack.extend(a.iter()),
                J::Obj(o) => {
                    for (i, (k, v)) in o.iter().enumerate() {
                        if o[..i].iter().any(|(k2, _)| k2 == k) {
                            return true;
                        }
                        stack.push(v);
                    }
                }
                _ => {}
            }
        }
        false
    }
}

/// Deep trees must not be dropped recursively.
pub fn drop_deep(j: J) {
    let mut stack = vec![j];
    while let Some(x) = stack.pop() {
        match x {
            J::Arr(a) => stack.extend(a),
            J::Obj(o) => stack.extend(o.into_iter().map(|p| p.1)),
            _ => {}
        }
    }
}

/// Value equality: numbers as doubles (-0 == 0), everything else structural
/// (object fields in order, duplicates included).
pub fn j_eq(a: &J, b: &J) -> bool {
    let mut stack: Vec<(&J, &J)> = vec![(a, b)];
    while let Some((a, b)) = stack.pop() {
        match (a, b) {
            (J::Null, J::Null) => {}
            (J::Bool(x), J::Bool(y)) if x == y => {}
            (J::Num(x), J::Num(y)) if x.value == y.value => {}
            (J::Str(x), J::Str(y)) if x == y => {}
            (J::Arr(x), J::Arr(y)) if x.len() == y.len() => {
                stack.extend(x.iter().zip(y.iter()));
            }
            (J::Obj(x), J::Obj(y)) if x.len() == y.len() => {
                for ((k1, v1), (k2, v2)) in x.iter().zip(y.iter()) {
                    if k1 != k2 {
                        return false;
                    }
                    stack.push((v1, v2));
                }
            }
            _ => return false,
        }
    }
    true
}

// ---------------------------------------------------------------- generation

#[derive(Clone, Debug)]
pub struct GenOpts {
    pub max_depth: usize,
    pub max_nodes: usize,
    /// allow duplicate keys inside an object
    pub dup_keys: bool,
    /// string character palette
    pub strings: StrPalette,
    /// key palette
    pub keys: KeyPalette,
    /// numbers: 0 = small ints only, 1 = ints incl. i64 edges, 2 = every number shape
    pub numbers: u8,
    pub max_str_len: usize,
}

#[derive(Clone, Copy, Debug, PartialEq)]
pub enum StrPalette {
    /// printable ASCII without quote/backslash
    AsciiPlain,
    /// ASCII incl. quote, backslash, controls
    Ascii,
    /// everything: C0, DEL, C1, Latin-1, BMP incl. U+2028/9 and noncharacters, astral
    Full,
}

#[derive(Clone, Copy, Debug, PartialEq)]
pub enum KeyPalette {
    /// short identifiers a..h, mostly distinct
    Ident,
    /// identifiers, empty, spaces, quotes, digits-first, non-ASCII, jq keywords
    Hostile,
    /// same palette as string values
    AsStrings,
}

impl Default for GenOpts {
    fn default() -> Self {
        GenOpts {
            max_depth: 6,
            max_nodes: 60,
            dup_keys: true,
            strings: StrPalette::Full,
            keys: KeyPalette::AsStrings,
            numbers: 2,
            max_str_len: 24,
        }
    }
}

pub const JQ_KEYWORDS: &[&str] = &[
    "and", "or", "not", "if", "then", "elif", "else", "end", "as", "def", "reduce", "foreach",
    "try", "catch", "label", "import", "include", "__loc__", "true", "false", "null",
];

pub fn gen_char(u: &mut Src, p: StrPalette) -> char {
    match p {
        StrPalette::AsciiPlain => {
            let c = u.range(0x20, 0x7e) as u8 as char;
            if c == '"' || c == '\\' {
                'x'
            } else {
                c
            }
        }
        StrPalette::Ascii => match u.below(8) {
            0 => *u.pick(&['"', '\\', '/', '\u{8}', '\u{c}', '\n', '\r', '\t']),
            1 => u.range(0, 0x1f) as u8 as char,
            2 => '\u{7f}',
            _ => u.range(0x20, 0x7e) as u8 as char,
        },
        StrPalette::Full => match u.below(16) {
            0 => *u.pick(&['"', '\\', '/', '\u{8}', '\u{c}', '\n', '\r', '\t']),
            1 => u.range(0, 0x1f) as u8 as char,
            2 => *u.pick(&['\u{7f}', '\u{80}', '\u{85}', '\u{9f}', '\u{a0}', '\u{ff}']),
            3 => char::from_u32(u.range(0x80, 0x7ff) as u32).unwrap_or('é'),
            4 => *u.pick(&['\u{2028}', '\u{2029}', '\u{fffe}', '\u{ffff}', '\u{fdd0}', '\u{feff}', '\u{fffd}', '\u{d7ff}', '\u{e000}']),
            5 => char::from_u32(u.range(0x800, 0xd7ff) as u32).unwrap_or('あ'),
            6 => char::from_u32(u.range(0x10000, 0x10ffff) as u32).unwrap_or('😀'),
            7 => *u.pick(&['😀', '\u{10000}', '\u{10ffff}', '\u{1f4a9}']),
            8 => *u.pick(&['{', '}', '[', ']', ',', ':', ' ']),
            _ => u.range(0x20, 0x7e) as u8 as char,
        },
    }
}

pub fn gen_string(u: &mut Src, p: StrPalette, max_len: usize) -> String {
    let n = match u.below(10) {
        0 => 0,
        1..=6 => u.range(0, max_len.min(6)),
        7 | 8 => u.range(0, max_len),
        _ => u.range(0, max_len * 4), // occasionally long
    };
    let mut s = String::new();
    // long strings: expand a short generated piece by repetition
    if n > 40 {
        let piece: String = (0..u.range(1, 20)).map(|_| gen_char(u, p)).collect();
        while s.chars().count() < n {
            s.push_str(&piece);
            if u.ratio(1, 4) {
                s.push(gen_char(u, p));
            }
        }
        return s;
    }
    for _ in 0..n {
        s.push(gen_char(u, p));
    }
    s
}

pub fn gen_key(u: &mut Src, o: &GenOpts) -> String {
    match o.keys {
        KeyPalette::Ident => {
            let n = u.range(1, 3);
            (0..n).map(|_| (b'a' + u.below(8) as u8) as char).collect()
        }
        KeyPalette::Hostile => match u.below(12) {
            0 => String::new(),
            1 => JQ_KEYWORDS[u.below(JQ_KEYWORDS.len())].to_string(),
            2 => format!("{}{}", u.below(10), gen_string(u, StrPalette::AsciiPlain, 4)),
            3 => format!("a b{}", u.below(10)),
            4 => format!("q\"{}\\", u.below(10)),
            5 => format!("é{}", u.below(10)),
            6 => format!("\\({})", u.below(10)),
            7 => gen_string(u, StrPalette::Full, 6),
            8 => format!("k-{}", u.below(10)),
            9 => format!("$__loc__{}", u.below(3)),
            _ => {
                let n = u.range(1, 4);
                (0..n).map(|_| (b'a' + u.below(26) as u8) as char).collect()
            }
        },
        KeyPalette::AsStrings => {
            if u.ratio(1, 2) {
                let n = u.range(1, 2);
                (0..n).map(|_| (b'a' + u.below(6) as u8) as char).collect()
            } else {
                gen_string(u, o.strings, o.max_str_len.min(8))
            }
        }
    }
}

/// A number literal in the JSON grammar whose value is a finite double.
pub fn gen_number(u: &mut Src, level: u8) -> J {
    if level == 0 {
        return J::int(u.range_i64(-9, 99));
    }
    if level == 1 {
        return match u.below(6) {
            0 => J::int(*u.pick(&[0, 1, -1, i64::MAX, i64::MIN, i64::MAX - 1, i64::MIN + 1, 1 << 53, (1 << 53) + 1, -(1 << 53) - 1, u32::MAX as i64, i32::MIN as i64])),
            1 => J::int(u.u64() as i64),
            _ => J::int(u.range_i64(-1000, 1000)),
        };
    }
    let text = match u.below(14) {
        0 => u.range_i64(-20, 200).to_string(),
        1 => (u.u64() as i64).to_string(),
        2 => pick_str(u, &["0", "-0", "0.0", "-0.0", "0e0", "-0.0e-7", "0E+5", "0.000e5", "1E+005", "1e-005"]),
        3 => pick_str(u, &["9223372036854775807", "-9223372036854775808", "9223372036854775808", "-9223372036854775809", "18446744073709551615", "18446744073709551616", "9007199254740992", "9007199254740993", "-9007199254740993", "100000000000000000000", "123456789012345678901234567890"]),
        4 => {
            // decimal fraction
            let a = u.range_i64(-999, 999);
            let f = u.range(0, 999999);
            let z = "0".repeat(u.below(4));
            format!("{}.{}{}", a, f, z)
        }
        5 => {
            // exponent forms
            let m = u.range(1, 9999);
            let e = u.range_i64(-30, 30);
            let ech = if u.bool() { 'e' } else { 'E' };
            let sign = match (e < 0, u.below(3)) {
                (true, _) => "-",
                (false, 0) => "+",
                _ => "",
            };
            let lead = "0".repeat(u.below(3));
            format!("{}{}{}{}{}", m, ech, sign, lead, e.abs())
        }
        6 => {
            let m = u.range(0, 99);
            let f = u.range(0, 99999);
            let e = u.range_i64(-320, 300);
            format!("{}{}.{}e{}", if u.bool() { "-" } else { "" }, m, f, e)
        }
        7 => pick_str(u, &["1e308", "1.7976931348623157e308", "4.9e-324", "5e-324", "2.2250738585072014e-308", "1e-400", "0.1", "0.2", "0.30000000000000004", "1e22", "1e23", "1.5", "3.141592653589793", "2.718281828459045", "1e15", "1e16", "1e17", "123456789012345680", "0.000001", "0.0000001", "1e-7", "100", "1E2", "1.00e2", "1e3", "0.10", "1.0"]),
        8 => {
            // long fraction built from a short decimal by appending zeros
            let a = u.range(0, 99);
            let f = u.range(1, 9999);
            format!("{}.{}{}", a, f, "0".repeat(u.range(1, 30)))
        }
        9 => {
            // many significant digits
            let n = u.range(17, 40);
            let mut s = String::new();
            if u.bool() {
                s.push('-');
            }
            s.push((b'1' + u.below(9) as u8) as char);
            let dot = u.range(0, n);
            for i in 0..n {
                if i == dot && i + 1 < n {
                    s.push('.');
                }
                s.push((b'0' + u.below(10) as u8) as char);
            }
            if s.ends_with('.') {
                s.push('0');
            }
            s
        }
        10 => {
            // random double, shortest repr (Rust's Display is round-trip exact)
            let f = f64::from_bits(u.u64());
            if f.is_finite() {
                let s = format!("{:e}", f);
                s
            } else {
                "1".to_string()
            }
        }
        _ => u.range_i64(-3, 12).to_string(),
    };
    let v: f64 = text.parse().unwrap_or(f64::NAN);
    if !v.is_finite() {
        return J::int(7);
    }
    J::num(&text)
}

fn pick_str(u: &mut Src, xs: &[&str]) -> String {
    xs[u.below(xs.len())].to_string()
}

pub fn gen_scalar(u: &mut Src, o: &GenOpts) -> J {
    match u.below(8) {
        0 => J::Null,
        1 => J::Bool(u.bool()),
        2 | 3 | 4 => gen_number(u, o.numbers),
        _ => J::Str(gen_string(u, o.strings, o.max_str_len)),
    }
}

/// Size-driven recursive generation (explicit node budget, explicit depth knob).
pub fn gen_value(u: &mut Src, o: &GenOpts) -> J {
    let mut budget = o.max_nodes;
    if o.max_depth > 0 && o.max_nodes > 1 && !u.ratio(1, 8) {
        // the root is usually a container
        return gen_container(u, o, o.max_depth, &mut budget);
    }
    gen_rec(u, o, o.max_depth, &mut budget)
}

fn gen_rec(u: &mut Src, o: &GenOpts, depth_left: usize, budget: &mut usize) -> J {
    *budget = budget.saturating_sub(1);
    if depth_left == 0 || *budget == 0 || u.ratio(2, 5) {
        return gen_scalar(u, o);
    }
    gen_container(u, o, depth_left, budget)
}

fn gen_container(u: &mut Src, o: &GenOpts, depth_left: usize, budget: &mut usize) -> J {
    let n = match u.below(8) {
        0 => 0,
        1 | 2 => 1,
        3 | 4 => 2,
        5 => 3,
        _ => u.range(0, 8),
    };
    if u.bool() {
        let mut a = Vec::with_capacity(n);
        for _ in 0..n {
            if *budget == 0 {
                break;
            }
            a.push(gen_rec(u, o, depth_left - 1, budget));
        }
        J::Arr(a)
    } else {
        let mut f: Vec<(String, J)> = Vec::with_capacity(n);
        for _ in 0..n {
            if *budget == 0 {
                break;
            }
            let mut k = gen_key(u, o);
            if o.dup_keys {
                if !f.is_empty() && u.ratio(1, 6) {
                    k = f[u.below(f.len())].0.clone();
                }
            } else {
                let mut tries = 0;
                while f.iter().any(|(k2, _)| *k2 == k) {
                    k = format!("{}{}", k, tries);
                    tries += 1;
                }
            }
            let v = gen_rec(u, o, depth_left - 1, budget);
            f.push((k, v));
        }
        J::Obj(f)
    }
}

/// A chain of `depth` nested containers around `inner` (depth knob for 129/257/2000).
pub fn wrap_deep(u: &mut Src, inner: J, depth: usize) -> J {
    let mut v = inner;
    // pattern of array/object choice repeats from a few entropy bytes
    let pat = u.u64();
    for i in 0..depth {
        if (pat >> (i % 64)) & 1 == 0 {
            v = J::Arr(vec![v]);
        } else {
            v = J::Obj(vec![("k".to_string(), v)]);
        }
    }
    v
}

// ---------------------------------------------------------------- rendering

#[derive(Clone, Copy, Debug, PartialEq)]
pub enum Ws {
    /// no insignificant whitespace
    None,
    /// 0..3 of the four whitespace bytes in every gap, chosen per gap
    Random,
    /// one space after ':' and ','
    Spaced,
    /// newline + indentation (pretty)
    Pretty,
}

#[derive(Clone, Copy, Debug, PartialEq)]
pub enum Esc {
    /// escape only what must be escaped (short escapes where they exist)
    Minimal,
    /// choose a form per character from the entropy
    Random,
    /// \uXXXX for everything outside printable ASCII (ASCII-only output)
    AsciiOnly,
}

#[derive(Clone, Copy, Debug)]
pub struct RenderOpts {
    pub ws: Ws,
    pub esc: Esc,
    /// whitespace before/after the root
    pub outer_ws: bool,
}

#[derive(Clone, Copy, Debug, PartialEq)]
pub enum Role {
    Value,
    Key,
}

#[derive(Clone, Debug)]
pub struct Span {
    pub start: usize,
    /// exclusive end
    pub end: usize,
    pub role: Role,
    pub kind: &'static str,
    pub depth: usize,
    /// index of the enclosing container's span
    pub parent: Option<usize>,
    /// for a key: index of the span of the value it names
    pub value_of_key: Option<usize>,
    /// position among the parent's children (elements, or fields counting key+value as one)
    pub ordinal: usize,
}

#[derive(Clone, Debug, Default)]
pub struct Rendered {
    pub text: Vec<u8>,
    /// pre-order (document order): keys and values each have an entry
    pub spans: Vec<Span>,
    /// positions of `{ } [ ] , :` outside strings, in order
    pub structurals: Vec<usize>,
    pub n_escapes: usize,
    pub n_ws_gaps: usize,
    pub n_surrogate_pairs: usize,
}

fn gap(out: &mut Rendered, u: &mut Src, ws: Ws) {
    if ws == Ws::Random {
        let n = match u.below(6) {
            0 | 1 | 2 => 0,
            3 => 1,
            4 => 2,
            _ => 3,
        };
        for _ in 0..n {
            out.text.push(*u.pick(&[b' ', b'\n', b'\t', b'\r']));
        }
        if n > 0 {
            out.n_ws_gaps += 1;
        }
    }
}

fn newline_indent(out: &mut Rendered, depth: usize) {
    out.text.push(b'\n');
    for _ in 0..depth.min(40) * 2 {
        out.text.push(b' ');
    }
    out.n_ws_gaps += 1;
}

pub fn render_string(out: &mut Rendered, u: &mut Src, s: &str, esc: Esc) {
    out.text.push(b'"');
    for c in s.chars() {
        let must = (c as u32) < 0x20 || c == '"' || c == '\\';
        let short = match c {
            '"' => Some('"'),
            '\\' => Some('\\'),
            '/' => Some('/'),
            '\u{8}' => Some('b'),
            '\u{c}' => Some('f'),
            '\n' => Some('n'),
            '\r' => Some('r'),
            '\t' => Some('t'),
            _ => None,
        };
        // form: 0 raw, 1 short escape, 2 \uXXXX lower, 3 \uXXXX upper
        let form = match esc {
            Esc::Minimal => {
                if must {
                    if short.is_some() && c != '/' {
                        1
                    } else {
                        2
                    }
                } else {
                    0
                }
            }
            Esc::AsciiOnly => {
                if must {
                    if short.is_some() {
                        1
                    } else {
                        2
                    }
                } else if (c as u32) >= 0x7f {
                    3
                } else {
                    0
                }
            }
            Esc::Random => {
                let r = u.below(8);
                let f = match r {
                    0 => 2,
                    1 => 3,
                    2 => 1,
                    _ => 0,
                };
                if f == 1 && short.is_none() {
                    if must {
                        2
                    } else {
                        0
                    }
                } else if f == 0 && must {
                    if short.is_some() {
                        1
                    } else {
                        3
                    }
                } else {
                    f
                }
            }
        };
        match form {
            0 => {
                let mut b = [0u8; 4];
                out.text.extend_from_slice(c.encode_utf8(&mut b).as_bytes());
            }
            1 => {
                out.text.push(b'\\');
                out.text.push(short.unwrap() as u8);
                out.n_escapes += 1;
            }
            _ => {
                let mut units = [0u16; 2];
                let us = c.encode_utf16(&mut units);
                if us.len() == 2 {
                    out.n_surrogate_pairs += 1;
                }
                for x in us.iter() {
                    let h = if form == 2 { format!("\\u{:04x}", x) } else { format!("\\u{:04X}", x) };
                    out.text.extend_from_slice(h.as_bytes());
                }
                out.n_escapes += 1;
            }
        }
    }
    out.text.push(b'"');
}

/// Render `j`; iterative so depth is unbounded.
pub fn render(j: &J, u: &mut Src, o: RenderOpts) -> Rendered {
    let mut out = Rendered::default();
    if o.outer_ws {
        gap(&mut out, u, Ws::Random);
    }
    enum Task<'a> {
        Val(&'a J, usize, Option<usize>, usize, Option<usize>), // value, depth, parent span, ordinal, key span to patch
        CloseArr(usize, usize),                                 // span index, depth
        CloseObj(usize, usize),
        Comma,
        Key(&'a str, usize, usize, usize), // key, depth, parent span, ordinal
        Colon,
        Indent(usize),
    }
    let mut stack: Vec<Task> = vec![Task::Val(j, 0, None, 0, None)];
    while let Some(t) = stack.pop() {
        match t {
            Task::Indent(d) => newline_indent(&mut out, d),
            Task::Comma => {
                gap(&mut out, u, o.ws);
                out.structurals.push(out.text.len());
                out.text.push(b',');
                if o.ws == Ws::Spaced {
                    out.text.push(b' ');
                }
                gap(&mut out, u, o.ws);
            }
            Task::Colon => {
                gap(&mut out, u, o.ws);
                out.structurals.push(out.text.len());
                out.text.push(b':');
                if o.ws == Ws::Spaced || o.ws == Ws::Pretty {
                    out.text.push(b' ');
                }
                gap(&mut out, u, o.ws);
            }
            Task::Key(k, depth, parent, ordinal) => {
                let start = out.text.len();
                render_string(&mut out, u, k, o.esc);
                out.spans.push(Span {
                    start,
                    end: out.text.len(),
                    role: Role::Key,
                    kind: "string",
                    depth,
                    parent: Some(parent),
                    value_of_key: None,
                    ordinal,
                });
            }
            Task::CloseArr(si, depth) | Task::CloseObj(si, depth) => {
                let is_arr = matches!(t, Task::CloseArr(..));
                if o.ws == Ws::Pretty && out.text.last().map_or(false, |&b| b != b'[' && b != b'{') {
                    newline_indent(&mut out, depth);
                }
                gap(&mut out, u, o.ws);
                out.structurals.push(out.text.len());
                out.text.push(if is_arr { b']' } else { b'}' });
                out.spans[si].end = out.text.len();
            }
            Task::Val(v, depth, parent, ordinal, key_span) => {
                let si = out.spans.len();
                if let Some(ks) = key_span_fix(&out, key_span) {
                    out.spans[ks].value_of_key = Some(si);
                }
                let start = out.text.len();
                let mut span = Span {
                    start,
                    end: start,
                    role: Role::Value,
                    kind: v.kind(),
                    depth,
                    parent,
                    value_of_key: None,
                    ordinal,
                };
                match v {
                    J::Null => out.text.extend_from_slice(b"null"),
                    J::Bool(true) => out.text.extend_from_slice(b"true"),
                    J::Bool(false) => out.text.extend_from_slice(b"false"),
                    J::Num(n) => out.text.extend_from_slice(n.text.as_bytes()),
                    J::Str(s) => render_string(&mut out, u, s, o.esc),
                    J::Arr(a) => {
                        out.structurals.push(out.text.len());
                        out.text.push(b'[');
                        stack.push(Task::CloseArr(si, depth));
                        for (i, x) in a.iter().enumerate().rev() {
                            stack.push(Task::Val(x, depth + 1, Some(si), i, None));
                            if o.ws == Ws::Pretty {
                                stack.push(Task::Indent(depth + 1));
                            }
                            if i > 0 {
                                stack.push(Task::Comma);
                            }
                        }
                        gap(&mut out, u, o.ws);
                    }
                    J::Obj(f) => {
                        out.structurals.push(out.text.len());
                        out.text.push(b'{');
                        stack.push(Task::CloseObj(si, depth));
                        for (i, (k, x)) in f.iter().enumerate().rev() {
                            // the key's span index is only known when it is rendered;
                            // Val patches `value_of_key` of the most recent key span
                            stack.push(Task::Val(x, depth + 1, Some(si), i, Some(usize::MAX)));
                            stack.push(Task::Colon);
                            stack.push(Task::Key(k, depth + 1, si, i));
                            if o.ws == Ws::Pretty {
                                stack.push(Task::Indent(depth + 1));
                            }
                            if i > 0 {
                                stack.push(Task::Comma);
                            }
                        }
                        gap(&mut out, u, o.ws);
                    }
                }
                span.end = out.text.len();
                out.spans.push(span);
            }
        }
    }
    if o.outer_ws {
        gap(&mut out, u, Ws::Random);
    }
    out
}

/// The key span that a value following a key belongs to: the last span pushed.
fn key_span_fix(out: &Rendered, key_span: Option<usize>) -> Option<usize> {
    match key_span {
        Some(_) => {
            let i = out.spans.len().checked_sub(1)?;
            if out.spans[i].role == Role::Key {
                Some(i)
            } else {
                None
            }
        }
        None => None,
    }
}

pub fn render_opts(u: &mut Src) -> RenderOpts {
    RenderOpts {
        ws: *u.pick(&[Ws::Random, Ws::Random, Ws::None, Ws::Spaced, Ws::Pretty]),
        esc: *u.pick(&[Esc::Random, Esc::Random, Esc::Minimal, Esc::AsciiOnly]),
        outer_ws: u.ratio(1, 3),
    }
}

/// Compact canonical text of a model value (for messages and as CLI input).
pub fn to_compact(j: &J) -> String {
    let mut u = Src::new(&[]);
    let r = render(j, &mut u, RenderOpts { ws: Ws::None, esc: Esc::Minimal, outer_ws: false });
    String::from_utf8(r.text).expect("renderer emits UTF-8")
}

/// Model value at a span: walk by (parent, ordinal) chain.
pub fn value_at<'a>(root: &'a J, r: &Rendered, span_idx: usize) -> &'a J {
    let mut chain = vec![];
    let mut i = span_idx;
    while let Some(p) = r.spans[i].parent {
        chain.push(r.spans[i].ordinal);
        i = p;
    }
    let mut v = root;
    for &o in chain.iter().rev() {
        v = match v {
            J::Arr(a) => &a[o],
            J::Obj(f) => &f[o].1,
            _ => unreachable!("span chain enters a scalar"),
        };
    }
    v
}
