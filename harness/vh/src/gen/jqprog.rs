//! G-jqprog: grammar-based jq program generator (DESIGN §3).
//!
//! # API (shared: C23, C24, C25, C26, C30)
//!
//! ```ignore
//! use crate::gen::jqprog::{self, Cfg, Profile};
//! let cfg = Cfg::new(Profile::Core);                 // or Full / Hostile; tweak fields / `exclude`
//! let p: Prog = jqprog::gen_program(u, &doc, &cfg);  // doc: &gen::json::J the program will run on
//! p.text        // program text (what to hand to jq::parse / `-f file`)
//! p.ast         // the AST (`E`); `jqprog::print(&p.ast)` re-renders, `E::features()` lists constructs
//! p.feats       // sorted, de-duplicated construct / builtin names used ("b:ltrimstr", "reduce", "assign:|=", ...)
//! p.nodes, p.kinds   // AST node count / number of distinct node kinds (non-trivial rules)
//! p.extreme     // hostile only: contains an extreme operand (infinite, nan, 1e19, 1e1000, huge counts ...)
//! p.nest        // maximum bracket/paren nesting of the text
//! p.family      // "gen" | "soup" | "deep" | "extreme" | "mutant" (hostile families)
//! ```
//!
//! * `Profile::Core`   — version-stable fragment for differential use against jq 1.6 / yq inputs
//!   (C24b, C26): always `else`, no regex/date/implode/limit/`?//`/`$__loc__`/`input`/`env`/`now`,
//!   integers small, no float indices, no succinctly extensions. Builtin vocabulary = table rows
//!   with `tier == 0` (those that occur in /repo/tests/data/jq-golden filters and are not in the
//!   1.6-vs-1.7 clusters of DESIGN §4 C24).
//! * `Profile::Full`   — everything deterministic the parser accepts (tier <= 1, plus tier 2
//!   succinctly/yq extension builtins when `cfg.extensions`).
//! * `Profile::Hostile` — Full + extreme operands, huge repeat counts (<= 1e5 or >= 1e15, never the
//!   middle), side-effecting / non-deterministic builtins (tier 3), deep nesting up to 5 000,
//!   non-ASCII / control characters in program text, token soups, mutated seed filters
//!   (`gen_hostile(u, doc, cfg, seeds)`).
//!
//! Generation is *typed*: every sub-expression is generated against a representative sample of
//! its input (`.`), which for paths is the real sub-value of the document, so field names and
//! indices hit data; `cfg.type_error_rate` (1-in-N) injects deliberate kind mismatches.
//! Divergence is bounded by construction: `range` bounds are literals <= 20; `repeat`, `while`,
//! `until`, `recurse(f)` only appear as guarded templates (`limit(n; ...)`, monotone conditions,
//! descending `f`); user `def`s never recurse. `cfg.exclude` removes builtins/constructs by feature
//! name (e.g. "b:splits", "assign", "reduce", "def", "label", "interp", "format", "slice").
//!
//! Hostile families are also callable one by one (C30 runs each as its own sub-check):
//! `snippet_program` (HOSTILE_SNIPPETS composed with generated pieces), `deep_program`,
//! `soup_program`, `mutant_program(u, seeds)`, `text_hostile`. `cfg.favor` lists builtin names that
//! get one third of all builtin picks (C23: the ones the generic evaluator implements natively).
//! `extreme_in_text` / `huge_number_in_text` classify raw program text.
//!
//! Other helpers: `print(&E)`, `jq_string_literal(&str)`, `E::features()`, `E::count()`,
//! `shrink_candidates(&E)` (one-step AST reductions for in-check delta debugging),
//! `TOKENS` (the token alphabet of the soups), `builtin_names(max_tier)`.
use crate::engine::Src;
use crate::gen::json::{self, J};
use std::collections::BTreeSet;

// ---------------------------------------------------------------- configuration

#[derive(Clone, Copy, Debug, PartialEq, Eq)]
pub enum Profile {
    Core,
    Full,
    Hostile,
}

#[derive(Clone, Debug)]
pub struct Cfg {
    pub profile: Profile,
    /// nesting of generated constructs (DESIGN: <= 4 for C23)
    pub max_depth: usize,
    /// 1-in-N choices deliberately ignore typing (0 = never)
    pub type_error_rate: u32,
    /// succinctly / yq extension builtins (tier 2)
    pub extensions: bool,
    /// feature names never emitted ("b:<builtin>", "assign", "reduce", "foreach", "def", "label",
    /// "interp", "format", "slice", "altpat", "try", "opt", "if", "as", "alt", "objcons", ...)
    pub exclude: Vec<String>,
    /// builtin names chosen with extra probability (1/3 of builtin picks), e.g. the ones one
    /// evaluator implements natively
    pub favor: Vec<String>,
}

impl Cfg {
    pub fn new(profile: Profile) -> Cfg {
        Cfg {
            profile,
            max_depth: 4,
            type_error_rate: if profile == Profile::Core { 25 } else { 12 },
            extensions: profile != Profile::Core,
            exclude: vec![],
            favor: vec![],
        }
    }
    fn max_tier(&self) -> u8 {
        match self.profile {
            Profile::Core => 0,
            Profile::Full => {
                if self.extensions {
                    2
                } else {
                    1
                }
            }
            Profile::Hostile => 3,
        }
    }
    fn excluded(&self, feat: &str) -> bool {
        self.exclude.iter().any(|x| x == feat)
    }
}

// ---------------------------------------------------------------- AST

#[derive(Clone, Debug)]
pub enum Step {
    Field(String),
    Index(Box<E>),
    Slice(Option<Box<E>>, Option<Box<E>>),
    Iter,
    Opt,
}

#[derive(Clone, Debug)]
pub enum Pat {
    Var(String),
    Arr(Vec<Pat>),
    /// (key, sub-pattern): key "$name" = `{$name}` shorthand, otherwise `{"key": pat}`
    Obj(Vec<(String, Option<Pat>)>),
}

#[derive(Clone, Debug)]
pub enum SPart {
    Lit(String),
    Interp(E),
}

#[derive(Clone, Debug)]
pub enum OKey {
    Ident(String),
    Str(String),
    Var(String),
    Expr(E),
}

#[derive(Clone, Debug)]
pub enum E {
    /// verbatim text with a printing level and a feature tag (literals, templates, extreme operands)
    Raw(String, u8, &'static str),
    Identity,
    RecDescent,
    /// postfix chain on a term (Identity prints as `.a[0]`, anything else as `(t).a[0]`)
    Path(Box<E>, Vec<Step>),
    Pipe(Box<E>, Box<E>),
    Comma(Box<E>, Box<E>),
    Neg(Box<E>),
    /// + - * / % == != < <= > >= and or //
    Bin(&'static str, Box<E>, Box<E>),
    Arr(Option<Box<E>>),
    Obj(Vec<(OKey, Option<E>)>),
    Str(Option<&'static str>, Vec<SPart>),
    If(Vec<(E, E)>, Option<Box<E>>),
    Try(Box<E>, Option<Box<E>>),
    Opt(Box<E>),
    Reduce(Box<E>, Pat, Box<E>, Box<E>),
    Foreach(Box<E>, Pat, Box<E>, Box<E>, Option<Box<E>>),
    Label(String, Box<E>),
    Break(String),
    As(Box<E>, Vec<Pat>, Box<E>),
    Var(String),
    Def(String, Vec<String>, Box<E>, Box<E>),
    /// builtin or user function call
    Call(String, Vec<E>),
    /// = |= += -= *= /= %= //=
    Assign(&'static str, Box<E>, Box<E>),
    Format(&'static str),
}

// printing levels
const L_PIPE: u8 = 0;
const L_COMMA: u8 = 1;
const L_ALT: u8 = 2;
const L_ASSIGN: u8 = 3;
const L_OR: u8 = 4;
const L_AND: u8 = 5;
const L_CMP: u8 = 6;
const L_ADD: u8 = 7;
const L_MUL: u8 = 8;
const L_UNARY: u8 = 9;
const L_TERM: u8 = 10;

fn bin_level(op: &str) -> u8 {
    match op {
        "//" => L_ALT,
        "or" => L_OR,
        "and" => L_AND,
        "==" | "!=" | "<" | "<=" | ">" | ">=" => L_CMP,
        "+" | "-" => L_ADD,
        _ => L_MUL,
    }
}

impl E {
    pub fn raw(s: impl Into<String>) -> E {
        E::Raw(s.into(), L_TERM, "lit")
    }
    pub fn num(n: i64) -> E {
        if n < 0 {
            E::Raw(n.to_string(), L_UNARY, "lit")
        } else {
            E::Raw(n.to_string(), L_TERM, "lit")
        }
    }
    pub fn str_lit(s: &str) -> E {
        E::Raw(jq_string_literal(s), L_TERM, "lit")
    }
    pub fn call0(n: &str) -> E {
        E::Call(n.to_string(), vec![])
    }
    pub fn call(n: &str, a: Vec<E>) -> E {
        E::Call(n.to_string(), a)
    }
    pub fn pipe(a: E, b: E) -> E {
        E::Pipe(Box::new(a), Box::new(b))
    }
    pub fn bin(op: &'static str, a: E, b: E) -> E {
        E::Bin(op, Box::new(a), Box::new(b))
    }
    pub fn field(name: &str) -> E {
        E::Path(Box::new(E::Identity), vec![Step::Field(name.to_string())])
    }
    fn level(&self) -> u8 {
        match self {
            E::Raw(_, l, _) => *l,
            E::Pipe(..) | E::Label(..) | E::As(..) | E::Def(..) => L_PIPE,
            E::Comma(..) => L_COMMA,
            E::Bin(op, ..) => bin_level(op),
            E::Assign(..) => L_ASSIGN,
            E::Neg(_) => L_UNARY,
            E::Try(..) => L_UNARY,
            _ => L_TERM,
        }
    }

    /// feature name of this node alone
    pub fn kind_name(&self) -> String {
        match self {
            E::Raw(_, _, t) => t.to_string(),
            E::Identity => "identity".into(),
            E::RecDescent => "recdescent".into(),
            E::Path(..) => "path".into(),
            E::Pipe(..) => "pipe".into(),
            E::Comma(..) => "comma".into(),
            E::Neg(_) => "neg".into(),
            E::Bin(op, ..) => format!("op:{}", op),
            E::Arr(_) => "arrcons".into(),
            E::Obj(_) => "objcons".into(),
            E::Str(Some(_), _) => "fmtinterp".into(),
            E::Str(None, _) => "interp".into(),
            E::If(..) => "if".into(),
            E::Try(_, None) => "try".into(),
            E::Try(_, Some(_)) => "trycatch".into(),
            E::Opt(_) => "opt".into(),
            E::Reduce(..) => "reduce".into(),
            E::Foreach(..) => "foreach".into(),
            E::Label(..) => "label".into(),
            E::Break(_) => "break".into(),
            E::As(_, p, _) => {
                if p.len() > 1 {
                    "altpat".into()
                } else if matches!(p[0], Pat::Var(_)) {
                    "as".into()
                } else {
                    "aspat".into()
                }
            }
            E::Var(_) => "var".into(),
            E::Def(..) => "def".into(),
            E::Call(n, a) => format!("b:{}/{}", n, a.len()),
            E::Assign(op, ..) => format!("assign:{}", op),
            E::Format(f) => format!("b:{}", f),
        }
    }

    fn children(&self) -> Vec<&E> {
        let mut v: Vec<&E> = vec![];
        match self {
            E::Raw(..) | E::Identity | E::RecDescent | E::Break(_) | E::Var(_) | E::Format(_) => {}
            E::Path(t, steps) => {
                v.push(t);
                for s in steps {
                    match s {
                        Step::Index(e) => v.push(e),
                        Step::Slice(a, b) => {
                            if let Some(a) = a {
                                v.push(a)
                            }
                            if let Some(b) = b {
                                v.push(b)
                            }
                        }
                        _ => {}
                    }
                }
            }
            E::Pipe(a, b) | E::Comma(a, b) | E::Bin(_, a, b) | E::Assign(_, a, b) => {
                v.push(a);
                v.push(b);
            }
            E::Neg(a) | E::Opt(a) | E::Label(_, a) => v.push(a),
            E::Arr(a) => {
                if let Some(a) = a {
                    v.push(a)
                }
            }
            E::Obj(f) => {
                for (k, val) in f {
                    if let OKey::Expr(e) = k {
                        v.push(e)
                    }
                    if let Some(e) = val {
                        v.push(e)
                    }
                }
            }
            E::Str(_, parts) => {
                for p in parts {
                    if let SPart::Interp(e) = p {
                        v.push(e)
                    }
                }
            }
            E::If(arms, els) => {
                for (c, t) in arms {
                    v.push(c);
                    v.push(t);
                }
                if let Some(e) = els {
                    v.push(e)
                }
            }
            E::Try(a, c) => {
                v.push(a);
                if let Some(c) = c {
                    v.push(c)
                }
            }
            E::Reduce(s, _, i, u) => {
                v.push(s);
                v.push(i);
                v.push(u);
            }
            E::Foreach(s, _, i, u, x) => {
                v.push(s);
                v.push(i);
                v.push(u);
                if let Some(x) = x {
                    v.push(x)
                }
            }
            E::As(s, _, b) => {
                v.push(s);
                v.push(b);
            }
            E::Def(_, _, b, r) => {
                v.push(b);
                v.push(r);
            }
            E::Call(_, a) => v.extend(a.iter()),
        }
        v
    }

    /// (node count, sorted distinct feature names)
    pub fn features(&self) -> (usize, BTreeSet<String>) {
        let mut n = 0;
        let mut set = BTreeSet::new();
        let mut stack = vec![self];
        while let Some(e) = stack.pop() {
            n += 1;
            set.insert(e.kind_name());
            if let E::Path(_, steps) = e {
                for s in steps {
                    set.insert(
                        match s {
                            Step::Field(_) => "step:field",
                            Step::Index(_) => "step:index",
                            Step::Slice(..) => "slice",
                            Step::Iter => "step:iter",
                            Step::Opt => "step:opt",
                        }
                        .to_string(),
                    );
                }
            }
            stack.extend(e.children());
        }
        (n, set)
    }
    pub fn count(&self) -> usize {
        self.features().0
    }
}

/// direct sub-expressions of a node (pre-order walking helper for callers)
pub fn children_of(e: &E) -> Vec<&E> {
    e.children()
}

// ---------------------------------------------------------------- printer

const KEYWORDS: &[&str] = &[
    "and", "or", "not", "if", "then", "elif", "else", "end", "as", "def", "reduce", "foreach", "try", "catch", "label", "import", "include",
    "__loc__", "true", "false", "null", "module",
];

pub fn is_plain_ident(s: &str) -> bool {
    let mut cs = s.chars();
    match cs.next() {
        Some(c) if c.is_ascii_alphabetic() || c == '_' => {}
        _ => return false,
    }
    cs.all(|c| c.is_ascii_alphanumeric() || c == '_') && !KEYWORDS.contains(&s)
}

/// A jq string literal for `s` (JSON escapes; `\(` cannot occur because `\` is escaped).
pub fn jq_string_literal(s: &str) -> String {
    let mut o = String::with_capacity(s.len() + 2);
    o.push('"');
    push_str_body(&mut o, s);
    o.push('"');
    o
}

fn push_str_body(o: &mut String, s: &str) {
    for c in s.chars() {
        match c {
            '"' => o.push_str("\\\""),
            '\\' => o.push_str("\\\\"),
            '\n' => o.push_str("\\n"),
            '\t' => o.push_str("\\t"),
            '\r' => o.push_str("\\r"),
            c if (c as u32) < 0x20 || c == '\u{7f}' => o.push_str(&format!("\\u{:04x}", c as u32)),
            c => o.push(c),
        }
    }
}

fn pat_str(p: &Pat) -> String {
    match p {
        Pat::Var(v) => format!("${}", v),
        Pat::Arr(ps) => format!("[{}]", ps.iter().map(pat_str).collect::<Vec<_>>().join(", ")),
        Pat::Obj(fs) => format!(
            "{{{}}}",
            fs.iter()
                .map(|(k, p)| match p {
                    None => k.clone(),
                    Some(p) => {
                        if let Some(v) = k.strip_prefix('$') {
                            format!("${}: {}", v, pat_str(p))
                        } else if is_plain_ident(k) {
                            format!("{}: {}", k, pat_str(p))
                        } else {
                            format!("{}: {}", jq_string_literal(k), pat_str(p))
                        }
                    }
                })
                .collect::<Vec<_>>()
                .join(", ")
        ),
    }
}

fn at(e: &E, min: u8) -> String {
    let s = print(e);
    if e.level() < min {
        format!("({})", s)
    } else {
        s
    }
}

pub fn print(e: &E) -> String {
    match e {
        E::Raw(s, _, _) => s.clone(),
        E::Identity => ".".into(),
        E::RecDescent => "..".into(),
        E::Path(t, steps) => {
            let mut s = match **t {
                E::Identity => String::new(),
                E::RecDescent => "..".to_string(),
                _ => at(t, L_TERM),
            };
            let bare = matches!(**t, E::Identity);
            let mut first = true;
            for st in steps {
                match st {
                    Step::Field(n) => {
                        if is_plain_ident(n) {
                            s.push('.');
                            s.push_str(n);
                        } else if bare && first {
                            s.push_str(&format!(".[{}]", jq_string_literal(n)));
                        } else {
                            s.push_str(&format!(".{}", jq_string_literal(n)));
                        }
                    }
                    Step::Index(i) => {
                        if bare && first {
                            s.push('.');
                        }
                        s.push_str(&format!("[{}]", print(i)));
                    }
                    Step::Slice(a, b) => {
                        if bare && first {
                            s.push('.');
                        }
                        s.push_str(&format!(
                            "[{}:{}]",
                            a.as_ref().map(|x| print(x)).unwrap_or_default(),
                            b.as_ref().map(|x| print(x)).unwrap_or_default()
                        ));
                    }
                    Step::Iter => {
                        if bare && first {
                            s.push('.');
                        }
                        s.push_str("[]");
                    }
                    Step::Opt => {
                        if bare && first {
                            s.push('.');
                        }
                        s.push('?');
                    }
                }
                first = false;
            }
            if s.is_empty() {
                s.push('.');
            }
            s
        }
        E::Pipe(a, b) => format!("{} | {}", at(a, L_COMMA), at(b, L_PIPE)),
        E::Comma(a, b) => format!("{}, {}", at(a, L_COMMA), at(b, L_ALT)),
        E::Neg(a) => format!("-{}", at(a, L_TERM)),
        E::Bin(op, a, b) => {
            let l = bin_level(op);
            match *op {
                "//" => format!("{} // {}", at(a, l + 1), at(b, l)),
                "==" | "!=" | "<" | "<=" | ">" | ">=" => format!("{} {} {}", at(a, l + 1), op, at(b, l + 1)),
                _ => format!("{} {} {}", at(a, l), op, at(b, l + 1)),
            }
        }
        E::Arr(None) => "[]".into(),
        E::Arr(Some(a)) => format!("[{}]", print(a)),
        E::Obj(fs) => {
            let mut s = String::from("{");
            for (i, (k, v)) in fs.iter().enumerate() {
                if i > 0 {
                    s.push_str(", ");
                }
                match k {
                    OKey::Ident(n) => s.push_str(n),
                    OKey::Str(n) => s.push_str(&jq_string_literal(n)),
                    OKey::Var(n) => {
                        s.push('$');
                        s.push_str(n)
                    }
                    OKey::Expr(e) => s.push_str(&format!("({})", print(e))),
                }
                if let Some(v) = v {
                    s.push_str(": ");
                    s.push_str(&at(v, L_TERM));
                }
            }
            s.push('}');
            s
        }
        E::Str(fmt, parts) => {
            let mut s = String::new();
            if let Some(f) = fmt {
                s.push_str(f);
                s.push(' ');
            }
            s.push('"');
            for p in parts {
                match p {
                    SPart::Lit(l) => push_str_body(&mut s, l),
                    SPart::Interp(e) => {
                        s.push_str("\\(");
                        s.push_str(&print(e));
                        s.push(')');
                    }
                }
            }
            s.push('"');
            s
        }
        E::If(arms, els) => {
            let mut s = String::new();
            for (i, (c, t)) in arms.iter().enumerate() {
                s.push_str(if i == 0 { "if " } else { " elif " });
                s.push_str(&print(c));
                s.push_str(" then ");
                s.push_str(&print(t));
            }
            if let Some(e) = els {
                s.push_str(" else ");
                s.push_str(&print(e));
            }
            s.push_str(" end");
            s
        }
        E::Try(a, c) => match c {
            None => format!("try {}", at(a, L_TERM)),
            Some(c) => format!("try {} catch {}", at(a, L_TERM), at(c, L_TERM)),
        },
        E::Opt(a) => format!("{}?", at(a, L_TERM)),
        E::Reduce(s, p, i, u) => format!("reduce {} as {} ({}; {})", at(s, L_TERM), pat_str(p), print(i), print(u)),
        E::Foreach(s, p, i, u, x) => match x {
            None => format!("foreach {} as {} ({}; {})", at(s, L_TERM), pat_str(p), print(i), print(u)),
            Some(x) => format!("foreach {} as {} ({}; {}; {})", at(s, L_TERM), pat_str(p), print(i), print(u), print(x)),
        },
        E::Label(n, b) => format!("label ${} | {}", n, at(b, L_PIPE)),
        E::Break(n) => format!("break ${}", n),
        E::As(s, ps, b) => format!("{} as {} | {}", at(s, L_TERM), ps.iter().map(pat_str).collect::<Vec<_>>().join(" ?// "), at(b, L_PIPE)),
        E::Var(n) => format!("${}", n),
        E::Def(n, ps, b, r) => {
            if ps.is_empty() {
                format!("def {}: {}; {}", n, print(b), at(r, L_PIPE))
            } else {
                format!("def {}({}): {}; {}", n, ps.join("; "), print(b), at(r, L_PIPE))
            }
        }
        E::Call(n, a) => {
            if a.is_empty() {
                n.clone()
            } else {
                format!("{}({})", n, a.iter().map(print).collect::<Vec<_>>().join("; "))
            }
        }
        E::Assign(op, p, v) => format!("{} {} {}", at(p, L_ASSIGN + 1), op, at(v, L_ASSIGN + 1)),
        E::Format(f) => f.to_string(),
    }
}

// ---------------------------------------------------------------- AST reduction (delta debugging)

/// Calls whose arguments must not be hoisted out (they are what bounds divergence).
const GUARDS: &[&str] = &["limit", "first", "nth", "until", "while", "repeat", "recurse", "isempty", "any", "all", "skip", "last", "range", "IN", "label"];

/// One-step reductions of `e`: every way of replacing one sub-tree by `.`, `null`, or one of its own
/// children. Candidates are strictly smaller (node count), so iterating to a fixpoint terminates.
pub fn shrink_candidates(e: &E) -> Vec<E> {
    let mut out = vec![];
    let n = e.count();
    for i in 0..n {
        let mut k = 0;
        for rep in replacements_at(e, i) {
            let mut idx = 0;
            let c = replace_nth(e, i, &rep, &mut idx);
            out.push(c);
            k += 1;
            if k > 6 {
                break;
            }
        }
        if out.len() > 4000 {
            break;
        }
    }
    out
}

fn nth_node<'a>(e: &'a E, i: usize, idx: &mut usize) -> Option<&'a E> {
    if *idx == i {
        return Some(e);
    }
    *idx += 1;
    for c in e.children() {
        if let Some(x) = nth_node(c, i, idx) {
            return Some(x);
        }
    }
    None
}

fn replacements_at(root: &E, i: usize) -> Vec<E> {
    let mut idx = 0;
    let Some(node) = nth_node(root, i, &mut idx) else { return vec![] };
    let mut v = vec![];
    let guarded = match node {
        E::Call(n, _) => GUARDS.contains(&n.as_str()),
        E::Label(..) | E::Def(..) | E::As(..) | E::Reduce(..) | E::Foreach(..) => true,
        _ => false,
    };
    if !guarded {
        for c in node.children() {
            v.push(c.clone());
        }
    } else if let E::Def(_, _, _, r) | E::As(_, _, r) = node {
        // dropping the binding is only safe when the body does not use it: let the caller find out
        // (an unbound variable is an error in both evaluators, i.e. no longer a divergence)
        v.push((**r).clone());
    }
    if let E::Path(t, steps) = node {
        if steps.len() > 1 {
            for k in 0..steps.len() {
                let mut s2 = steps.clone();
                s2.remove(k);
                v.push(E::Path(t.clone(), s2));
            }
        }
    }
    if let E::Obj(fs) = node {
        if fs.len() > 1 {
            for k in 0..fs.len() {
                let mut f2 = fs.clone();
                f2.remove(k);
                v.push(E::Obj(f2));
            }
        }
    }
    if !matches!(node, E::Identity) {
        v.push(E::Identity);
    }
    if !matches!(node, E::Identity | E::Raw(..)) {
        v.push(E::raw("null"));
        v.push(E::raw("1"));
    }
    v
}

fn replace_nth(e: &E, i: usize, rep: &E, idx: &mut usize) -> E {
    if *idx == i {
        *idx += 1 + usize::MAX / 2; // no further match
        return rep.clone();
    }
    *idx += 1;
    let mut r = |x: &E| -> E { replace_nth(x, i, rep, idx) };
    let rb = |x: &Box<E>, r: &mut dyn FnMut(&E) -> E| -> Box<E> { Box::new(r(x)) };
    match e {
        E::Raw(..) | E::Identity | E::RecDescent | E::Break(_) | E::Var(_) | E::Format(_) => e.clone(),
        E::Path(t, steps) => {
            let t2 = rb(t, &mut r);
            let mut s2 = vec![];
            for s in steps {
                s2.push(match s {
                    Step::Index(x) => Step::Index(rb(x, &mut r)),
                    Step::Slice(a, b) => {
                        let a2 = a.as_ref().map(|x| rb(x, &mut r));
                        let b2 = b.as_ref().map(|x| rb(x, &mut r));
                        Step::Slice(a2, b2)
                    }
                    o => o.clone(),
                });
            }
            E::Path(t2, s2)
        }
        E::Pipe(a, b) => {
            let a2 = rb(a, &mut r);
            E::Pipe(a2, rb(b, &mut r))
        }
        E::Comma(a, b) => {
            let a2 = rb(a, &mut r);
            E::Comma(a2, rb(b, &mut r))
        }
        E::Bin(op, a, b) => {
            let a2 = rb(a, &mut r);
            E::Bin(op, a2, rb(b, &mut r))
        }
        E::Assign(op, a, b) => {
            let a2 = rb(a, &mut r);
            E::Assign(op, a2, rb(b, &mut r))
        }
        E::Neg(a) => E::Neg(rb(a, &mut r)),
        E::Opt(a) => E::Opt(rb(a, &mut r)),
        E::Label(n, a) => E::Label(n.clone(), rb(a, &mut r)),
        E::Arr(a) => E::Arr(a.as_ref().map(|x| rb(x, &mut r))),
        E::Obj(fs) => {
            let mut f2 = vec![];
            for (k, v) in fs {
                let k2 = match k {
                    OKey::Expr(x) => OKey::Expr(r(x)),
                    o => o.clone(),
                };
                let v2 = v.as_ref().map(|x| r(x));
                f2.push((k2, v2));
            }
            E::Obj(f2)
        }
        E::Str(f, parts) => E::Str(
            *f,
            parts
                .iter()
                .map(|p| match p {
                    SPart::Interp(x) => SPart::Interp(r(x)),
                    o => o.clone(),
                })
                .collect(),
        ),
        E::If(arms, els) => {
            let mut a2 = vec![];
            for (c, t) in arms {
                let c2 = r(c);
                a2.push((c2, r(t)));
            }
            E::If(a2, els.as_ref().map(|x| rb(x, &mut r)))
        }
        E::Try(a, c) => {
            let a2 = rb(a, &mut r);
            E::Try(a2, c.as_ref().map(|x| rb(x, &mut r)))
        }
        E::Reduce(s, p, i2, u) => {
            let s2 = rb(s, &mut r);
            let i3 = rb(i2, &mut r);
            E::Reduce(s2, p.clone(), i3, rb(u, &mut r))
        }
        E::Foreach(s, p, i2, u, x) => {
            let s2 = rb(s, &mut r);
            let i3 = rb(i2, &mut r);
            let u2 = rb(u, &mut r);
            E::Foreach(s2, p.clone(), i3, u2, x.as_ref().map(|x| rb(x, &mut r)))
        }
        E::As(s, p, b) => {
            let s2 = rb(s, &mut r);
            E::As(s2, p.clone(), rb(b, &mut r))
        }
        E::Def(n, ps, b, rest) => {
            let b2 = rb(b, &mut r);
            E::Def(n.clone(), ps.clone(), b2, rb(rest, &mut r))
        }
        E::Call(n, a) => E::Call(n.clone(), a.iter().map(|x| r(x)).collect()),
    }
}

// ---------------------------------------------------------------- builtin table

#[derive(Clone, Copy, Debug, PartialEq, Eq)]
pub enum K {
    Any,
    Null,
    Bool,
    Num,
    Str,
    Arr,
    Obj,
}

pub fn kind_of(j: &J) -> K {
    match j {
        J::Null => K::Null,
        J::Bool(_) => K::Bool,
        J::Num(_) => K::Num,
        J::Str(_) => K::Str,
        J::Arr(_) => K::Arr,
        J::Obj(_) => K::Obj,
    }
}

/// input requirement of a builtin
#[derive(Clone, Copy, Debug, PartialEq, Eq)]
enum In {
    Any,
    Num,
    Str,
    Arr,
    Obj,
    /// array or object
    Iter,
    ArrNum,
    ArrStr,
    ArrArr,
    ArrObj,
    /// array of scalars (csv/tsv/sh)
    ArrScalar,
}

/// output shape of a builtin
#[derive(Clone, Copy, Debug, PartialEq, Eq)]
enum Out {
    K(K),
    Same,
    Elem,
    ArrOf(K),
}

/// Argument codes: f filter on `.`; e filter on an element of `.`; c / C condition on `.` / element;
/// n small count; i index (may be negative); s string related to `.`; r regex; g regex flags;
/// k key of `.`; p path expression; P literal path array; Q array of path arrays; v value;
/// S same-kind piece of `.`; G bounded generator; t strftime format; o object/array container literal
struct B {
    name: &'static str,
    inp: In,
    args: &'static str,
    out: Out,
    /// 0 core, 1 full, 2 extension (succinctly / yq), 3 hostile only (non-deterministic / side effects)
    tier: u8,
}

const fn b(name: &'static str, inp: In, args: &'static str, out: Out, tier: u8) -> B {
    B { name, inp, args, out, tier }
}

const ANY: Out = Out::K(K::Any);
const NUM: Out = Out::K(K::Num);
const STR: Out = Out::K(K::Str);
const BOOL: Out = Out::K(K::Bool);
const ARR: Out = Out::K(K::Arr);
const OBJ: Out = Out::K(K::Obj);

static TABLE: &[B] = &[
    // --- any input
    b("type", In::Any, "", STR, 0),
    b("not", In::Any, "", BOOL, 0),
    b("empty", In::Any, "", ANY, 0),
    b("tostring", In::Any, "", STR, 0),
    b("tojson", In::Any, "", STR, 0),
    b("length", In::Iter, "", NUM, 0),
    b("length", In::Str, "", NUM, 0),
    b("length", In::Num, "", NUM, 1),
    b("length", In::Any, "", NUM, 1),
    b("isnull", In::Any, "", BOOL, 2),
    b("isboolean", In::Any, "", BOOL, 2),
    b("isnumber", In::Any, "", BOOL, 2),
    b("isstring", In::Any, "", BOOL, 2),
    b("isarray", In::Any, "", BOOL, 2),
    b("isobject", In::Any, "", BOOL, 2),
    b("values", In::Any, "", Out::Same, 0),
    b("nulls", In::Any, "", Out::Same, 0),
    b("booleans", In::Any, "", Out::Same, 0),
    b("numbers", In::Any, "", Out::Same, 0),
    b("strings", In::Any, "", Out::Same, 0),
    b("arrays", In::Any, "", Out::Same, 0),
    b("objects", In::Any, "", Out::Same, 0),
    b("iterables", In::Any, "", Out::Same, 0),
    b("scalars", In::Any, "", Out::Same, 0),
    b("normals", In::Any, "", Out::Same, 1),
    b("finites", In::Any, "", Out::Same, 1),
    b("select", In::Any, "c", Out::Same, 0),
    b("error", In::Any, "", ANY, 0),
    b("error", In::Any, "v", ANY, 0),
    b("recurse", In::Any, "", ANY, 0),
    b("recurse_down", In::Any, "", ANY, 1),
    b("paths", In::Any, "", ARR, 0),
    b("paths", In::Any, "c", ARR, 0),
    b("leaf_paths", In::Any, "", ARR, 1),
    b("path", In::Any, "p", ARR, 0),
    b("del", In::Any, "p", Out::Same, 0),
    b("getpath", In::Any, "P", ANY, 0),
    b("setpath", In::Any, "P;v", Out::Same, 0),
    b("delpaths", In::Any, "Q", Out::Same, 0),
    b("pick", In::Any, "p", Out::Same, 1),
    b("tostream", In::Any, "", ARR, 0),
    b("walk", In::Any, "w", Out::Same, 0),
    b("contains", In::Any, "S", BOOL, 0),
    b("inside", In::Any, "S", BOOL, 0),
    b("first", In::Any, "G", ANY, 0),
    b("last", In::Any, "G", ANY, 0),
    b("nth", In::Any, "n;G", ANY, 1),
    b("limit", In::Any, "n;G", ANY, 1),
    b("skip", In::Any, "n;G", ANY, 1),
    b("isempty", In::Any, "G", BOOL, 1),
    b("any", In::Any, "G;c", BOOL, 0),
    b("all", In::Any, "G;c", BOOL, 0),
    b("IN", In::Any, "G", BOOL, 1),
    b("IN", In::Any, "G;G", BOOL, 1),
    b("INDEX", In::Any, "G;f", OBJ, 1),
    b("isvalid", In::Any, "f", BOOL, 2),
    b("infinite", In::Any, "", NUM, 1),
    b("nan", In::Any, "", NUM, 1),
    b("env", In::Any, "", OBJ, 1),
    b("builtins", In::Any, "", ARR, 1),
    b("input_line_number", In::Any, "", NUM, 1),
    b("input", In::Any, "", ANY, 1),
    b("inputs", In::Any, "", ANY, 1),
    b("debug", In::Any, "", Out::Same, 1),
    b("debug", In::Any, "v", Out::Same, 1),
    b("stderr", In::Any, "", Out::Same, 1),
    b("halt", In::Any, "", ANY, 1),
    b("halt_error", In::Any, "", ANY, 1),
    b("halt_error", In::Any, "n", ANY, 1),
    b("toboolean", In::Any, "", BOOL, 2),
    b("now", In::Any, "", NUM, 3),
    b("modulemeta", In::Str, "", OBJ, 3),
    b("load", In::Any, "s", ANY, 3),
    b("strenv", In::Any, "N", STR, 2),
    // --- numbers
    b("floor", In::Num, "", NUM, 0),
    b("ceil", In::Num, "", NUM, 0),
    b("round", In::Num, "", NUM, 0),
    b("sqrt", In::Num, "", NUM, 0),
    b("fabs", In::Num, "", NUM, 0),
    b("abs", In::Num, "", NUM, 1),
    b("trunc", In::Num, "", NUM, 1),
    b("log", In::Num, "", NUM, 1),
    b("log2", In::Num, "", NUM, 1),
    b("log10", In::Num, "", NUM, 1),
    b("exp", In::Num, "", NUM, 1),
    b("exp2", In::Num, "", NUM, 1),
    b("exp10", In::Num, "", NUM, 1),
    b("sin", In::Num, "", NUM, 1),
    b("cos", In::Num, "", NUM, 1),
    b("tan", In::Num, "", NUM, 1),
    b("asin", In::Num, "", NUM, 1),
    b("acos", In::Num, "", NUM, 1),
    b("atan", In::Num, "", NUM, 1),
    b("sinh", In::Num, "", NUM, 1),
    b("cosh", In::Num, "", NUM, 1),
    b("tanh", In::Num, "", NUM, 1),
    b("asinh", In::Num, "", NUM, 1),
    b("acosh", In::Num, "", NUM, 1),
    b("atanh", In::Num, "", NUM, 1),
    b("pow", In::Any, "x;x", NUM, 1),
    b("atan2", In::Any, "x;x", NUM, 1),
    b("isinfinite", In::Num, "", BOOL, 0),
    b("isnan", In::Num, "", BOOL, 0),
    b("isnormal", In::Num, "", BOOL, 0),
    b("isfinite", In::Num, "", BOOL, 2),
    b("tostring", In::Num, "", STR, 0),
    b("tojson", In::Num, "", STR, 0),
    b("tonumber", In::Num, "", NUM, 0),
    b("todate", In::Num, "", STR, 1),
    b("todateiso8601", In::Num, "", STR, 1),
    b("gmtime", In::Num, "", Out::ArrOf(K::Num), 1),
    b("localtime", In::Num, "", Out::ArrOf(K::Num), 1),
    b("strftime", In::Num, "t", STR, 1),
    b("from_unix", In::Num, "", STR, 2),
    b("tz", In::Num, "z", STR, 2),
    b("at_offset", In::Any, "n", ANY, 2),
    b("at_position", In::Any, "n;n", ANY, 2),
    b("@text", In::Num, "", STR, 0),
    b("@json", In::Num, "", STR, 0),
    // --- strings
    b("ascii_downcase", In::Str, "", STR, 0),
    b("ascii_upcase", In::Str, "", STR, 0),
    b("ltrimstr", In::Str, "s", STR, 1),
    b("rtrimstr", In::Str, "s", STR, 1),
    b("startswith", In::Str, "s", BOOL, 0),
    b("endswith", In::Str, "s", BOOL, 0),
    b("ltrim", In::Str, "", STR, 1),
    b("rtrim", In::Str, "", STR, 1),
    b("trim", In::Str, "", STR, 1),
    b("split", In::Str, "s", Out::ArrOf(K::Str), 0),
    b("split", In::Str, "r;g", Out::ArrOf(K::Str), 1),
    b("splits", In::Str, "r", STR, 1),
    b("splits", In::Str, "r;g", STR, 1),
    b("test", In::Str, "r", BOOL, 1),
    b("test", In::Str, "r;g", BOOL, 1),
    b("match", In::Str, "r", OBJ, 1),
    b("match", In::Str, "r;g", OBJ, 1),
    b("capture", In::Str, "r", OBJ, 1),
    b("capture", In::Str, "r;g", OBJ, 1),
    b("scan", In::Str, "r", ANY, 1),
    b("scan", In::Str, "r;g", ANY, 1),
    b("sub", In::Str, "r;R", STR, 1),
    b("sub", In::Str, "r;R;g", STR, 1),
    b("gsub", In::Str, "r;R", STR, 1),
    b("gsub", In::Str, "r;R;g", STR, 1),
    b("explode", In::Str, "", Out::ArrOf(K::Num), 0),
    b("utf8bytelength", In::Str, "", NUM, 0),
    b("tonumber", In::Str, "", NUM, 0),
    b("fromjson", In::Str, "", ANY, 0),
    b("index", In::Str, "s", NUM, 0),
    b("rindex", In::Str, "s", NUM, 0),
    b("indices", In::Str, "s", Out::ArrOf(K::Num), 0),
    b("ascii", In::Num, "", STR, 3),
    b("@text", In::Str, "", STR, 0),
    b("@json", In::Str, "", STR, 0),
    b("@html", In::Str, "", STR, 0),
    b("@uri", In::Str, "", STR, 0),
    b("@urid", In::Str, "", STR, 1),
    b("@sh", In::Str, "", STR, 0),
    b("@base64", In::Str, "", STR, 0),
    b("@base64d", In::Str, "", STR, 1),
    b("@yaml", In::Any, "", STR, 2),
    b("@props", In::Any, "", STR, 2),
    b("fromdate", In::Str, "", NUM, 1),
    b("fromdateiso8601", In::Str, "", NUM, 1),
    b("strptime", In::Str, "t", ARR, 1),
    b("to_unix", In::Str, "", NUM, 2),
    b("in", In::Str, "o", BOOL, 0),
    b("reverse", In::Str, "", STR, 1),
    // --- arrays
    b("add", In::Arr, "", ANY, 0),
    b("add", In::Obj, "", ANY, 1),
    b("any", In::Arr, "", BOOL, 0),
    b("all", In::Arr, "", BOOL, 0),
    b("any", In::Arr, "C", BOOL, 0),
    b("all", In::Arr, "C", BOOL, 0),
    b("flatten", In::Arr, "", ARR, 0),
    b("flatten", In::Arr, "n", ARR, 0),
    b("sort", In::Arr, "", Out::Same, 0),
    b("sort_by", In::Arr, "e", Out::Same, 0),
    b("group_by", In::Arr, "e", Out::ArrOf(K::Arr), 0),
    b("unique", In::Arr, "", Out::Same, 0),
    b("unique_by", In::Arr, "e", Out::Same, 0),
    b("min", In::Arr, "", Out::Elem, 0),
    b("max", In::Arr, "", Out::Elem, 0),
    b("min_by", In::Arr, "e", Out::Elem, 0),
    b("max_by", In::Arr, "e", Out::Elem, 0),
    b("reverse", In::Arr, "", Out::Same, 0),
    b("first", In::Arr, "", Out::Elem, 0),
    b("last", In::Arr, "", Out::Elem, 0),
    b("nth", In::Arr, "n", Out::Elem, 1),
    b("index", In::Arr, "S", NUM, 1),
    b("rindex", In::Arr, "S", NUM, 1),
    b("indices", In::Arr, "S", Out::ArrOf(K::Num), 1),
    b("indices", In::Arr, "v", Out::ArrOf(K::Num), 1),
    b("bsearch", In::Arr, "v", NUM, 1),
    b("transpose", In::ArrArr, "", Out::ArrOf(K::Arr), 0),
    b("combinations", In::ArrArr, "", ARR, 1),
    b("implode", In::ArrNum, "", STR, 1),
    b("join", In::ArrStr, "s", STR, 0),
    b("join", In::ArrScalar, "s", STR, 0),
    b("from_entries", In::ArrObj, "", OBJ, 0),
    b("mktime", In::ArrNum, "", NUM, 1),
    b("strftime", In::ArrNum, "t", STR, 1),
    b("todate", In::ArrNum, "", STR, 3),
    b("@csv", In::ArrScalar, "", STR, 0),
    b("@tsv", In::ArrScalar, "", STR, 0),
    b("@sh", In::ArrScalar, "", STR, 0),
    b("@html", In::ArrScalar, "", STR, 1),
    b("@json", In::Arr, "", STR, 0),
    b("@text", In::Arr, "", STR, 0),
    b("@dsv(\"|\")", In::ArrScalar, "", STR, 2),
    b("pivot", In::ArrArr, "", ARR, 2),
    b("pivot", In::ArrObj, "", OBJ, 2),
    b("shuffle", In::Arr, "", Out::Same, 3),
    b("fromstream", In::Any, "T", ANY, 0),
    b("truncate_stream", In::Num, "T", ANY, 1),
    b("tojsonstream", In::Any, "", ANY, 2),
    b("fromjsonstream", In::Any, "", ANY, 2),
    b("INDEX", In::Arr, "e", OBJ, 1),
    b("in", In::Num, "o", BOOL, 0),
    // --- arrays or objects
    b("keys", In::Iter, "", ARR, 0),
    b("keys_unsorted", In::Iter, "", ARR, 0),
    b("has", In::Iter, "k", BOOL, 0),
    b("map", In::Iter, "e", ARR, 0),
    b("map_values", In::Iter, "e", Out::Same, 0),
    b("to_entries", In::Obj, "", Out::ArrOf(K::Obj), 0),
    b("to_entries", In::Arr, "", Out::ArrOf(K::Obj), 1),
    b("with_entries", In::Obj, "W", OBJ, 0),
    b("tostream", In::Iter, "", ARR, 0),
    b("omit", In::Iter, "p", Out::Same, 2),
    b("@json", In::Obj, "", STR, 0),
    b("@text", In::Obj, "", STR, 0),
    // --- succinctly / yq position & presentation builtins
    b("tag", In::Any, "", STR, 2),
    b("anchor", In::Any, "", STR, 2),
    b("style", In::Any, "", STR, 2),
    b("kind", In::Any, "", STR, 2),
    b("key", In::Any, "", ANY, 2),
    b("parent", In::Any, "", ANY, 2),
    b("parent", In::Any, "n", ANY, 2),
    b("line", In::Any, "", NUM, 2),
    b("column", In::Any, "", NUM, 2),
    b("line_comment", In::Any, "", STR, 2),
    b("document_index", In::Any, "", NUM, 2),
    b("di", In::Any, "", NUM, 2),
    b("file_index", In::Any, "", NUM, 2),
    b("split_doc", In::Any, "", ANY, 2),
];

/// Names of the table rows up to `max_tier` (de-duplicated, table order).
pub fn builtin_names(max_tier: u8) -> Vec<&'static str> {
    let mut v: Vec<&'static str> = vec![];
    for r in TABLE {
        if r.tier <= max_tier && !v.contains(&r.name) {
            v.push(r.name);
        }
    }
    v
}

fn matches_in(inp: In, j: &J) -> bool {
    let all = |a: &Vec<J>, f: &dyn Fn(&J) -> bool| !a.is_empty() && a.iter().all(|x| f(x));
    match (inp, j) {
        (In::Any, _) => true,
        (In::Num, J::Num(_)) | (In::Str, J::Str(_)) | (In::Arr, J::Arr(_)) | (In::Obj, J::Obj(_)) => true,
        (In::Iter, J::Arr(_) | J::Obj(_)) => true,
        (In::ArrNum, J::Arr(a)) => all(a, &|x| matches!(x, J::Num(_))),
        (In::ArrStr, J::Arr(a)) => all(a, &|x| matches!(x, J::Str(_))),
        (In::ArrArr, J::Arr(a)) => all(a, &|x| matches!(x, J::Arr(_))),
        (In::ArrObj, J::Arr(a)) => all(a, &|x| matches!(x, J::Obj(_))),
        (In::ArrScalar, J::Arr(a)) => all(a, &|x| !x.is_container()),
        _ => false,
    }
}

// ---------------------------------------------------------------- program

#[derive(Clone, Debug)]
pub struct Prog {
    pub ast: E,
    pub text: String,
    pub feats: Vec<String>,
    pub nodes: usize,
    pub kinds: usize,
    pub extreme: bool,
    pub nest: usize,
    pub family: &'static str,
}

/// maximum nesting of (), [], {} in a program text (string contents ignored, approximately)
pub fn text_nesting(s: &str) -> usize {
    let mut d = 0usize;
    let mut m = 0usize;
    for c in s.bytes() {
        match c {
            b'(' | b'[' | b'{' => {
                d += 1;
                m = m.max(d);
            }
            b')' | b']' | b'}' => d = d.saturating_sub(1),
            _ => {}
        }
    }
    m
}

pub fn prog_of(ast: E, extreme: bool, family: &'static str) -> Prog {
    let text = print(&ast);
    let (nodes, set) = ast.features();
    let nest = text_nesting(&text);
    Prog { ast, text, kinds: set.len(), feats: set.into_iter().collect(), nodes, extreme, nest, family }
}

/// Generate one program of `cfg.profile` (typed generator) for input document `doc`.
pub fn gen_program(u: &mut Src, doc: &J, cfg: &Cfg) -> Prog {
    let mut g = Gen::new(u, doc, cfg);
    let d = g.cfg.max_depth;
    let (e, _) = g.gen(&doc.clone(), d);
    let ex = g.extreme;
    prog_of(e, ex, "gen")
}

const SAFE_REGEX: &[&str] = &[
    "a", ".", "[a-z]+", "\\\\d+", "(?<x>[a-z])", "^", "$", "", "a|b", "(a)(b)?", "\\\\s+", "[^,]+", "^.", ".$", "(?<n>[0-9]+)", "[A-Z]", "\\\\w", "(.)(.)", "a*", "b+?", ", *", " ", "\\\\.",
    "e", "[aeiou]", "(?i)a",
];
const REGEX_FLAGS: &[&str] = &["g", "i", "x", "gi", "n", "s", "l", "p", "gx", "", "ig"];
const STRFTIME: &[&str] = &["%Y-%m-%dT%H:%M:%SZ", "%Y", "%A, %B %d, %Y", "%j", "%H:%M", "%s", "%e %b", "%U %W", "%Z", "%%", "%y%m%d", "%a %p %I"];

struct Gen<'a, 'b> {
    u: &'a mut Src<'b>,
    cfg: &'a Cfg,
    #[allow(dead_code)]
    doc: &'a J,
    vars: Vec<(String, J)>,
    /// user functions in scope: (name, number of filter params)
    funcs: Vec<(String, usize)>,
    labels: Vec<String>,
    next_id: usize,
    budget: isize,
    doc_strings: Vec<String>,
    big_used: bool,
    extreme: bool,
}

fn collect_strings(j: &J, out: &mut Vec<String>) {
    match j {
        J::Str(s) => {
            if out.len() < 24 {
                out.push(s.clone())
            }
        }
        J::Arr(a) => a.iter().for_each(|x| collect_strings(x, out)),
        J::Obj(f) => f.iter().for_each(|(k, v)| {
            if out.len() < 24 {
                out.push(k.clone());
            }
            collect_strings(v, out)
        }),
        _ => {}
    }
}

fn lookup<'j>(j: &'j J, key: &str) -> Option<&'j J> {
    match j {
        J::Obj(f) => f.iter().rev().find(|(k, _)| k == key).map(|(_, v)| v),
        _ => None,
    }
}

fn rep_of(k: K) -> J {
    match k {
        K::Null | K::Any => J::Null,
        K::Bool => J::Bool(true),
        K::Num => J::int(3),
        K::Str => J::Str("ab".into()),
        K::Arr => J::Arr(vec![J::int(1), J::int(2)]),
        K::Obj => J::Obj(vec![("a".into(), J::int(1))]),
    }
}

/// every (path, sub-value) of `j`, depth-first, capped
fn sub_values<'j>(j: &'j J, path: &mut Vec<Step>, out: &mut Vec<(Vec<Step>, &'j J)>) {
    if out.len() >= 40 {
        return;
    }
    out.push((path.clone(), j));
    match j {
        J::Arr(a) => {
            for (i, x) in a.iter().enumerate().take(6) {
                path.push(Step::Index(Box::new(E::num(i as i64))));
                sub_values(x, path, out);
                path.pop();
            }
        }
        J::Obj(f) => {
            for (idx, (k, x)) in f.iter().enumerate().take(6) {
                // only the effective (last) duplicate is reachable by name
                if f.iter().skip(idx + 1).any(|(k2, _)| k2 == k) {
                    continue;
                }
                path.push(Step::Field(k.clone()));
                sub_values(x, path, out);
                path.pop();
            }
        }
        _ => {}
    }
}

impl<'a, 'b> Gen<'a, 'b> {
    fn new(u: &'a mut Src<'b>, doc: &'a J, cfg: &'a Cfg) -> Self {
        let mut ds = vec![];
        collect_strings(doc, &mut ds);
        let budget = match cfg.profile {
            Profile::Core => 14,
            _ => 26,
        };
        Gen { u, cfg, doc, vars: vec![], funcs: vec![], labels: vec![], next_id: 0, budget, doc_strings: ds, big_used: false, extreme: false }
    }
    fn core(&self) -> bool {
        self.cfg.profile == Profile::Core
    }
    fn hostile(&self) -> bool {
        self.cfg.profile == Profile::Hostile
    }
    fn ok(&self, feat: &str) -> bool {
        !self.cfg.excluded(feat)
    }
    fn fresh(&mut self, p: &str) -> String {
        self.next_id += 1;
        format!("{}{}", p, self.next_id)
    }
    fn type_error(&mut self) -> bool {
        let r = self.cfg.type_error_rate;
        r > 0 && self.u.ratio(1, r)
    }

    // ---- literals

    /// A slice bound with value `v`: a literal, or (1 in 3) a *computed* expression with the
    /// same value — evaluators may take a different code path for non-literal bounds.
    fn slice_bound(&mut self, v: i64) -> E {
        if self.core() || !self.u.ratio(1, 3) {
            return E::num(v);
        }
        match self.u.below(3) {
            0 => E::raw(&format!("({}-3)", v + 3)),
            1 => E::raw(&format!("([{}]|.[0])", v)),
            _ => E::raw(&format!("({}|.)", v)),
        }
    }

    fn some_string(&mut self) -> String {
        if !self.doc_strings.is_empty() && self.u.ratio(2, 3) {
            let i = self.u.below(self.doc_strings.len());
            let s = self.doc_strings[i].clone();
            if s.chars().count() <= 12 {
                return s;
            }
            return s.chars().take(self.u.range(1, 8)).collect();
        }
        let pool = ["a", "b", "", "ab", "x y", "é", "a,b", "A", "1", "null", " ", "key", "value", "a\"b", "\\", "😀"];
        (*self.u.pick(&pool)).to_string()
    }

    fn extreme_num(&mut self) -> E {
        self.extreme = true;
        let pool = [
            "infinite", "-infinite", "nan", "1e19", "-1e19", "-0", "9007199254740993", "1e1000", "-1e1000", "1e-1000", "9223372036854775807",
            "9223372036854775808", "-9223372036854775808", "-9223372036854775809", "18446744073709551616", "4294967296", "2147483648", "1e15",
            "1e18", "0.1", "1e308", "5e-324", "1114112", "55296", "-1", "1.5", "-2147483649", "1e300", "0.0", "-0.0", "1e17",
        ];
        let s = *self.u.pick(&pool);
        let lvl = if s.starts_with('-') { L_UNARY } else { L_TERM };
        E::Raw(s.to_string(), lvl, "extreme")
    }

    fn num_lit(&mut self) -> E {
        if self.hostile() && self.u.ratio(1, 3) {
            return self.extreme_num();
        }
        if self.core() {
            return E::num(self.u.range_i64(-3, 12));
        }
        match self.u.below(10) {
            0 => E::raw("0"),
            1 => E::raw("1.5"),
            2 => E::Raw("-1".into(), L_UNARY, "lit"),
            3 => E::raw("1e2"),
            4 => E::raw("0.1"),
            5 => E::raw("100000000000000000000"),
            _ => E::num(self.u.range_i64(-3, 12)),
        }
    }

    fn count_lit(&mut self) -> E {
        if self.hostile() && self.u.ratio(1, 3) {
            if !self.big_used && self.u.ratio(1, 3) {
                self.big_used = true;
                self.extreme = true;
                return E::Raw("1e5".into(), L_TERM, "extreme");
            }
            return self.extreme_num();
        }
        E::num(self.u.range_i64(0, 4))
    }

    fn lit_of(&mut self, k: K) -> E {
        match k {
            K::Null => E::raw("null"),
            K::Bool => E::raw(if self.u.bool() { "true" } else { "false" }),
            K::Num => self.num_lit(),
            K::Str => {
                let s = self.some_string();
                E::str_lit(&s)
            }
            K::Arr => match self.u.below(4) {
                0 => E::Arr(None),
                1 => E::raw("[1, 2, 3]"),
                2 => E::raw("[\"a\", \"b\"]"),
                _ => {
                    let a = self.lit_of(K::Num);
                    let b = self.lit_of(K::Str);
                    E::Arr(Some(Box::new(E::Comma(Box::new(a), Box::new(b)))))
                }
            },
            K::Obj => match self.u.below(3) {
                0 => E::Obj(vec![]),
                1 => E::raw("{\"a\": 1}"),
                _ => {
                    let k = self.some_string();
                    let v = self.lit_of(K::Num);
                    E::Obj(vec![(OKey::Str(k), Some(v))])
                }
            },
            K::Any => {
                let k = *self.u.pick(&[K::Null, K::Bool, K::Num, K::Num, K::Str, K::Str, K::Arr, K::Obj]);
                self.lit_of(k)
            }
        }
    }

    /// a literal rendering of a (small) model value
    fn lit_value(&mut self, j: &J) -> E {
        if j.node_count() <= 8 {
            let t = json::to_compact(j);
            let lvl = if t.starts_with('-') { L_UNARY } else { L_TERM };
            E::Raw(t, lvl, "lit")
        } else {
            self.lit_of(kind_of(j))
        }
    }

    // ---- samples

    fn elem_sample(&mut self, j: &J) -> J {
        match j {
            J::Arr(a) if !a.is_empty() => a[self.u.below(a.len())].clone(),
            J::Obj(f) if !f.is_empty() => f[self.u.below(f.len())].1.clone(),
            _ => J::Null,
        }
    }

    // ---- paths

    fn gen_path(&mut self, cur: &J) -> (E, J) {
        let mut steps = vec![];
        let mut s = cur.clone();
        let n = self.u.range(1, 3);
        for _ in 0..n {
            let te = self.type_error();
            let kind = if te { *self.u.pick(&[K::Obj, K::Arr, K::Null]) } else { kind_of(&s) };
            match kind {
                K::Obj => {
                    let keys: Vec<String> = match &s {
                        J::Obj(f) => f.iter().map(|x| x.0.clone()).collect(),
                        _ => vec![],
                    };
                    match self.u.below(10) {
                        0 | 1 if !te => {
                            steps.push(Step::Iter);
                            s = self.elem_sample(&s);
                        }
                        2 if !self.core() => {
                            // computed key
                            let k = if keys.is_empty() { self.some_string() } else { keys[self.u.below(keys.len())].clone() };
                            s = lookup(&s, &k).cloned().unwrap_or(J::Null);
                            steps.push(Step::Index(Box::new(E::str_lit(&k))));
                        }
                        _ => {
                            let k = if keys.is_empty() || self.u.ratio(1, 8) { self.some_string() } else { keys[self.u.below(keys.len())].clone() };
                            s = lookup(&s, &k).cloned().unwrap_or(J::Null);
                            steps.push(Step::Field(k));
                        }
                    }
                }
                K::Arr => {
                    let len = match &s {
                        J::Arr(a) => a.len() as i64,
                        _ => 2,
                    };
                    match self.u.below(10) {
                        0 | 1 | 2 if !te => {
                            steps.push(Step::Iter);
                            s = self.elem_sample(&s);
                        }
                        3 | 4 if self.ok("slice") => {
                            let a = if self.u.bool() { let v = self.u.range_i64(-len - 1, len + 1); Some(Box::new(self.slice_bound(v))) } else { None };
                            let b = if a.is_none() || self.u.bool() { let v = self.u.range_i64(-len - 1, len + 1); Some(Box::new(self.slice_bound(v))) } else { None };
                            steps.push(Step::Slice(a, b));
                            // representative: keep the array
                        }
                        5 if !self.core() => {
                            let e = if self.hostile() { self.extreme_num() } else { (*self.u.pick(&[E::raw("1.5"), E::raw("0.0"), E::raw("1e0"), E::raw("null"), E::raw("-0")])).clone() };
                            steps.push(Step::Index(Box::new(e)));
                            s = self.elem_sample(&s);
                        }
                        _ => {
                            let i = self.u.range_i64(-len - 1, len + 1);
                            let idx = if i < 0 { len + i } else { i };
                            s = match &s {
                                J::Arr(a) if idx >= 0 && (idx as usize) < a.len() => a[idx as usize].clone(),
                                _ => J::Null,
                            };
                            steps.push(Step::Index(Box::new(E::num(i))));
                        }
                    }
                }
                K::Null => {
                    if self.u.bool() {
                        steps.push(Step::Field(self.some_string()));
                    } else {
                        steps.push(Step::Index(Box::new(E::num(self.u.range_i64(0, 2)))));
                    }
                }
                K::Str if !self.core() && self.ok("slice") && self.u.ratio(1, 3) => {
                    let a = self.u.range_i64(-4, 4);
                    let a = self.slice_bound(a);
                    let b = if self.u.bool() { let v = self.u.range_i64(-4, 8); Some(Box::new(self.slice_bound(v))) } else { None };
                    steps.push(Step::Slice(Some(Box::new(a)), b));
                }
                _ => break,
            }
            if self.ok("opt") && self.u.ratio(1, 8) {
                steps.push(Step::Opt);
            }
        }
        if steps.is_empty() {
            return (E::Identity, s);
        }
        (E::Path(Box::new(E::Identity), steps), s)
    }

    // ---- typed expression of a wanted kind

    fn path_to_kind(&mut self, cur: &J, want: In) -> Option<E> {
        let mut out = vec![];
        sub_values(cur, &mut vec![], &mut out);
        let hits: Vec<&(Vec<Step>, &J)> = out.iter().filter(|(_, v)| matches_in(want, v)).collect();
        if hits.is_empty() {
            return None;
        }
        let (p, _) = hits[self.u.below(hits.len())];
        if p.is_empty() {
            Some(E::Identity)
        } else {
            Some(E::Path(Box::new(E::Identity), p.clone()))
        }
    }

    fn var_of(&mut self, want: In) -> Option<(E, J)> {
        let hits: Vec<usize> = (0..self.vars.len()).filter(|&i| matches_in(want, &self.vars[i].1)).collect();
        if hits.is_empty() {
            return None;
        }
        let i = hits[self.u.below(hits.len())];
        Some((E::Var(self.vars[i].0.clone()), self.vars[i].1.clone()))
    }

    /// expression (applied to `cur`) producing a value acceptable as `want`; returns a representative
    fn gen_in(&mut self, cur: &J, want: In, d: usize) -> (E, J) {
        if want == In::Any {
            return if d == 0 { self.leaf(cur) } else { self.gen(cur, d - 1) };
        }
        if matches_in(want, cur) && self.u.ratio(1, 3) {
            return (E::Identity, cur.clone());
        }
        if self.u.ratio(1, 2) {
            if let Some(p) = self.path_to_kind(cur, want) {
                let s = eval_path_sample(cur, &p);
                return (p, s);
            }
        }
        if self.u.ratio(1, 4) {
            if let Some(v) = self.var_of(want) {
                return v;
            }
        }
        // constructed
        match want {
            In::Num => {
                if d > 0 && self.u.ratio(1, 3) {
                    let (e, _) = self.gen_in(cur, In::Iter, d - 1);
                    (E::pipe(e, E::call0("length")), J::int(2))
                } else {
                    (self.lit_of(K::Num), J::int(3))
                }
            }
            In::Str => {
                if d > 0 && self.u.ratio(1, 3) {
                    let (e, _) = self.gen(cur, d - 1);
                    (E::pipe(e, E::call0(*self.u.pick(&["tostring", "tojson", "type", "@text", "@json"]))), J::Str("ab".into()))
                } else {
                    let s = self.some_string();
                    (E::str_lit(&s), J::Str(s))
                }
            }
            In::Arr | In::Iter | In::ArrScalar => match self.u.below(4) {
                0 if d > 0 => {
                    let (g, s) = self.bounded_gen(cur, d - 1);
                    (E::Arr(Some(Box::new(g))), J::Arr(vec![s]))
                }
                1 => (E::raw("[3, 1, 2]"), J::Arr(vec![J::int(3), J::int(1), J::int(2)])),
                2 => (E::raw("[\"b\", \"a\", null, 1]"), J::Arr(vec![J::Str("b".into()), J::Str("a".into()), J::Null, J::int(1)])),
                _ => (E::raw("[1, \"a\", null]"), J::Arr(vec![J::int(1), J::Str("a".into()), J::Null])),
            },
            In::Obj => match self.u.below(3) {
                0 => (E::raw("{\"a\": 1, \"b\": [2]}"), J::Obj(vec![("a".into(), J::int(1)), ("b".into(), J::Arr(vec![J::int(2)]))])),
                1 if d > 0 => {
                    let (e, s) = self.gen(cur, d - 1);
                    (E::Obj(vec![(OKey::Ident("a".into()), Some(e))]), J::Obj(vec![("a".into(), s)]))
                }
                _ => (E::raw("{\"b\": 2, \"a\": \"x\"}"), J::Obj(vec![("b".into(), J::int(2)), ("a".into(), J::Str("x".into()))])),
            },
            In::ArrNum => match self.u.below(3) {
                0 => (E::raw("[range(5)]"), J::Arr(vec![J::int(0), J::int(1)])),
                1 => (E::raw("[104, 105, 233]"), J::Arr(vec![J::int(104), J::int(105)])),
                _ => (E::raw("[3, 1.5, -2]"), J::Arr(vec![J::int(3), J::int(-2)])),
            },
            In::ArrStr => (E::raw("[\"b\", \"a\", \"c\"]"), J::Arr(vec![J::Str("b".into()), J::Str("a".into())])),
            In::ArrArr => match self.u.below(3) {
                0 => (E::raw("[[1, 2], [3, 4]]"), J::Arr(vec![J::Arr(vec![J::int(1), J::int(2)]), J::Arr(vec![J::int(3), J::int(4)])])),
                1 => (E::raw("[[1], [2, 3], []]"), J::Arr(vec![J::Arr(vec![J::int(1)]), J::Arr(vec![])])),
                _ => (E::raw("[[\"a\", 1], [\"b\"]]"), J::Arr(vec![J::Arr(vec![J::Str("a".into()), J::int(1)])])),
            },
            In::ArrObj => match self.u.below(2) {
                0 => (
                    E::raw("[{\"key\": \"a\", \"value\": 1}, {\"name\": \"b\", \"value\": null}]"),
                    J::Arr(vec![J::Obj(vec![("key".into(), J::Str("a".into())), ("value".into(), J::int(1))])]),
                ),
                _ => (E::raw("[{\"a\": 2, \"b\": 1}, {\"a\": 1}]"), J::Arr(vec![J::Obj(vec![("a".into(), J::int(2)), ("b".into(), J::int(1))])])),
            },
            In::Any => unreachable!(),
        }
    }
}

/// follow a literal path expression (as produced by `path_to_kind`) in the sample
fn eval_path_sample(cur: &J, p: &E) -> J {
    let mut s = cur.clone();
    if let E::Path(_, steps) = p {
        for st in steps {
            s = match (st, &s) {
                (Step::Field(k), J::Obj(_)) => lookup(&s, k).cloned().unwrap_or(J::Null),
                (Step::Index(e), J::Arr(a)) => match &**e {
                    E::Raw(t, _, _) => t.parse::<usize>().ok().and_then(|i| a.get(i).cloned()).unwrap_or(J::Null),
                    _ => J::Null,
                },
                _ => J::Null,
            };
        }
    }
    s
}

impl<'a, 'b> Gen<'a, 'b> {
    fn out_sample(&mut self, out: Out, input: &J) -> J {
        match out {
            Out::K(k) => rep_of(k),
            Out::Same => input.clone(),
            Out::Elem => self.elem_sample(input),
            Out::ArrOf(k) => J::Arr(vec![rep_of(k)]),
        }
    }

    fn rows_for(&mut self, cur: &J, any_input: bool) -> Vec<&'static B> {
        let mt = self.cfg.max_tier();
        TABLE
            .iter()
            .filter(|r| r.tier <= mt && (any_input || (r.inp != In::Any && matches_in(r.inp, cur))) && (!any_input || r.inp == In::Any))
            .filter(|r| !self.cfg.excluded(&format!("b:{}", r.name)))
            .collect()
    }

    // ---- leaves

    fn leaf(&mut self, cur: &J) -> (E, J) {
        match self.u.below(12) {
            0 | 1 => (E::Identity, cur.clone()),
            2 | 3 | 4 | 5 => self.gen_path(cur),
            6 => {
                if let Some(v) = self.var_of(In::Any) {
                    v
                } else {
                    self.gen_path(cur)
                }
            }
            7 | 8 => {
                // zero-argument builtin fitting the input
                let specific = !self.u.ratio(1, 3);
                let rows: Vec<&'static B> = self.rows_for(cur, !specific).into_iter().filter(|r| r.args.is_empty()).collect();
                if rows.is_empty() {
                    return (E::Identity, cur.clone());
                }
                let r = rows[self.u.below(rows.len())];
                let s = self.out_sample(r.out, cur);
                (E::call0(r.name), s)
            }
            9 if !self.funcs.is_empty() => {
                let i = self.u.below(self.funcs.len());
                let (n, ar) = self.funcs[i].clone();
                let args = (0..ar).map(|_| self.leaf(cur).0).collect();
                (E::Call(n, args), J::Null)
            }
            _ => {
                let k = *self.u.pick(&[K::Null, K::Bool, K::Num, K::Num, K::Str, K::Str, K::Arr, K::Obj]);
                (self.lit_of(k), rep_of(k))
            }
        }
    }

    // ---- bounded generators

    fn bounded_gen(&mut self, cur: &J, d: usize) -> (E, J) {
        let iter = matches!(cur, J::Arr(_) | J::Obj(_));
        match self.u.below(14) {
            0 | 1 | 2 if iter => (E::Path(Box::new(E::Identity), vec![Step::Iter]), self.elem_sample(cur)),
            3 => (E::Path(Box::new(E::Identity), vec![Step::Iter, Step::Opt]), self.elem_sample(cur)),
            4 => (E::call("range", vec![E::num(self.u.range_i64(0, 6))]), J::int(1)),
            5 => {
                let a = self.u.range_i64(-2, 5);
                let b = self.u.range_i64(-2, 12);
                if self.u.bool() {
                    (E::call("range", vec![E::num(a), E::num(b)]), J::int(1))
                } else {
                    let mut c = self.u.range_i64(-3, 4);
                    if c == 0 {
                        c = 2;
                    }
                    (E::call("range", vec![E::num(a), E::num(b), E::num(c)]), J::int(1))
                }
            }
            6 | 7 => {
                let (a, s) = if d > 0 { self.gen(cur, d - 1) } else { self.leaf(cur) };
                let (b2, _) = self.leaf(cur);
                (E::Comma(Box::new(a), Box::new(b2)), s)
            }
            8 => (E::call0("empty"), J::Null),
            9 if !self.core() && self.ok("b:limit") => {
                let n = self.u.range_i64(0, 4);
                let f = (*self.u.pick(&[E::Identity, E::raw(". * 2"), E::raw("[.]"), E::raw("tostring")])).clone();
                (E::call("limit", vec![E::num(n), E::call("repeat", vec![f])]), cur.clone())
            }
            10 => (if self.u.bool() { E::RecDescent } else { E::call0("recurse") }, cur.clone()),
            11 if !self.core() => {
                let t = *self.u.pick(&[
                    "recurse(.[]?)",
                    "recurse(.[]?; . != null)",
                    "recurse(if type == \"number\" and . < 3 then . + 1 else empty end)",
                    "(length | while(. < 4; . + 1))",
                    "(length | until(. > 6; . * 2 + 1))",
                    "(length | [limit(3; repeat(. + 1))][])",
                    "paths",
                    "(paths | tostring)",
                    "(tostream)",
                    "(to_entries? | .[])",
                    "(keys? | .[])",
                    "first(range(10; 0; -3))",
                    "(.. | scalars)",
                    "leaf_paths",
                    "getpath(paths)",
                    "limit(2; .[]?)",
                    "first(.[]?)",
                    "nth(1; .[]?)",
                    "(.[]? | select(. != null))",
                    "skip(1; .[]?)",
                ]);
                (E::Raw(t.into(), L_TERM, "gen-template"), J::Null)
            }
            _ => {
                let (a, s) = self.leaf(cur);
                (a, s)
            }
        }
    }

    // ---- conditions

    fn gen_cond(&mut self, cur: &J, d: usize) -> E {
        let k = kind_of(cur);
        match self.u.below(12) {
            0 => E::raw(if self.u.bool() { "true" } else { "false" }),
            1 => E::bin("==", E::call0("type"), E::str_lit(*self.u.pick(&["number", "string", "array", "object", "null", "boolean"]))),
            2 => E::bin("!=", E::Identity, E::raw("null")),
            3 if k == K::Num => E::bin(*self.u.pick(&["<", "<=", ">", ">="]), E::Identity, self.num_lit()),
            4 if matches!(k, K::Arr | K::Obj | K::Str) => E::bin(*self.u.pick(&[">", "==", "<"]), E::call0("length"), E::num(self.u.range_i64(0, 3))),
            5 if matches!(k, K::Arr | K::Obj) => {
                let key = self.key_arg(cur);
                E::call("has", vec![key])
            }
            6 if d > 0 => {
                let a = self.gen_cond(cur, d - 1);
                let b2 = self.gen_cond(cur, d - 1);
                E::bin(if self.u.bool() { "and" } else { "or" }, a, b2)
            }
            7 if d > 0 => E::pipe(self.gen_cond(cur, d - 1), E::call0("not")),
            8 => {
                let (p, s) = self.gen_path(cur);
                let lit = self.lit_value(&s);
                E::bin(*self.u.pick(&["==", "!=", "<", ">="]), p, lit)
            }
            9 if k == K::Str && !self.core() && self.ok("b:test") => E::call("test", vec![self.regex_arg(cur)]),
            10 => {
                let (p, _) = self.gen_path(cur);
                p
            }
            _ => {
                let (a, s) = if d > 0 { self.gen(cur, d - 1) } else { self.leaf(cur) };
                let lit = self.lit_value(&s);
                E::bin(*self.u.pick(&["==", "<", "!="]), a, lit)
            }
        }
    }

    // ---- builtin arguments

    fn key_arg(&mut self, cur: &J) -> E {
        match cur {
            J::Obj(f) if !f.is_empty() && !self.u.ratio(1, 6) => E::str_lit(&f[self.u.below(f.len())].0.clone()),
            J::Arr(a) if !self.u.ratio(1, 6) => E::num(self.u.range_i64(0, a.len() as i64)),
            J::Obj(_) => {
                let s = self.some_string();
                E::str_lit(&s)
            }
            _ => {
                if self.u.bool() {
                    E::num(self.u.range_i64(-1, 3))
                } else {
                    let s = self.some_string();
                    E::str_lit(&s)
                }
            }
        }
    }

    fn regex_arg(&mut self, cur: &J) -> E {
        if let J::Str(s) = cur {
            if !s.is_empty() && self.u.ratio(1, 3) {
                // a literal piece of the subject, metacharacters escaped
                let cs: Vec<char> = s.chars().collect();
                let a = self.u.below(cs.len());
                let l = self.u.range(1, 3).min(cs.len() - a);
                let mut re = String::new();
                for c in &cs[a..a + l] {
                    if "\\.^$|()[]{}*+?".contains(*c) {
                        re.push('\\');
                    }
                    re.push(*c);
                }
                return E::str_lit(&re);
            }
        }
        if self.hostile() && self.u.ratio(1, 4) {
            self.extreme = true;
            return E::Raw((*self.u.pick(&["\"(\"", "\"[\"", "\"a{99999}\"", "\"(?<x>\"", "\"\\\\\"", "\"(?<a>.)(?<a>.)\"", "\"*\"", "\"\\\\p{Foo}\"", "\"(?P<n>x)\"", "\"\\\\1\"", "\"(a*)*$\"", "\"\\u0000\""])).to_string(), L_TERM, "extreme");
        }
        E::Raw(format!("\"{}\"", self.u.pick(SAFE_REGEX)), L_TERM, "lit")
    }

    fn piece_of(&mut self, cur: &J) -> E {
        match cur {
            J::Str(s) if !s.is_empty() => {
                let cs: Vec<char> = s.chars().collect();
                let a = self.u.below(cs.len());
                let l = self.u.range(0, 3).min(cs.len() - a);
                let sub: String = cs[a..a + l].iter().collect();
                E::str_lit(&sub)
            }
            J::Arr(a) if !a.is_empty() => {
                let i = self.u.below(a.len());
                let e = a[i].clone();
                if self.u.bool() {
                    let v = self.lit_value(&e);
                    E::Arr(Some(Box::new(v)))
                } else {
                    self.lit_value(&e)
                }
            }
            J::Obj(f) if !f.is_empty() => {
                let i = self.u.below(f.len());
                let (k, v) = f[i].clone();
                let lv = self.lit_value(&v);
                E::Obj(vec![(OKey::Str(k), Some(lv))])
            }
            other => {
                let o = other.clone();
                self.lit_value(&o)
            }
        }
    }

    fn path_array_lit(&mut self, cur: &J) -> E {
        let mut out = vec![];
        sub_values(cur, &mut vec![], &mut out);
        let i = self.u.below(out.len().max(1));
        let mut parts: Vec<String> = vec![];
        if let Some((p, _)) = out.get(i) {
            for st in p {
                match st {
                    Step::Field(k) => parts.push(jq_string_literal(k)),
                    Step::Index(e) => parts.push(print(e)),
                    _ => {}
                }
            }
        }
        if self.u.ratio(1, 6) {
            parts.push(if self.u.bool() { "\"zz\"".into() } else { "7".into() });
        }
        if self.hostile() && self.u.ratio(1, 4) {
            self.extreme = true;
            parts.push((*self.u.pick(&["1e18", "-1", "1e15", "nan", "infinite", "null", "{\"start\": 1e18, \"end\": null}", "1.5", "-1e18", "{}", "[0]", "true"])).to_string());
        }
        E::Raw(format!("[{}]", parts.join(", ")), L_TERM, "lit")
    }

    fn arg(&mut self, code: char, cur: &J, d: usize) -> E {
        let dd = d.saturating_sub(1);
        match code {
            'f' | 'v' => {
                if d == 0 {
                    self.leaf(cur).0
                } else {
                    self.gen(cur, dd).0
                }
            }
            'e' => {
                let s = self.elem_sample(cur);
                if d == 0 {
                    self.leaf(&s).0
                } else {
                    self.gen(&s, dd).0
                }
            }
            'c' => self.gen_cond(cur, dd),
            'C' => {
                let s = self.elem_sample(cur);
                self.gen_cond(&s, dd)
            }
            'n' => self.count_lit(),
            'x' => {
                if self.u.ratio(1, 3) {
                    self.gen_in(cur, In::Num, dd).0
                } else {
                    self.num_lit()
                }
            }
            's' => {
                if matches!(cur, J::Str(_)) && self.u.ratio(2, 3) {
                    self.piece_of(cur)
                } else if self.type_error() {
                    self.lit_of(K::Any)
                } else {
                    self.lit_of(K::Str)
                }
            }
            'r' => self.regex_arg(cur),
            'R' => match self.u.below(4) {
                0 => E::raw("\"[\\(.x // \"-\")]\""),
                1 => E::raw("\"\""),
                2 => E::raw("(.x // \"z\" | ascii_upcase)"),
                _ => self.lit_of(K::Str),
            },
            'g' => {
                if self.u.ratio(1, 12) {
                    E::raw("null")
                } else {
                    E::Raw(format!("\"{}\"", self.u.pick(REGEX_FLAGS)), L_TERM, "lit")
                }
            }
            'k' => self.key_arg(cur),
            'p' => {
                if self.u.ratio(1, 6) && !self.core() {
                    (*self.u.pick(&[E::raw("(.. | numbers)"), E::raw(".[]?"), E::raw("(.[]? | select(. == null))"), E::raw("first(.[]?)"), E::raw("(.a, .b)"), E::raw("..")])).clone()
                } else {
                    self.gen_path(cur).0
                }
            }
            'P' => self.path_array_lit(cur),
            'Q' => {
                let a = self.path_array_lit(cur);
                if self.u.bool() {
                    E::Arr(Some(Box::new(a)))
                } else {
                    let b2 = self.path_array_lit(cur);
                    E::Arr(Some(Box::new(E::Comma(Box::new(a), Box::new(b2)))))
                }
            }
            'S' => self.piece_of(cur),
            'G' => self.bounded_gen(cur, dd).0,
            't' => {
                if self.hostile() && self.u.ratio(1, 2) {
                    self.extreme = true;
                    E::Raw(
                        (*self.u.pick(&[
                            "\"%\"", "\"%Q\"", "\"%1000d\"", "\"%%%\"", "\"\\u0000\"", "\"%c %x %X %+\"", "\"%-d %_d %0d %^a %#Z\"", "\"%:z %::z %:::z\"", "\"%N %f %3f %9f %.3f\"",
                            "\"%E %O %Ey %Od\"", "\"\"", "\"%s%s%s\"", "\"é%Yé\"", "\"%10Y\"", "\"%k %l %P %r %R %T %D %F %v %h %n %t %u %w %C %g %G %V\"", "1", "null", "\"%-\"", "\"%:\"", "\"%.\"",
                        ]))
                        .to_string(),
                        L_TERM,
                        "extreme",
                    )
                } else {
                    E::Raw(format!("\"{}\"", self.u.pick(STRFTIME)), L_TERM, "lit")
                }
            }
            'z' => E::Raw((*self.u.pick(&["\"UTC\"", "\"America/New_York\"", "\"Asia/Tokyo\"", "\"Nowhere/City\"", "\"\""])).to_string(), L_TERM, "lit"),
            'N' => E::Raw((*self.u.pick(&["\"HOME\"", "\"PATH\"", "\"NOPE_NOT_SET\"", "\"\""])).to_string(), L_TERM, "lit"),
            'o' => match cur {
                J::Str(s) => E::Obj(vec![(OKey::Str(s.clone()), Some(E::raw("1")))]),
                _ => E::raw("[0, 1, 2]"),
            },
            'w' => (*self.u.pick(&[
                E::raw("if type == \"number\" then . + 1 else . end"),
                E::raw("if type == \"array\" then sort else . end"),
                E::raw("if type == \"object\" then del(.a) else . end"),
                E::raw("if type == \"string\" then ascii_upcase else . end"),
                E::Identity,
                E::raw("arrays |= length"),
                E::raw("select(. != null)"),
                E::raw("tostring"),
            ]))
            .clone(),
            'W' => (*self.u.pick(&[
                E::Identity,
                E::raw(".value |= tostring"),
                E::raw(".key |= ascii_upcase"),
                E::raw("select(.value != null)"),
                E::raw(".key += \"_\""),
                E::raw("{key: .value | tostring, value: .key}"),
                E::raw("empty"),
                E::raw(".value = .key"),
            ]))
            .clone(),
            'T' => (*self.u.pick(&[E::raw("tostream"), E::raw("(tostream | select(length == 2))"), E::raw("([[0], 1], [[1], 2], [[1]])"), E::raw("(.[]? | tostream)"), E::raw("empty"), E::raw("1|truncate_stream([[0],1],[[1,0],2],[[1,0]],[[1]])")]))
                .clone(),
            _ => E::Identity,
        }
    }

    /// apply a table builtin to `cur` (adapting the input if the row needs another kind)
    fn gen_builtin(&mut self, cur: &J, d: usize) -> (E, J) {
        let te = self.type_error();
        let specific = !te && !self.u.ratio(1, 4);
        let mut rows = self.rows_for(cur, !specific);
        if te || rows.is_empty() {
            let mt = self.cfg.max_tier();
            rows = TABLE.iter().filter(|r| r.tier <= mt && !self.cfg.excluded(&format!("b:{}", r.name))).collect();
        }
        if !self.cfg.favor.is_empty() && self.u.ratio(1, 3) {
            let fav: Vec<&'static B> = rows.iter().copied().filter(|r| self.cfg.favor.iter().any(|f| f == r.name)).collect();
            if !fav.is_empty() {
                rows = fav;
            } else {
                let mt = self.cfg.max_tier();
                let all: Vec<&'static B> = TABLE.iter().filter(|r| r.tier <= mt && self.cfg.favor.iter().any(|f| f == r.name) && !self.cfg.excluded(&format!("b:{}", r.name))).collect();
                if !all.is_empty() {
                    rows = all;
                }
            }
        }
        let r = rows[self.u.below(rows.len())];
        // halting / input-consuming / chatty builtins stay rare
        if matches!(r.name, "halt" | "halt_error" | "input" | "inputs" | "debug" | "stderr" | "env" | "builtins" | "empty" | "error") && !self.u.ratio(1, 4) {
            return self.gen_path(cur);
        }
        let (pre, input): (Option<E>, J) = if te || matches_in(r.inp, cur) {
            (None, cur.clone())
        } else {
            let (e, s) = self.gen_in(cur, r.inp, d.saturating_sub(1));
            (Some(e), s)
        };
        let mut args = vec![];
        if !r.args.is_empty() {
            for code in r.args.split(';') {
                let c = code.chars().next().unwrap_or('f');
                args.push(self.arg(c, &input, d));
            }
        }
        let call = E::Call(r.name.to_string(), args);
        let s = self.out_sample(r.out, &input);
        // builtins that need a prepared input: prefer a round trip that feeds them real data
        let call = match r.name {
            "fromjson" if !te && self.u.ratio(2, 3) => E::pipe(E::call0("tojson"), call),
            "@base64d" if !te && self.u.ratio(2, 3) => E::pipe(E::call0("@base64"), call),
            "@urid" if !te && self.u.ratio(2, 3) => E::pipe(E::call0("@uri"), call),
            "from_entries" if !te && self.u.ratio(1, 2) => E::pipe(E::call0("to_entries"), call),
            "fromdate" | "fromdateiso8601" | "to_unix" if !te && self.u.ratio(2, 3) => E::pipe(E::raw("(1700000000 | todate)"), call),
            "strptime" if !te && self.u.ratio(2, 3) => E::pipe(E::raw("\"2015-03-05T23:51:47Z\""), E::call("strptime", vec![E::raw("\"%Y-%m-%dT%H:%M:%SZ\"")])),
            "mktime" if !te && self.u.ratio(2, 3) => E::pipe(E::raw("(1425599507 | gmtime)"), call),
            "bsearch" if !te && self.u.ratio(2, 3) => E::pipe(E::call0("sort"), call),
            "implode" if !te && self.u.ratio(1, 2) => E::pipe(E::raw("(tostring | explode)"), call),
            "tonumber" if !te && matches!(input, J::Str(_)) && self.u.ratio(2, 3) => E::pipe(E::raw("(length | tostring)"), call),
            "combinations" if !self.hostile() => E::pipe(E::raw(".[:3] | map(arrays | .[:3])"), E::call("limit", vec![E::raw("20"), call])),
            _ => call,
        };
        match pre {
            Some(p) => (E::pipe(p, call), s),
            None => (call, s),
        }
    }
}

impl<'a, 'b> Gen<'a, 'b> {
    fn pattern_for(&mut self, s: &J, binds: &mut Vec<(String, J)>) -> Pat {
        match s {
            J::Arr(a) if !a.is_empty() && self.ok("aspat") && self.u.ratio(2, 3) => {
                let n = self.u.range(1, a.len().min(3));
                let mut ps = vec![];
                for x in a.iter().take(n) {
                    let x = x.clone();
                    if x.is_container() && self.u.ratio(1, 3) {
                        ps.push(self.pattern_for(&x, binds));
                    } else {
                        let v = self.fresh("v");
                        binds.push((v.clone(), x));
                        ps.push(Pat::Var(v));
                    }
                }
                Pat::Arr(ps)
            }
            J::Obj(f) if !f.is_empty() && self.ok("aspat") && self.u.ratio(2, 3) => {
                let mut fs = vec![];
                let n = self.u.range(1, f.len().min(2));
                for _ in 0..n {
                    let (k, x) = f[self.u.below(f.len())].clone();
                    if is_plain_ident(&k) && self.u.ratio(1, 3) && !binds.iter().any(|b| b.0 == k) {
                        binds.push((k.clone(), x));
                        fs.push((format!("${}", k), None));
                    } else {
                        let v = self.fresh("v");
                        binds.push((v.clone(), x));
                        fs.push((k, Some(Pat::Var(v))));
                    }
                }
                Pat::Obj(fs)
            }
            _ => {
                let v = self.fresh("v");
                binds.push((v.clone(), s.clone()));
                Pat::Var(v)
            }
        }
    }

    fn gen_arith(&mut self, cur: &J, d: usize) -> (E, J) {
        let dd = d.saturating_sub(1);
        if self.type_error() {
            let (a, _) = self.gen(cur, dd);
            let (b2, _) = self.gen(cur, dd);
            return (E::bin(*self.u.pick(&["+", "-", "*", "/", "%"]), a, b2), J::Null);
        }
        match self.u.below(12) {
            0..=4 => {
                let (a, _) = self.gen_in(cur, In::Num, dd);
                let (b2, _) = self.gen_in(cur, In::Num, dd);
                let op = *self.u.pick(&["+", "-", "*", "/", "%", "+", "-"]);
                (E::bin(op, a, b2), J::int(3))
            }
            5 | 6 => {
                let (a, _) = self.gen_in(cur, In::Str, dd);
                let (b2, _) = self.gen_in(cur, In::Str, dd);
                (E::bin("+", a, b2), J::Str("ab".into()))
            }
            7 => {
                let (a, _) = self.gen_in(cur, In::Str, dd);
                if self.u.bool() {
                    let n = if self.hostile() { self.count_lit() } else { (*self.u.pick(&[E::raw("0"), E::raw("1"), E::raw("2"), E::raw("0.5"), E::Raw("-1".into(), L_UNARY, "lit"), E::raw("3")])).clone() };
                    (E::bin("*", a, n), J::Str("abab".into()))
                } else {
                    let (b2, _) = self.gen_in(cur, In::Str, dd);
                    (E::bin("/", a, b2), J::Arr(vec![J::Str("a".into())]))
                }
            }
            8 | 9 => {
                let (a, sa) = self.gen_in(cur, In::Arr, dd);
                let (b2, _) = self.gen_in(cur, In::Arr, dd);
                (E::bin(if self.u.bool() { "+" } else { "-" }, a, b2), sa)
            }
            10 => {
                let (a, sa) = self.gen_in(cur, In::Obj, dd);
                let (b2, _) = self.gen_in(cur, In::Obj, dd);
                (E::bin(if self.u.bool() { "+" } else { "*" }, a, b2), sa)
            }
            _ => {
                let (a, sa) = self.gen(cur, dd);
                if self.u.bool() {
                    (E::bin("+", E::raw("null"), a), sa)
                } else {
                    (E::bin("+", a, E::raw("null")), sa)
                }
            }
        }
    }

    fn gen_assign(&mut self, cur: &J, d: usize) -> (E, J) {
        let dd = d.saturating_sub(1);
        let (p, s) = if !self.core() && self.u.ratio(1, 8) {
            let t = (*self.u.pick(&[E::raw("(.. | numbers)"), E::raw(".[]?"), E::raw("(.[]? | select(. != null))"), E::raw("(.a, .b)"), E::raw(".[0]?"), E::raw("first(.[]?)"), E::raw("(.[]? | .[]?)")])).clone();
            (t, J::Null)
        } else {
            self.gen_path(cur)
        };
        if matches!(p, E::Identity) && self.u.bool() {
            return self.gen_path(cur);
        }
        let op = *self.u.pick(&["=", "|=", "+=", "-=", "*=", "/=", "%=", "//=", "=", "|="]);
        let rhs = match op {
            "|=" => {
                if d == 0 {
                    self.leaf(&s).0
                } else {
                    self.gen(&s, dd).0
                }
            }
            "+=" => match kind_of(&s) {
                K::Str => self.lit_of(K::Str),
                K::Arr => self.lit_of(K::Arr),
                K::Obj => self.lit_of(K::Obj),
                _ => self.num_lit(),
            },
            "-=" | "*=" | "/=" | "%=" => {
                if self.type_error() {
                    self.lit_of(K::Any)
                } else {
                    self.num_lit()
                }
            }
            _ => {
                if self.u.ratio(1, 3) && d > 0 {
                    self.gen(cur, dd).0
                } else {
                    self.lit_of(K::Any)
                }
            }
        };
        (E::Assign(op, Box::new(p), Box::new(rhs)), cur.clone())
    }

    fn gen_object(&mut self, cur: &J, d: usize) -> (E, J) {
        let dd = d.saturating_sub(1);
        let n = self.u.range(0, 3);
        let mut fs = vec![];
        let mut sample = vec![];
        for _ in 0..n {
            let form = self.u.below(10);
            match form {
                0 if matches!(cur, J::Obj(_) | J::Null) => {
                    // {a} shorthand
                    let k = match cur {
                        J::Obj(f) if !f.is_empty() => f[self.u.below(f.len())].0.clone(),
                        _ => "a".to_string(),
                    };
                    let v = lookup(cur, &k).cloned().unwrap_or(J::Null);
                    if is_plain_ident(&k) {
                        fs.push((OKey::Ident(k.clone()), None));
                    } else {
                        fs.push((OKey::Str(k.clone()), None));
                    }
                    sample.push((k, v));
                }
                1 if !self.vars.is_empty() => {
                    let i = self.u.below(self.vars.len());
                    let (n, v) = self.vars[i].clone();
                    fs.push((OKey::Var(n.clone()), None));
                    sample.push((n, v));
                }
                2 if !self.core() => {
                    let (ke, _) = self.gen_in(cur, In::Str, dd);
                    let (v, sv) = self.gen(cur, dd);
                    fs.push((OKey::Expr(ke), Some(v)));
                    sample.push(("k".into(), sv));
                }
                3 => {
                    let k = self.some_string();
                    let (v, sv) = self.gen(cur, dd);
                    fs.push((OKey::Str(k.clone()), Some(v)));
                    sample.push((k, sv));
                }
                _ => {
                    let k = (*self.u.pick(&["a", "b", "c", "key", "value", "x"])).to_string();
                    let (v, sv) = self.gen(cur, dd);
                    fs.push((OKey::Ident(k.clone()), Some(v)));
                    sample.push((k, sv));
                }
            }
        }
        (E::Obj(fs), J::Obj(sample))
    }

    fn gen_fold(&mut self, cur: &J, d: usize, foreach: bool) -> (E, J) {
        let dd = d.saturating_sub(1);
        let (src, es) = self.bounded_gen(cur, dd);
        let mut binds = vec![];
        let pat = self.pattern_for(&es, &mut binds);
        let k0 = *self.u.pick(&[K::Num, K::Num, K::Str, K::Arr, K::Obj, K::Null]);
        let init = match k0 {
            K::Num => E::raw("0"),
            K::Str => E::raw("\"\""),
            K::Arr => E::Arr(None),
            K::Obj => E::Obj(vec![]),
            _ => E::raw("null"),
        };
        let nv = self.vars.len();
        self.vars.extend(binds.clone());
        let v0 = binds.first().map(|b| b.0.clone()).unwrap_or_else(|| "v".into());
        let acc = rep_of(k0);
        let upd = if self.u.ratio(1, 2) {
            let t = match k0 {
                K::Num => format!(". + (${} | length? // 1)", v0),
                K::Str => format!(". + (${} | tostring)", v0),
                K::Arr => format!(". + [${}]", v0),
                K::Obj => format!(". + {{(${} | tostring): ${}}}", v0, v0),
                _ => format!("[., ${}]", v0),
            };
            E::Raw(t, L_ADD, "fold-template")
        } else if d > 0 {
            self.gen(&acc, dd).0
        } else {
            self.leaf(&acc).0
        };
        let ext = if foreach && self.u.bool() {
            Some(Box::new(if self.u.bool() { E::Raw(format!("[., ${}]", v0), L_TERM, "fold-template") } else { self.leaf(&acc).0 }))
        } else {
            None
        };
        self.vars.truncate(nv);
        if foreach {
            (E::Foreach(Box::new(src), pat, Box::new(init), Box::new(upd), ext), acc)
        } else {
            (E::Reduce(Box::new(src), pat, Box::new(init), Box::new(upd)), acc)
        }
    }

    /// The generator proper: an expression applied to `cur`, with a representative of its output.
    fn gen(&mut self, cur: &J, d: usize) -> (E, J) {
        self.budget -= 1;
        if d == 0 || self.budget <= 0 {
            return self.leaf(cur);
        }
        let dd = d - 1;
        let core = self.core();
        // weights
        let w: [u32; 24] = [
            10, // 0 path
            14, // 1 pipe
            5,  // 2 comma
            16, // 3 builtin
            7,  // 4 arithmetic
            4,  // 5 comparison / logic
            3,  // 6 alternative
            5,  // 7 array construction
            4,  // 8 object construction
            if self.ok("interp") { 3 } else { 0 },
            if self.ok("if") { 4 } else { 0 },
            if self.ok("try") { 4 } else { 0 },
            if self.ok("reduce") { 3 } else { 0 },
            if self.ok("foreach") { 2 } else { 0 },
            if self.ok("label") { 2 } else { 0 },
            if self.ok("as") { 4 } else { 0 },
            if self.ok("def") { 3 } else { 0 },
            if self.ok("assign") { 6 } else { 0 },
            3, // 18 bounded generator forms
            2, // 19 leaf
            if self.ok("opt") { 2 } else { 0 },
            2, // 21 `..` forms
            if core { 0 } else { 2 }, // 22 special variables / misc
            2, // 23 negate
        ];
        match self.u.weighted(&w) {
            0 => self.gen_path(cur),
            1 => {
                let (a, s1) = self.gen(cur, dd);
                let (b2, s2) = self.gen(&s1, dd);
                (E::pipe(a, b2), s2)
            }
            2 => {
                let (a, s1) = self.gen(cur, dd);
                let (b2, _) = self.gen(cur, dd);
                (E::Comma(Box::new(a), Box::new(b2)), s1)
            }
            3 => self.gen_builtin(cur, d),
            4 => self.gen_arith(cur, d),
            5 => (self.gen_cond(cur, d), J::Bool(true)),
            6 => {
                let (a, s1) = self.gen(cur, dd);
                let (b2, _) = if self.u.bool() { self.gen(cur, dd) } else { self.leaf(cur) };
                (E::bin("//", a, b2), s1)
            }
            7 => {
                if self.u.ratio(1, 8) {
                    return (E::Arr(None), J::Arr(vec![]));
                }
                let (a, s) = if self.u.bool() { self.bounded_gen(cur, dd) } else { self.gen(cur, dd) };
                (E::Arr(Some(Box::new(a))), J::Arr(vec![s]))
            }
            8 => self.gen_object(cur, d),
            9 => {
                let n = self.u.range(1, 3);
                let mut parts = vec![];
                for _ in 0..n {
                    if self.u.bool() {
                        parts.push(SPart::Lit(self.some_string()));
                    }
                    let (e, _) = self.gen(cur, dd);
                    parts.push(SPart::Interp(e));
                }
                (E::Str(None, parts), J::Str("ab".into()))
            }
            10 => {
                let mut arms = vec![];
                let n = if self.u.ratio(1, 4) { 2 } else { 1 };
                let mut s = J::Null;
                for _ in 0..n {
                    let c = self.gen_cond(cur, dd);
                    let (t, st) = self.gen(cur, dd);
                    s = st;
                    arms.push((c, t));
                }
                let els = if core || !self.u.ratio(1, 5) { Some(Box::new(self.gen(cur, dd).0)) } else { None };
                (E::If(arms, els), s)
            }
            11 => {
                let (a, s) = self.gen(cur, dd);
                if self.u.ratio(1, 3) {
                    (E::Try(Box::new(a), None), s)
                } else {
                    let c = match self.u.below(4) {
                        0 => E::Identity,
                        1 => E::raw("\"caught\""),
                        2 => E::raw("(. | tostring | length)"),
                        _ => self.leaf(&J::Str("err".into())).0,
                    };
                    // make the body fail sometimes
                    let body = if self.u.ratio(1, 3) { E::pipe(a, E::call("error", vec![self.lit_of(K::Any)])) } else { a };
                    (E::Try(Box::new(body), Some(Box::new(c))), s)
                }
            }
            12 => self.gen_fold(cur, d, false),
            13 => self.gen_fold(cur, d, true),
            14 => {
                let l = self.fresh("L");
                self.labels.push(l.clone());
                let (src, es) = self.bounded_gen(cur, dd);
                let c = self.gen_cond(&es, dd.saturating_sub(1));
                let body = match self.u.below(3) {
                    0 => E::pipe(src, E::If(vec![(c, E::Break(l.clone()))], Some(Box::new(E::Identity)))),
                    1 => E::pipe(src, E::If(vec![(c, E::Comma(Box::new(E::Identity), Box::new(E::Break(l.clone()))))], Some(Box::new(E::Identity)))),
                    _ => E::Comma(Box::new(src), Box::new(E::Comma(Box::new(E::Break(l.clone())), Box::new(E::raw("\"unreachable\""))))),
                };
                self.labels.pop();
                (E::Label(l, Box::new(body)), es)
            }
            15 => {
                let (src, s) = if self.u.ratio(1, 3) { self.bounded_gen(cur, dd) } else { self.gen(cur, dd) };
                let mut binds = vec![];
                let mut pats = vec![self.pattern_for(&s, &mut binds)];
                if !core && self.ok("altpat") && self.u.ratio(1, 8) {
                    // ?// alternative: all alternatives bind the same variable set here (first pattern's names)
                    let v = self.fresh("v");
                    binds.push((v.clone(), s.clone()));
                    pats.push(Pat::Var(v));
                }
                let nv = self.vars.len();
                self.vars.extend(binds.clone());
                let (body, sb) = self.gen(cur, dd);
                // make sure a bound variable is used
                let vn = binds[self.u.below(binds.len())].0.clone();
                let body = match self.u.below(3) {
                    0 => E::Comma(Box::new(E::Var(vn)), Box::new(body)),
                    1 => E::Arr(Some(Box::new(E::Comma(Box::new(body), Box::new(E::Var(vn)))))),
                    _ => body,
                };
                self.vars.truncate(nv);
                (E::As(Box::new(src), pats, Box::new(body)), sb)
            }
            16 => {
                let name = self.fresh("f");
                let form = self.u.below(3);
                let nf = self.funcs.len();
                let nv = self.vars.len();
                let (params, body): (Vec<String>, E) = match form {
                    0 => (vec![], self.gen(cur, dd).0),
                    1 => {
                        // filter parameter
                        self.funcs.push(("g".into(), 0));
                        let b0 = self.gen(cur, dd).0;
                        self.funcs.truncate(nf);
                        let b1 = match self.u.below(3) {
                            0 => E::pipe(E::call0("g"), b0),
                            1 => E::Arr(Some(Box::new(E::Comma(Box::new(E::call0("g")), Box::new(b0))))),
                            _ => E::call("map", vec![E::call0("g")]),
                        };
                        (vec!["g".into()], b1)
                    }
                    _ => {
                        self.vars.push(("a".into(), J::int(1)));
                        let b0 = self.gen(cur, dd).0;
                        self.vars.truncate(nv);
                        (vec!["$a".into()], E::Comma(Box::new(E::Var("a".into())), Box::new(b0)))
                    }
                };
                self.funcs.push((name.clone(), if params.is_empty() { 0 } else { 1 }));
                let (rest, sr) = self.gen(cur, dd);
                self.funcs.truncate(nf);
                let callargs = if params.is_empty() { vec![] } else { vec![self.leaf(cur).0] };
                let rest = E::pipe(rest, E::Call(name.clone(), callargs));
                (E::Def(name, params, Box::new(body), Box::new(rest)), sr)
            }
            17 => {
                if self.u.ratio(1, 4) {
                    let p = self.arg('p', cur, d);
                    (E::call("del", vec![p]), cur.clone())
                } else {
                    self.gen_assign(cur, d)
                }
            }
            18 => self.bounded_gen(cur, dd),
            19 => self.leaf(cur),
            20 => {
                let (a, s) = self.gen(cur, dd);
                (E::Opt(Box::new(a)), s)
            }
            21 => {
                let t = match self.u.below(4) {
                    0 => E::RecDescent,
                    1 => E::pipe(E::RecDescent, E::call0(*self.u.pick(&["numbers", "strings", "scalars", "arrays", "objects"]))),
                    2 => E::Arr(Some(Box::new(E::RecDescent))),
                    _ => E::pipe(E::RecDescent, E::Path(Box::new(E::Identity), vec![Step::Iter, Step::Opt])),
                };
                (t, cur.clone())
            }
            22 => {
                let t = *self.u.pick(&["$__loc__", "$ENV.HOME", "$ENV | type", "env | type", "$__loc__.line", "input_line_number", "[splits(\"a\")?]", "ltrimstr(\"a\")", "getpath([\"a\", 0])", "[.[]?] | length", "tojson | fromjson", "[paths] | length", "to_entries?", "ascii?", "@base32?", "error(null)?", "try error catch .", "[limit(3; .[]?)]", ". as [$a] ?// $a | $a", ". as {a: $x} ?// [$x] | $x", "try (1 / 0) catch .", "[.[]? | numbers] | add / length?", "halt_error?", "$__prog_args?"]);
                (E::Raw(t.into(), L_PIPE, "misc-template"), J::Null)
            }
            _ => {
                let (a, _) = self.gen_in(cur, In::Num, dd);
                (E::Neg(Box::new(a)), J::int(-3))
            }
        }
    }
}

// ---------------------------------------------------------------- hostile families (C30)

/// Token alphabet of the soups (jq lexemes, keywords, a spread of builtin names, extreme literals).
pub const TOKENS: &[&str] = &[
    ".", "..", ".[", "[", "]", "{", "}", "(", ")", "|", ",", ":", ";", "?", "?//", "//", "//=", "=", "|=", "+=", "-=", "*=", "/=", "%=", "==", "!=", "<", "<=", ">", ">=", "+", "-", "*", "/", "%",
    "and", "or", "not", "if", "then", "elif", "else", "end", "try", "catch", "reduce", "foreach", "as", "def", "label", "break", "import", "include", "module", "$x", "$__loc__", "$ENV", "$",
    "\"", "\"a\"", "\"\\(", "\\(", "\\", "@", "@base64", "@base64d", "@json", "@csv", "@sh", "@text", "@uri", "@html", "@tsv", "@dsv(", "@nope", ".a", ".\"a\"", ".[0]", ".[]", ".[1:2]", ".[:]",
    ".a.b", ".a[]?", "0", "1", "-1", "1e1000", "1e-1000", "nan", "infinite", "1e19", "-0", "9007199254740993", "0x10", "1.", ".5", "1e", "1e+", "00", "1_000", "null", "true", "false",
    "empty", "error", "length", "keys", "map(", "select(", "recurse", "range(", "limit(", "first(", "until(", "while(", "repeat(", "input", "inputs", "debug", "stderr", "halt", "halt_error", "env",
    "path(", "paths", "getpath(", "setpath(", "delpaths(", "del(", "to_entries", "from_entries", "with_entries(", "tojson", "fromjson", "tostring", "tonumber", "ascii_downcase", "explode",
    "implode", "ltrimstr(", "split(", "join(", "test(", "match(", "capture(", "scan(", "sub(", "gsub(", "splits(", "ascii", "todate", "fromdate", "mktime", "gmtime", "strftime(", "strptime(",
    "now", "sort", "sort_by(", "group_by(", "unique", "min", "max", "add", "any", "all", "flatten", "transpose", "tostream", "fromstream(", "truncate_stream(", "walk(", "indices(", "index(",
    "has(", "in(", "inside(", "contains(", "combinations", "IN(", "INDEX(", "ltrimstr", "splits", "getpath", "f", "f(", "g(.)", "#", "# comment\n", "\n", "\t", " ", "\u{0}", "\u{7f}", "é", "😀",
    "\u{2028}", "\u{feff}", "\u{a0}", "$é", ".é", "`", "'", "~", "^", "&", "!", "::", "f::g", "$__prog_args", "..a", "...", ".[]=", "?.", "??", "|=empty", "as $x|", "as [$a,{b:$c}]|", "reduce . as $x (",
    "foreach . as $x (", "label $l|", "break $l", "def f: ", "def f(g): ", "def f($a; $b): ", ";f", "if . then", "try error", "catch .", "limit(1e1000;", "range(1e1000)", "\"\\u", "\"\\ud800\"",
    "\"\\udc00\\ud800\"", "\"\\x\"", "\"\\(\"\\(1)\")\"", "@base64 \"\\(.)\"", "{a:1}", "{(.):1}", "{$x}", "{$__loc__}", "{\"a\\(1)\":2}", "{a}", "{@base64:1}", "{1:2}", "[.[]|.]", "tag", "line",
    "at_offset(", "load(", "strenv(", "pick(", "omit(", "getpath(1e1000)", "ltrimstr(nan)",
];

/// Snippets with extreme operands (DESIGN §4 C30 / the hostile list): each is a complete filter.
pub const HOSTILE_SNIPPETS: &[&str] = &[
    "\"x\" * 1e15", "\"abc\" * 1e18", ". * 1e18", "\"x\" * nan", "\"x\" * infinite", "\"x\" * -1", "\"x\" * 0.5", "\"x\" * 1e1000", "\"\" * 1e18", "[limit(3; repeat(1))]", "(tostring) * 1e5 | length",
    "ltrimstr(1e1000)", "[1114112, -1, 1e18, 55296, nan, infinite, 1.5] | implode", "[1e19] | implode", "[-1e19] | implode", "[[1]] | implode", "[\"a\"] | implode", "[splits(\"\")]", "[splits(\"\"; \"g\")]",
    "tojson | tojson | tojson | tojson | tojson | tojson | tojson | tojson", "reduce range(300) as $i (.; [.]) | tojson", "reduce range(400) as $i (.; {a: .}) | tostring | length", "reduce range(1000) as $i (.; [.]) | length",
    "reduce range(300) as $i (.; [.]) | [paths] | length", "reduce range(300) as $i (.; [.]) | flatten", "reduce range(300) as $i (.; [.]) | [..] | length", "reduce range(300) as $i (.; [.]) | . == .",
    "reduce range(300) as $i (.; [.]) | walk(.)", "reduce range(300) as $i (.; [.]) | [tostream] | length", "reduce range(300) as $i (.; [.]) | @json | length", "reduce range(300) as $i (.; [.]) | @text | length",
    "reduce range(300) as $i (.; [.]) | [.] | sort", "reduce range(300) as $i (.; {a: .}) | . * .", "reduce range(300) as $i (.; [.]) | contains(.)", "reduce range(300) as $i (.; [.]) | [leaf_paths]",
    "reduce range(300) as $i (.; [.]) | del(..)", "reduce range(300) as $i (.; [.]) | .. |= .", "reduce range(300) as $i (.; [.]) | getpath([range(300)|0])", "reduce range(300) as $i (.; [.]) | @yaml",
    "reduce range(300) as $i (.; [.]) | @props", "reduce range(300) as $i (.; [.]) | unique", "reduce range(300) as $i (.; [.]) | [.,.] | group_by(.)", "reduce range(300) as $i (.; [.]) | tojson | fromjson | length",
    "(\"[\" * 1e5) | fromjson", "(\"[\" * 300 + \"]\" * 300) | fromjson | length", "(\"[\" * 1e5 + \"]\" * 1e5) | fromjson", "(\"{\\\"a\\\":\" * 1e5) | fromjson", "(\"[\" * 1e5) | try fromjson catch \"e\"", "(\"[\" * 1e5) | tonumber", "(\"[\" * 1e5) | try tonumber catch \"e\"",
    "(\"-\" * 1e5 + \"1\") | tonumber", "(\"9\" * 400) | tonumber", "(\"1\" * 1e5) | tonumber", "\"1e1000\" | tonumber", "\"0x10\" | tonumber", "\"-\" | tonumber", "\" 1 \" | tonumber", "\"nan\" | tonumber", "\"1e\" | tonumber",
    "getpath([1e18])", "getpath([-1e18])", "getpath([nan])", "getpath([\"a\", 1e18, \"b\"])", "[range(1e5)] as $p | getpath($p)", "setpath([1e18]; 1)", "setpath([1e15]; 1)", "setpath([-1]; 1)", "setpath([nan]; 1)",
    "setpath([infinite]; 1)", "setpath([1e1000]; 1)", "setpath([0, 1e18]; 1)", "setpath([{\"start\": 1e18, \"end\": 1e19}]; [1])", "setpath([{\"start\": 0, \"end\": 1e18}]; [1])", "setpath([{\"start\": 1e15}]; [1])",
    ".[1e18] = 1", ".[1e15] = 1", "[.[]?] | .[1e18] = 1", "[] | .[1e18] |= 1", "null | .[1e15] = 1", "[1] | .[1e15:] = [2]", "[1] | .[:1e18] = [2]", "[1] | .[1e15:1e18] = [2]", "[1] | .[-1e18:] = [2]", "[1] | .[nan:] = [2]",
    "[1] | .[1e18] += 1", "[1] | .[1e18] //= 1", "[1] | del(.[1e18])", "[1] | del(.[1e15:])", "[1] | delpaths([[1e18]])", "[1,2,3] | .[1e18:]", "[1,2,3] | .[:1e18]", "[1,2,3] | .[nan:nan]", "[1,2,3] | .[infinite:]",
    "[1,2,3] | .[:-infinite]", "\"abc\" | .[1e18:]", "\"abc\" | .[-1e18:1e18]", "\"abc\" | .[nan:]", "[1,2,3] | .[1e19]", "[1,2,3] | .[-1e19]", "[1,2,3] | .[1.5:2.5]", "range(0; 1e18; 1e17)", "range(1e18; 0; -1e17)",
    "[limit(3; range(infinite))]", "[limit(3; range(0; infinite; 1e300))]", "[range(nan)]", "[range(0; nan)]", "[range(5; 0)]", "[range(0; 5; -1)]", "[limit(3; range(-infinite; 0))]", "[range(0; 1; 0.3)]", "[range(-0; 1e-1000)]",
    "\"!!!!\" | @base64d", "\"=\" | @base64d", "\"A\" | @base64d", "\"AA=A\" | @base64d", "\"/w==\" | @base64d", "\"gICA\" | @base64d", "(\"A\" * 1e5) | @base64d | length", "\"%\" | @urid", "\"%zz\" | @urid", "\"%ff%fe\" | @urid",
    "\"%c0%80\" | @urid", "\"%\" * 1e5 | @urid", "@base64d", "@urid", "@uri", "@csv", "@tsv", "@sh", "@html", "@json", "@text", "@yaml", "@props", "[[1]] | @csv", "[{}] | @tsv", "[[]] | @sh", "{} | @sh", "[nan, infinite, -infinite, 1e1000] | @csv",
    "\"{\" | fromjson", "\"[1,\" | fromjson", "\"nan\" | fromjson", "\"NaN\" | fromjson", "\"1e1000\" | fromjson", "\"\\\"\\\\ud800\\\"\" | fromjson", "\"\" | fromjson", "\" \" | fromjson", "\"1 2\" | fromjson", "\"[1e1000, -1e1000, 1e-1000]\" | fromjson",
    "\"\\\"\\\\u0000\\\"\" | fromjson", "\"{\\\"a\\\":1,\\\"a\\\":2}\" | fromjson", "\"tru\" | fromjson", "\"'a'\" | fromjson", "\"\\ufeff1\" | fromjson", "\"[1,]\" | fromjson", "\"{\\\"a\\\"}\" | fromjson", "\"-\" | fromjson", "\"01\" | fromjson",
    "error(null)", "error", "error(nan)", "error(infinite)", "error({})", "error([[]])", "error(\"\\u0000\")", "try error(null) catch .", "try error catch .", "error(error(1))", "try error(\"x\" * 1e5) catch length",
    "input", "[inputs]", "first(inputs)", "input_line_number", "$ENV | length", "env | keys | length", "$ENV.PATH", "env.HOME", "$__loc__", "$__prog_args", "halt", "halt_error", "halt_error(1e18)", "halt_error(-1)", "halt_error(nan)",
    "halt_error(\"x\")", "{} | halt_error", "\"bye\" | halt_error(0)", "getpath([\"a\",\"b\"])", "[paths]", "[paths(..)]", "[leaf_paths]", "paths(error)", "[paths(type == \"number\")]", "[limit(-1; 1, 2)]", "[limit(0; error)]", "[limit(nan; 1, 2)]",
    "[limit(infinite; 1, 2)]", "[limit(1e1000; 1, 2)]", "[limit(1.5; 1, 2, 3)]", "[limit(1; 1, error)]", "first(empty)", "[first(empty)]", "last(empty)", "nth(0; empty)", "nth(-1; 1, 2)", "nth(1e18; 1, 2)", "nth(nan; 1, 2)", "[skip(1e18; 1, 2)]",
    "[skip(-1; 1, 2)]", "[.[]?] | first", "[] | last", "[] | nth(5)", "[] | nth(-1)", "indices(\"\")", "\"abc\" | indices(\"\")", "[1,2] | indices([])", "[1,2] | indices(1e1000)", "\"abc\" | index(\"\")", "\"abc\" | rindex(\"\")", "[] | index([])",
    "\"aaa\" | indices(\"aa\")", "\"a\" * 1e5 | indices(\"a\") | length", "sub(\"\"; \"x\")", "\"abc\" | sub(\"\"; \"x\")", "\"abc\" | gsub(\"\"; \"x\")", "\"abc\" | gsub(\"\"; \"\"; \"g\")", "\"abc\" | gsub(\"(?<x>)\"; \"\\(.x)\")", "\"abc\" | [match(\"\"; \"g\")] | length",
    "\"abc\" | sub(\"(?<x>b)\"; .x, .x + \"!\")", "\"abc\" | gsub(\"b\"; empty)", "\"abc\" | sub(\"b\"; error)", "\"abc\" | gsub(\".\"; \"\\(.)\\(.)\") ", "\"abc\" | test(\"(\")", "\"abc\" | test(\"[\")", "\"abc\" | test(\"a{99999}\")", "\"abc\" | test(\"a\"; \"q\")",
    "\"abc\" | test(\"a\"; null)", "\"abc\" | test(null)", "\"abc\" | test([\"a\", \"i\"])", "\"abc\" | test([\"a\"])", "\"abc\" | test([])", "\"abc\" | test(\"\\\\p{Foo}\")", "\"abc\" | match(\"(?<a>.)(?<a>.)\")", "\"aé😀\" | [match(\".\"; \"g\") | .offset]",
    "\"aé😀\" | [scan(\"\")] | length", "\"abc\" | capture(\"(?<x>z)?\")", "\"abc\" | [splits(\"\"; null)]", "\"abc\" | split(\"\"; \"g\")", "\"abc\" | split(\"\")", "\"\" | split(\"\")", "\"abc\" | ascii_downcase", "ascii_downcase", "ascii_upcase", "ascii",
    "65 | ascii", "[65] | implode", "explode", "implode", "ltrimstr(\"a\")", "rtrimstr(1)", "startswith(null)", "endswith([])", "trim", "ltrim", "rtrim", "\"\\u0000 \\u00a0x\" | trim", "join(\",\")", "[1, null, \"a\", true] | join(\",\")", "[[1]] | join(\",\")",
    "[{}] | join(\"\")", "[\"a\"] | join(1)", "[\"a\", \"b\"] | join(null)", "[] | join(nan)", "1e18 | todate", "-1e18 | todate", "infinite | todate", "nan | todate", "1e1000 | todate", "253402300800 | todate", "-62167219201 | todate", "\"x\" | todate",
    "\"x\" | fromdate", "\"\" | fromdate", "\"9999-99-99T99:99:99Z\" | fromdate", "\"2015-03-05T23:51:47Z\" | fromdate", "\"10000-01-01T00:00:00Z\" | fromdate", "\"-0001-01-01T00:00:00Z\" | fromdate", "\"x\" | fromdateiso8601", "1e18 | todateiso8601",
    "\"garbage\" | mktime", "[] | mktime", "[1e18, 0, 0, 0, 0, 0, 0, 0] | mktime", "[nan, nan, nan, nan, nan, nan, nan, nan] | mktime", "[infinite, 0, 1, 0, 0, 0, 0, 0] | mktime", "[2024, 1e18, 1, 0, 0, 0, 0, 0] | mktime", "[2024, 0, 1, 0, 0, 1e18, 0, 0] | mktime",
    "[2024, -1, -1, -1, -1, -1, 0, 0] | mktime", "[2024, 0] | mktime", "[\"a\", 0, 1, 0, 0, 0, 0, 0] | mktime", "[2024, 0.5, 1.5, 0, 0, 0.9, 0, 0] | mktime", "[-1e18, 0, 1, 0, 0, 0, 0, 0] | mktime", "[292277026596, 0, 1, 0, 0, 0, 0, 0] | mktime",
    "1e18 | gmtime", "-1e18 | gmtime", "nan | gmtime", "infinite | gmtime", "1e1000 | gmtime", "0.999999 | gmtime", "-0.5 | gmtime", "1e18 | localtime", "nan | localtime", "0 | strftime(\"%\")", "0 | strftime(\"%Q\")", "0 | strftime(\"%1000d\")", "0 | strftime(\"%%%\")",
    "0 | strftime(\"%-d %_d %0d %^a %#Z\")", "0 | strftime(\"%:z %::z %:::z\")", "0 | strftime(\"%N %f %3f %9f %.3f\")", "0 | strftime(\"%E %O %Ey %Od\")", "0 | strftime(\"\")", "0 | strftime(1)", "0 | strftime(null)", "0 | strftime(\"%c %x %X %+ %s\")",
    "1e18 | strftime(\"%Y\")", "nan | strftime(\"%Y\")", "[1e18, 0, 1, 0, 0, 0, 0, 0] | strftime(\"%Y %j %a\")", "[2024, 13, 32, 25, 61, 61, 8, 400] | strftime(\"%c\")", "[2024, -1, 0, 0, 0, 0, -1, -1] | strftime(\"%a %b %j\")", "[] | strftime(\"%Y\")",
    "[2024] | strftime(\"%Y\")", "\"x\" | strftime(\"%Y\")", "\"x\" | strptime(\"%Y\")", "\"2024\" | strptime(\"%\")", "\"2024\" | strptime(\"%Q\")", "\"2024\" | strptime(\"\")", "\"\" | strptime(\"\")", "\"2024-02-30\" | strptime(\"%Y-%m-%d\")", "\"99999999999\" | strptime(\"%s\")",
    "\"2024\" | strptime(1)", "1 | strptime(\"%Y\")", "\"12\" | strptime(\"%H\") | mktime", "\"Thu\" | strptime(\"%a\")", "\"2024-01-01T00:00:00+9999\" | strptime(\"%Y-%m-%dT%H:%M:%S%z\")", "\"1\" | strptime(\"%j\") | mktime", "now | type", "now | todate | length",
    "tojson | fromjson", "[tojson | fromjson] | tojson | fromjson", "tostring | tostring | tostring", "tonumber", "tojson | tonumber", "[.[]? | tojson | fromjson]", "tostream", "[tostream] | fromstream(.[])", "fromstream(1)", "fromstream([[0], 1], [[0]])",
    "fromstream([[\"a\", 1e18], 1], [[\"a\", 1e18]])", "fromstream([[1e15], 1], [[1e15]])", "fromstream([[], 1])", "fromstream([[nan], 1], [[nan]])", "fromstream([[-1], 1], [[-1]])", "[1 | truncate_stream([[0], 1], [[1, 0], 2], [[1, 0]], [[1]])]",
    "1e18 | truncate_stream([[0], 1])", "-1 | truncate_stream([[0], 1])", "nan | truncate_stream([[0, 1], 1])", "\"a\" | truncate_stream([[0, 1], 1])", "pow(10; 1000)", "pow(-1; 0.5)", "pow(0; -1)", "pow(nan; 0)", "pow(infinite; 0)", "pow(2; 1e1000)", "0 | log",
    "-1 | log", "-1 | sqrt", "1e3 | exp10", "1e4 | exp", "1e1000 - 1e1000", "infinite % 1", "1 % infinite", "5 % 0", "5 % 0.4", "5 % -0.4", "5 % nan", "nan % 5", "5 % 1e19", "1e19 % 5", "-9223372036854775808 % -1", "-9223372036854775808 / -1", "9223372036854775807 + 1",
    "-(-9223372036854775808)", "-9223372036854775808 | abs", "-9223372036854775808 | fabs", "-9223372036854775808 | length", "9223372036854775807 * 2", "-9223372036854775808 - 1", "9223372036854775807 * 9223372036854775807", "-9223372036854775808 * -1",
    "9223372036854775807 | . + 1 | . - 1", "9223372036854775807 | floor", "9223372036854775807 | tostring", "9223372036854775808 | tojson", "-9223372036854775809 | tojson", "18446744073709551616 | . % 2", "1e19 | floor | tostring", "nan < nan", "[nan] | sort",
    "[nan, 1] | min", "[nan, nan] | unique", "[nan, 1, nan] | group_by(.)", "nan | tostring", "infinite | tojson", "[infinite, -infinite, nan] | tojson", "infinite | floor", "nan | floor | tostring", "infinite | trunc", "nan | round", "infinite | ceil | tostring",
    "nan | abs", "-0 | tostring", "-0 | tojson", "[-0] | tojson", "0 * -1 | tojson", "-0.0 | @text", "1e1000 | tojson", "-1e1000 | tostring", "1e-1000 | tojson", "9007199254740993 | tojson", "9007199254740993 | . + 0 | tojson", "100000000000000000000 | tojson",
    "[9007199254740993] | .[0] == 9007199254740992", "1e1000 == infinite", "5e-324 / 2", "5e-324 | tojson", "1.7976931348623157e308 * 10 | tojson", "0.1 + 0.2 | tojson", "1 / 3 | tojson", "1e17 | tojson", "1e-5 | tojson", "123456789012 | tojson", "1.0 | tojson",
    "1.000 | tojson", "1e0 | tojson", "\"abc\" / \"\"", "\"\" / \"\"", "\"abc\" / \"abc\"", "\"a\" / 1", "1 / 0", "0 / 0", "1 / -0", "1e1000 / 1e1000", "[1] - [1e1000]", "{} * {}", "{\"a\": {\"b\": 1}} * {\"a\": {\"b\": null}}", "{\"a\": 1} * 2", "[1] * 2", "null * null",
    "null + null", "null - null", "{} - {}", "\"a\" - \"a\"", "[] / []", "{} % {}", "true + true", "-\"a\"", "-[]", "-null", "-{}", "- - - 1", "1 - -1", "[1, [2]] | flatten(-1)", "[1, [2]] | flatten(nan)", "[1, [2]] | flatten(1e18)", "[1, [2]] | flatten(infinite)",
    "[1, [2]] | flatten(\"a\")", "[1, [2]] | flatten(1.5)", "[[1], [range(1e5)]] | transpose | length", "[[], [1e18]] | transpose", "[1, 2] | transpose", "[[1], 2] | transpose", "[{}] | transpose", "[[1, 2], [3]] | [combinations]", "[[], [1]] | [combinations]", "[1, 2] | [combinations]",
    "[1, 2] | [combinations(0)]", "[1, 2] | [combinations(-1)]", "[1, 2] | [limit(3; combinations(1e18))]", "[1, 2] | [combinations(nan)]", "[1, 2] | [combinations(1.5)]", "[[1, 2]] | [combinations(2)]", "[] | [combinations]", "[[]] | [combinations]",
    "walk(1e1000)", "walk(empty)", "walk(error)", "walk(.[]?)", "walk(input)", "[.[]?] | walk(if type == \"array\" then sort else . end)", "to_entries", "from_entries", "[[1, 2]] | from_entries", "[{\"key\": null}] | from_entries", "[{\"key\": 1e1000, \"value\": 1}] | from_entries",
    "[{\"key\": true}] | from_entries", "[{\"k\": \"a\", \"v\": 1}] | from_entries", "[null] | from_entries", "with_entries(empty)", "with_entries(.key |= 1)", "with_entries(., .)", "{\"a\": 1} | with_entries(.value = error)", "[1, 2] | with_entries(.)", "{} | keys | .[0]",
    "keys", "keys_unsorted", "values", "length", "utf8bytelength", "not", "type", "add", "any", "all", "min", "max", "unique", "sort", "reverse", "\"abc\" | reverse", "null | reverse", "1 | reverse", "{} | reverse", "floor", "sqrt", "tojson", "tostring", "has(\"a\")", "has(0)",
    "has(1e18)", "has(-1)", "has(nan)", "has(null)", "has(1.5)", "[1] | has(0.5)", "in({})", "in([])", "\"a\" | in([1])", "1e18 | in([1])", "inside(\"abc\")", "contains(\"\")", "\"a\\u0000b\" | contains(\"b\")", "\"abc\" | contains(\"\\u0000\")", "[\"abc\"] | contains([\"b\"])",
    "{\"a\": [1, {\"b\": 2}]} | contains({\"a\": [{\"b\": 2}]})", "1 | contains(\"a\")", "[] | contains({})", "bsearch(1)", "[1, 2, 3] | bsearch(nan)", "[3, 1, 2] | bsearch(2)", "[] | bsearch(null)", "\"a\" | bsearch(1)", "[1] | bsearch(1e1000)", "[range(1e5)] | bsearch(99999)",
    "group_by(.)", "[1, \"a\", null, [], {}] | group_by(type)", "[1, 2] | group_by(error)", "[1, 2] | group_by(empty)", "[1, 2] | group_by(., .)", "[1, 2] | sort_by(empty)", "[1, 2] | sort_by(., -.)", "[1, 2] | sort_by(error)", "[1, 2] | unique_by(empty)", "[1, 2] | min_by(empty)",
    "[1, 2] | max_by(., .)", "{\"a\": 1} | sort", "{\"a\": 1} | sort_by(.)", "{\"a\": 2, \"b\": 1} | min_by(.)", "{\"a\": 1} | unique", "{\"a\": 1} | group_by(.)", "\"abc\" | sort", "[[2, 1], [1, 2]] | sort", "[{\"a\": 2}, {\"a\": 1, \"b\": 0}] | sort", "[1, 1.0, 1e0] | unique",
    "[.[]?] | sort | unique | group_by(.) | length", "map(.)", "map_values(empty)", "map_values(., .)", "map(error)", "map(input)", "{\"a\": 1} | map_values(empty)", "[1, 2] | map_values(empty)", "1 | map(.)", "\"a\" | map_values(.)", "null | map(.)", "null | map_values(.)",
    "to_entries | map(select(.value)) | from_entries", "del(.)", "del(..)", "del(.[])", "del(.[]?)", "del(empty)", "del(.a, .a)", "del(.[0], .[0])", "del(.[-1e18])", "del(.[nan])", "del(.[\"a\", 0])", "del(1)", "del(.a | tostring)", "del(first(.[]?))", "del(.[]? | select(. == null))",
    "delpaths([[]])", "delpaths([])", "delpaths(1)", "delpaths([1])", "delpaths([[1e18]])", "delpaths([[nan]])", "delpaths([[\"a\", 0, \"b\"]])", "delpaths([[{\"start\": 0}]])", "delpaths([[{}]])", "delpaths([[[]]])", "delpaths([[true]])", "delpaths([paths])", "delpaths([paths] | reverse)",
    "path(..)", "[path(..)] | length", "path(.a[].b?)", "path(1)", "path(empty)", "path(error)", "path(.a | tostring)", "path(first(.a, .b))", "path(getpath([\"a\", \"b\"]))", "path(.[1e18])", "path(.[nan])", "path(.[1:2])", "path(.. | select(type == \"number\"))", "[paths] | map(tostring)",
    "pick(.a)", "pick(.[0])", "pick(.[1e15])", "pick(.[-1])", "pick(.a.b.c)", "pick(..)", "pick(first(.[]?))", "[1, 2] | pick(.[1])", "null | pick(.a[2])", "pick(1)", "pick(empty)", "omit(.a)", "omit(..)", "to_entries[]?", "..", "[..]", "[.. | scalars]", ".. |= .", "..[]?",
    "[recurse(.[]?; . != null)] | length", "[limit(5; recurse(. * 2; . < 1e1000))]", "[limit(5; recurse(. + 1))]", "[limit(5; 1 | recurse(. * -2))]", "[limit(3; 1 | recurse(., .))]", "[limit(3; repeat(.; .))]", "[limit(3; repeat(error))]", "[limit(3; repeat(empty))]",
    "[limit(3; 1 | repeat(. * 2))]", "[limit(3; 1 | while(true; . * 2))]", "[1 | while(. < 1e3; . * 2)]", "[1 | while(false; .)]", "1 | until(. > 1e3; . * 2)", "1 | until(true; error)", "[limit(3; 1 | while(.; .))]", 
    "isempty(empty)", "isempty(error)", "isempty(1, error)", "[.[]?] | IN(1, 2)", "IN(empty)", "IN(error)", "IN(empty; empty)", "INDEX(.a)", "INDEX(empty; 1)", "INDEX(.[]?; .)", "INDEX(1, 2; {})", "[1, 2] | INDEX(null)", "ascii_downcase?", "(.a, .b)?", "(1, error, 2)?", "[(1, error(\"x\"), 2)?]",
    "try error(\"\\(1, 2)\") catch .", "[.[]? | try error catch .]", "try (try error(1) catch error(2)) catch .", "try error(try error(1) catch .) catch .", "(try error(1) catch .) as $x | $x", "label $f | 1, break $f, 2", "label $a | label $b | 1, break $a, 2", "label $a | (label $a | break $a), 2",
    "[label $f | range(10) | ., (select(. == 3) | break $f)]", "break $nope", "label $f | def g: break $f; g", "label $f | [1, 2] | map(break $f)", "label $f | reduce (1, 2) as $x (0; break $f)", "label $f | try break $f catch .", "label $f | first(break $f)", "label $f | (break $f)?", "label $f | [limit(1; break $f)]",
    "def f: 1; f", "def f: def g: 2; g; f", "def f(g): g | g; 3 | f(. * 2)", "def f($a; $b): $a + $b; f(1; 2)", "def f(g; $a): [g, $a]; f(.; 1, 2)", "def f: f; 1", "def f(x): x; f(f(f(1)))", "def f: reduce .[]? as $x (0; . + 1); f", "def f($a): $a | f2; def f2: 1; 2", "def f(g): def h: g; h; f(1)",
    "def f: 1; def f: 2; f", "def f(a): 1; f", "def f: 1; f(2)", "def length: 1; length", "def f(g): g; f(error)", "def f: error; try f catch 1", "def f: .[]?; [f]", "def f: ., 1; [limit(3; f)]", "def r: if . < 3 then . + 1 | r else . end; 0 | r", "def r: if . < 1e4 then . + 1 | r else . end; 0 | r",
    "def fac: if . <= 1 then 1 else . * (. - 1 | fac) end; 10 | fac", "def fib: if . < 2 then . else (. - 1 | fib) + (. - 2 | fib) end; 15 | fib", "def d: [d]; 1", "def ack(m; n): 1; ack(1; 2)", "def f(g): [g]; f(f(f(.)))", "reduce empty as $x (0; 1)", "reduce error as $x (0; 1)",
    "reduce (1, 2) as $x (empty; 1)", "reduce (1, 2) as $x (0; empty)", "reduce (1, 2) as $x (0; error)", "reduce (1, 2) as [$a, $b] (0; $a)", "reduce ([1, 2], 3) as [$a] (0; . + $a)", "reduce .[]? as {a: $a} (0; . + $a)", "reduce range(2e4) as $i (0; . + $i)", "reduce range(3000) as $i ([]; . + [$i]) | length",
    "reduce range(2e4) as $i (\"\"; . + \"a\") | length", "reduce range(2000) as $i ({}; .[$i | tostring] = $i) | length", "reduce range(20) as $i (\"a\"; . + .) | length", "reduce range(16) as $i ([1]; . + .) | length", "foreach empty as $x (0; 1)", "foreach (1, 2) as $x (0; empty; .)", "foreach (1, 2) as $x (0; error)",
    "foreach (1, 2) as $x (0; . + $x; error)", "foreach (1, 2) as $x (0; . + $x; empty)", "[foreach range(2e4) as $i (0; . + 1; select(. % 1e4 == 0))]", "foreach (1, 2) as [$a] (0; $a)", "foreach (1, 2) as $x (0, 1; . + $x)", 
    ". as [$a, [$b]] | [$a, $b]", ". as {a: {b: [$c]}} | $c", ". as {$a, b: $c} | [$a, $c]", ". as {\"a b\": $x} | $x", ". as {(\"a\", \"b\"): $x} | $x", ". as {$__loc__} | 1", ". as [$a] ?// {a: $a} ?// $a | $a", ". as [$a] ?// $a | error", "[.[]? as [$a] ?// $a | $a]", ". as [] | 1", ". as {} | 1",
    "1 as $x | 2 as $x | $x", "1 as $x | [$x, $x] as [$x, $y] | $x + $y", "$x", "$ENV as $e | $e | type", "$__loc__ as {file: $f, line: $l} | [$f, $l]", ". as $dot | [.[]? | . as $e | $dot | length]", "(1, 2) as $x | (3, 4) as $y | [$x, $y]", "empty as $x | 1", "error as $x | 1", "(1, error) as $x | $x",
    "{a: 1} | .a as $v | {$v}", "{\"a\": (1, 2), \"b\": (3, 4)}", "{(\"a\", \"b\"): 1}", "{(1): 2}", "{(null): 1}", "{(empty): 1}", "{a: empty}", "{a: error}", "{\"\\(1, 2)\": 3}", "{a: 1, a: 2}", "{a: 1} + {a: 2}", "{$__loc__}", "{@base64: 1}", "{\"a\": 1 | 2}", "{a: 1, b: (2, 3), c: {d: (4, 5)}}",
    "{\"a\\u0000b\": 1}", "{\"\": 1} | .[\"\"]", "{a: 1} | .[\"a\", \"b\"]", "{a: 1} | .[\"a\"]?", "{a: 1} | .a.b.c", "{a: 1} | .a.b.c?", "{a: 1} | .a[0]", "{a: [1]} | .a[0:1][0]", "[[1, 2], [3]] | .[][0]", "[[1, 2], [3]] | .[1:][0][0]", ".[\"a\"][\"b\"]?", ".[]?[]?[]?", ".a?.b?.c?", ".\"a\"", ".\"a\".\"b\"", ".[\"a\"]?.b",
    "\"\\(1 + 2)\"", "\"\\(\"\\(\"\\(1)\")\")\"", "\"a\\(1, 2)b\\(3, 4)c\"", "\"\\(error)\"", "\"\\(empty)\"", "\"\\([1, {\"a\": \"x\"}])\"", "\"\\(nan) \\(infinite) \\(-0) \\(1e1000)\"", "@base64 \"\\(.)\"", "@json \"\\(.)x\\(.)\"", "@csv \"\\([1, \"a\"])\"", "@sh \"echo \\(\"a'b\")\"", "@uri \"?q=\\(\"a b&c\")\"", "@html \"<\\(\"<&>\")>\"",
    "@text \"\\(.)\"", "@base64d \"\\(\"YQ==\")\"", "@nope \"x\"", "if . then 1 end", "if empty then 1 else 2 end", "if error then 1 else 2 end", "if (true, false) then 1 else 2 end", "if true then empty else 2 end", "if . then . elif . then . elif . then . else . end", "if null then 1 elif false then 2 end",
    "[.[]? | if type == \"number\" then . * 1e308 * 10 else . end]", "[limit(5; .[]?, .[]?)]", "[.[]?, .[]?] | length", "[., .] | [., .] | [., .] | [., .] | tojson | length", "[range(10)] | map([range(10)]) | flatten | add", "[range(1e5)] | length", "[range(1e5)] | map(. * 2) | add", "[range(1e5)] | sort | unique | reverse | first",
    "[range(1e5) | tostring] | join(\",\") | length", "[range(1e4)] | map([.]) | flatten | length", "[range(1e4) | {a: .}] | group_by(.a % 10) | length", "[range(1e3)] | [combinations(1)]?", "[range(300)] | to_entries | from_entries | length", "[range(1e5)] | tojson | fromjson | length", "[range(1e5)] | @csv | length",
    "\"x\" * 1e5 | explode | implode | length", "\"x\" * 1e5 | ascii_upcase | length", "\"x\" * 1e5 | split(\"\") | length", "\"x\" * 1e5 | [scan(\"x\")] | length", "\"x\" * 1e5 | gsub(\"x\"; \"yy\") | length", "\"x\" * 1e5 | test(\"^(x+)+$\")", "\"x\" * 1e5 | @base64 | @base64d | length", "\"x\" * 1e5 | @uri | length",
    "\"é\" * 1e5 | utf8bytelength", "\"x\" * 1e5 | .[1e4:2e4] | length", "\"x\" * 1e5 | ltrimstr(\"x\" * 1e4) | length", "\"x\" * 1e5 | tojson | length", "\"x\" * 1e5 | [., .] | unique | length", "\"a,b\" * 1e4 | split(\",\") | length", "\"ab\" * 1e4 | [match(\"a\"; \"g\")] | length", "\"ab\" * 1e4 | sub(\"(?<x>a)\"; \"\\(.x)\"; \"g\") | length",
    "tag", "anchor", "style", "kind", "key", "parent", "parent(1e18)", "parent(-1)", "line", "column", "line_comment", "document_index", "file_index", "split_doc", "at_offset(0)", "at_offset(1e18)", "at_offset(-1)", "at_offset(nan)", "at_position(0; 0)", "at_position(1e18; 1e18)", "at_position(-1; -1)",
    "at_position(1; nan)", "load(\"/nonexistent\")", "load(\"/dev/null\")", "load(1)", "load(\"\")", "strenv(\"HOME\")", "strenv(\"NOPE\")", "strenv(1)", "strenv(\"\")", "pivot", "[[1, 2], [3]] | pivot", "[{\"a\": 1}, {\"b\": 2}] | pivot", "[1, [2]] | pivot", "shuffle", "[range(10)] | shuffle | length",
    "from_unix", "1e18 | from_unix", "nan | from_unix", "\"x\" | to_unix", "to_unix", "toboolean", "\"yes\" | toboolean", "1e18 | tz(\"UTC\")", "0 | tz(\"Nowhere/City\")", "0 | tz(1)", "0 | tz(\"\")", "nan | tz(\"UTC\")", "modulemeta", "\"a\" | modulemeta", "builtins | length", "[builtins[] | select(startswith(\"a\"))] | length",
    "tojsonstream", "fromjsonstream", "[tojsonstream]", "\"[1]\" | fromjsonstream", "isvalid(.a)", "isvalid(error)", "isvalid(empty)", "splits", "getpath", "ltrimstr", "limit", "limit(1)", "range", "range(1; 2; 3; 4)", "error(1; 2)", "select", "map", "path", "del", "first(1; 2)", "recurse(.; .; .)", "test", "sub(\"a\")",
    "not(1)", "length(1)", "empty(1)", "keys(1)", "input(1)", "env(1)", "env.a.b", "$ENV[\"\\u0000\"]", "debug", "debug(\"m\")", "debug(error)", "debug(1, 2)", "stderr", "[1, 2] | debug | stderr | length", "input_filename", "get_search_list", "$__prog_name", "splits(\"a\"; \"b\"; \"c\")", "significand", "gamma", "logb", "frexp", "ldexp(1; 2)",
    "@base32", "@base32d", "\"a\" | @base32", "have_decnum", "have_literal_numbers", "toarray", "trimstr(\"a\")", "ltrimstr(\"a\"; \"b\")", "getpath([\"a\"]; 1)", "abs", "\"a\" | abs", "null | abs", "[1] | abs", "-0 | abs | tojson", "nan | abs | tojson", "1e1000 | abs", "tojson(1)", "ascii(1)", "implode(1)", "min_by", "add(.[]?)", "add(empty)", "add(1, 2)",
    "add(error)", "any(empty)", "all(empty)", "any(error)", "all(1, error; .)", "any(true, error; .)", "any(.[]?; error)", "[.[]?] | any", "[nan] | any", "[null, false] | all", "{} | any", "1 | any", "\"a\" | all", "null | any", "null | add", "null | length", "null | keys", "null | to_entries", "null | tostream", "null | flatten",
    "null | sort", "null | unique", "null | min", "null | first", "null | last", "null | .[0]", "null | .[\"a\"]", "null | .[1:2]", "null | .[]", "null | .[]?", "null | has(0)", "null | map(.)", "null | join(\",\")", "null | explode", "null | implode", "null | test(\"a\")", "null | tojson", "null | fromjson", "null | tonumber", "null | ascii_downcase",
    "null | ltrimstr(\"a\")", "null | split(\",\")", "null | @base64", "null | @csv", "null | todate", "null | mktime", "null | gmtime", "null | strftime(\"%Y\")", "null | floor", "null | pow(.; 2)", "null | not", "null | transpose", "null | from_entries", "null | with_entries(.)", "null | walk(.)", "null | paths", "null | leaf_paths",
    "null | getpath([\"a\"])", "null | setpath([\"a\"]; 1)", "null | setpath([0]; 1)", "null | setpath([]; 1)", "null | delpaths([[\"a\"]])", "null | del(.a)", "null | to_entries", "null | tostream", "null | indices(1)", "null | index(\"a\")", "null | inside(null)", "null | contains(null)", "null | bsearch(1)", "null | group_by(.)", "null | combinations",
    "\"aéé\" | indices(\"é\")", "\"\\u2028x\\u2028\" | indices(\"é\")", "\"é\" | indices(\"😀\")", "\"日本語日本\" | indices(\"😀\")", "\"😀a😀\" | indices(\"\")", "\"a\\u0000é\" | indices(\"\")", "\"\\u2028x\\u2028\" | indices(\"本\")", "\"aéé\" | indices(\"本\")", "\"日本語日本\" | index(\"é\")", "\"é\" | index(\"é\")", "\"a\\u0000é\" | rindex(\"é\")", "\"😀a😀\" | rindex(\"é\")", "\"aéé\" | index(\"\")", "\"\\u2028x\\u2028\" | index(\"\")", "\"é\" | rindex(\"😀\")", "\"日本語日本\" | rindex(\"😀\")", "\"😀a😀\" | ltrimstr(\"é\")", "\"a\\u0000é\" | ltrimstr(\"é\")", "\"\\u2028x\\u2028\" | rtrimstr(\"é\")", "\"aéé\" | rtrimstr(\"é\")", "\"日本語日本\" | ltrimstr(\"a\")", "\"é\" | ltrimstr(\"a\")", "\"a\\u0000é\" | startswith(\"é\")", "\"😀a😀\" | startswith(\"é\")", "\"aéé\" | endswith(\"😀\")", "\"\\u2028x\\u2028\" | endswith(\"😀\")", "\"é\" | split(\"é\")", "\"日本語日本\" | split(\"é\")", "\"😀a😀\" | split(\"\")", "\"a\\u0000é\" | split(\"\")", "\"\\u2028x\\u2028\" | split(\"😀\"; \"g\")", "\"aéé\" | split(\"😀\"; \"g\")", "\"日本語日本\" | [splits(\"é\")]", "\"é\" | [splits(\"é\")]", "\"a\\u0000é\" | test(\"é\")", "\"😀a😀\" | test(\"é\")", "\"aéé\" | [match(\"é\"; \"g\") | .offset]", "\"\\u2028x\\u2028\" | [match(\"é\"; \"g\") | .offset]", "\"é\" | [match(\"\"; \"g\") | .offset]", "\"日本語日本\" | [match(\"\"; \"g\") | .offset]", "\"😀a😀\" | [match(\".\"; \"g\") | .string]", "\"a\\u0000é\" | [match(\".\"; \"g\") | .string]", "\"\\u2028x\\u2028\" | sub(\"é\"; \"e\")", "\"aéé\" | sub(\"é\"; \"e\")", "\"日本語日本\" | gsub(\"é\"; \"ee\")", "\"é\" | gsub(\"é\"; \"ee\")", "\"a\\u0000é\" | gsub(\"\"; \"-\")", "\"😀a😀\" | gsub(\"\"; \"-\")", "\"aéé\" | gsub(\"(?<x>.)\"; \"\\\\(.x).\")", "\"\\u2028x\\u2028\" | gsub(\"(?<x>.)\"; \"\\\\(.x).\")", "\"é\" | [scan(\".\")]", "\"日本語日本\" | [scan(\".\")]", "\"😀a😀\" | capture(\"(?<c>é)\")", "\"a\\u0000é\" | capture(\"(?<c>é)\")", "\"\\u2028x\\u2028\" | .[1:]", "\"aéé\" | .[1:]", "\"日本語日本\" | .[:1]", "\"é\" | .[:1]", "\"a\\u0000é\" | .[1:2]", "\"😀a😀\" | .[1:2]", "\"aéé\" | .[-1:]", "\"\\u2028x\\u2028\" | .[-1:]", "\"é\" | .[0:-1]", "\"日本語日本\" | .[0:-1]", "\"😀a😀\" | .[1:] = \"x\"", "\"a\\u0000é\" | .[1:] = \"x\"", "\"\\u2028x\\u2028\" | explode | implode", "\"aéé\" | explode | implode", "\"日本語日本\" | explode | .[1:] | implode", "\"é\" | explode | .[1:] | implode", "\"a\\u0000é\" | ascii_downcase", "\"😀a😀\" | ascii_downcase", "\"aéé\" | ascii_upcase", "\"\\u2028x\\u2028\" | ascii_upcase", "\"é\" | @uri", "\"日本語日本\" | @uri", "\"😀a😀\" | @uri | @urid", "\"a\\u0000é\" | @uri | @urid", "\"\\u2028x\\u2028\" | @base64 | @base64d", "\"aéé\" | @base64 | @base64d", "\"日本語日本\" | @html", "\"é\" | @html", "\"a\\u0000é\" | @sh", "\"😀a😀\" | @sh", "\"aéé\" | @json", "\"\\u2028x\\u2028\" | @json", "\"é\" | tojson | fromjson", "\"日本語日本\" | tojson | fromjson", "\"😀a😀\" | utf8bytelength", "\"a\\u0000é\" | utf8bytelength", "\"\\u2028x\\u2028\" | length", "\"aéé\" | length", "\"日本語日本\" | reverse", "\"é\" | reverse", "\"a\\u0000é\" | trim", "\"😀a😀\" | trim", "\"aéé\" | ltrim", "\"\\u2028x\\u2028\" | ltrim", "\"é\" | rtrim", "\"日本語日本\" | rtrim", "\"😀a😀\" | [.[]?]", "\"a\\u0000é\" | [.[]?]", "\"\\u2028x\\u2028\" | . / \"é\"", "\"aéé\" | . / \"é\"", "\"日本語日本\" | . / \"\"", "\"é\" | . / \"\"", "\"a\\u0000é\" | . * 2", "\"😀a😀\" | . * 2", "\"aéé\" | contains(\"é\")", "\"\\u2028x\\u2028\" | contains(\"é\")", "\"é\" | inside(\"xé😀\")", "\"日本語日本\" | inside(\"xé😀\")", "\"😀a😀\" | test(\"\\\\\\\\p{L}\")", "\"a\\u0000é\" | test(\"\\\\\\\\p{L}\")", "\"\\u2028x\\u2028\" | ascii", "\"aéé\" | ascii", "\"日本語日本\" | [limit(3; indices(\"é\")[])]", "\"é\" | [limit(3; indices(\"é\")[])]", "\"a\\u0000é\" | [paths]", "\"😀a😀\" | [paths]", "\"aéé\" | tostring | indices(\"é\")", "\"\\u2028x\\u2028\" | tostring | indices(\"é\")", "\"é\" | @text | rindex(\"😀\")", "\"日本語日本\" | @text | rindex(\"😀\")",
    "null | ascii", "null | @text", "null | @json", "null | input", "null | limit(1; .)", "null | range(.)", "null | [range(null)]", "[range(\"a\")]", "[range([])]", "[range({})]", "[range(1; \"a\")]", "[range(0; 3; \"a\")]", "[range(0; 3; null)]", "[range(true)]",
];

/// Generate one hostile program. `seeds`: real filters (golden corpus) for the mutant family.
pub fn gen_hostile(u: &mut Src, doc: &J, cfg: &Cfg, seeds: &[String]) -> Prog {
    match u.weighted(&[30, 18, 14, 12, 14, 12]) {
        0 => {
            let mut p = gen_program(u, doc, cfg);
            p.family = "gen";
            p
        }
        1 => snippet_program(u, doc, cfg),
        2 => deep_program(u),
        3 => soup_program(u),
        4 if !seeds.is_empty() => mutant_program(u, seeds),
        _ => text_hostile(u, doc, cfg),
    }
}

/// Does the text contain a number literal that is huge (>= 10 digits or |exponent| >= 9)?
pub fn huge_number_in_text(text: &str) -> bool {
    big_number_in_text(text, 9)
}

pub fn big_number_in_text(text: &str, min_exp: usize) -> bool {
    let b = text.as_bytes();
    let mut i = 0;
    while i < b.len() {
        if b[i].is_ascii_digit() && (i == 0 || !(b[i - 1].is_ascii_alphanumeric() || b[i - 1] == b'_')) {
            let s = i;
            while i < b.len() && (b[i].is_ascii_digit() || b[i] == b'.') {
                i += 1;
            }
            let digits = b[s..i].iter().filter(|c| c.is_ascii_digit()).count();
            let mut exp = 0usize;
            if i < b.len() && (b[i] == b'e' || b[i] == b'E') {
                let mut j = i + 1;
                if j < b.len() && (b[j] == b'+' || b[j] == b'-') {
                    j += 1;
                }
                let es = j;
                while j < b.len() && b[j].is_ascii_digit() {
                    j += 1;
                }
                exp = std::str::from_utf8(&b[es..j]).ok().and_then(|t| t.parse().ok()).unwrap_or(if j > es { 9999 } else { 0 });
                i = j;
            }
            if digits >= 10 || exp >= min_exp {
                return true;
            }
        } else {
            i += 1;
        }
    }
    false
}

/// Extreme operand somewhere in the text (huge number, nan, infinite, negative zero)?
pub fn extreme_in_text(text: &str) -> bool {
    big_number_in_text(text, 5) || text.contains("nan") || text.contains("infinite") || text.contains("-0")
}

fn raw_prog(text: String, extreme: bool, family: &'static str) -> Prog {
    let extreme = extreme && extreme_in_text(&text);
    let nest = text_nesting(&text);
    Prog { ast: E::Raw(text.clone(), L_PIPE, "rawtext"), text, feats: vec![family.to_string()], nodes: 1, kinds: 1, extreme, nest, family }
}

/// 1-3 hostile snippets composed with each other / with generated pieces.
pub fn snippet_program(u: &mut Src, doc: &J, cfg: &Cfg) -> Prog {
    let pick = |u: &mut Src| E::Raw((*u.pick(HOSTILE_SNIPPETS)).to_string(), L_PIPE, "snippet");
    let a = pick(u);
    let e = match u.below(10) {
        0 | 1 | 2 => a,
        3 => E::pipe(a, pick(u)),
        4 => E::Comma(Box::new(a), Box::new(pick(u))),
        5 => E::Arr(Some(Box::new(a))),
        6 => E::Try(Box::new(a), Some(Box::new(E::Identity))),
        7 => {
            let g = gen_program(u, doc, cfg);
            E::pipe(g.ast, a)
        }
        8 => {
            let g = gen_program(u, doc, cfg);
            E::pipe(a, g.ast)
        }
        _ => E::Path(Box::new(E::Identity), vec![Step::Iter, Step::Opt]).pipe_into(a),
    };
    let mut p = prog_of(e, true, "extreme");
    p.extreme = extreme_in_text(&p.text);
    p
}

impl E {
    fn pipe_into(self, b: E) -> E {
        E::pipe(self, b)
    }
}

/// Deep nesting of one construct (up to 5 000 levels; the parser documents a 256 guard).
pub fn deep_program(u: &mut Src) -> Prog {
    let n = match u.below(8) {
        0 => u.range(1, 60),
        1 => u.range(50, 255),
        2 => *u.pick(&[253, 254, 255, 256, 257, 258, 127, 128, 129, 250]),
        3 | 4 => u.range(200, 600),
        5 => u.range(600, 2000),
        _ => u.range(2000, 5000),
    };
    let forms: &[(&str, &str, &str, usize)] = &[
        ("(", ".", ")", 5000),
        ("[", ".", "]", 5000),
        ("{a:", "1", "}", 5000),
        ("{\"a\":[", ".", "]}", 5000),
        ("-", "1", "", 5000),
        ("try ", ".", "", 5000),
        ("", ".", "?", 5000),
        ("", ".", "[0]", 2000),
        ("", ".", ".a", 2000),
        ("", ".", "[]?", 2000),
        ("", ".", "|.", 500),
        ("", "1", "+1", 5000),
        ("", "1", ",1", 5000),
        ("", ".", " as $x|$x", 120),
        ("if . then ", ".", " else . end", 5000),
        ("if ", ".", " then . else . end", 5000),
        ("\"\\(", "1", ")\"", 5000),
        ("reduce . as $x (0;", ".", ")", 5000),
        ("foreach . as $x (", "0", ";.)", 5000),
        ("def f: ", ".", ";f", 5000),
        ("def f(g): g;f(", ".", ")", 5000),
        ("label $l|", ".", "", 5000),
        ("first(", ".", ")", 5000),
        ("[limit(1;", ".", ")]", 5000),
        ("map(", ".", ")", 5000),
        ("path(", ".", ")", 5000),
        ("select(", ".", ")", 5000),
        ("recurse(", ".[]?", ")", 5000),
        ("", ".", "//.", 800),
        ("", ".", " and .", 800),
        ("", ".a", "=1|.a", 200),
        ("", ".", "|=.", 200),
        (". as [", "$x", "]|$x", 5000),
        (". as {a:", "$x", "}|$x", 5000),
        ("", ".", " ?// $x", 800),
        ("try (", ".", ") catch .", 5000),
        ("{(", "\"a\"", "):1}|keys[0]", 5000),
        ("[.[", "0", "]]", 5000),
        (".[", "0", ":]", 5000),
        ("@base64 \"\\(", ".", ")\"", 5000),
        ("not|", "not", "", 800),
        ("tostring|", "tostring", "", 800),
        ("[.]|", ".", "", 300),
        ("", ".", "|[.]", 300),
        ("[", "", "]", 5000),
        ("((", "", "))", 5000),
        ("{", "", "}", 5000),
        ("(", "", "", 5000),
        ("", "", ")", 5000),
        ("[", "", "", 5000),
        ("\"\\(", "", "", 5000),
        ("#", "\n.", "", 5000),
        ("/", "", "", 5000),
    ];
    let (a, m, z, cap) = *u.pick(forms);
    let n = n.min(cap);
    let mut s = String::with_capacity((a.len() + z.len()) * n + m.len());
    for _ in 0..n {
        s.push_str(a);
    }
    s.push_str(m);
    for _ in 0..n {
        s.push_str(z);
    }
    // occasionally evaluate a deep program against deep data
    if u.ratio(1, 6) {
        s = format!("reduce range({}) as $i (.; [.]) | {}", u.range(1, 400), s);
    }
    let mut p = raw_prog(s, false, "deep");
    p.nest = p.nest.max(n);
    p
}

/// Token soup over the jq token alphabet (with and without separating blanks).
pub fn soup_program(u: &mut Src) -> Prog {
    let n = u.len_biased(60, &[1, 2, 3]);
    let mut s = String::new();
    let sep = u.below(3);
    for _ in 0..n.max(1) {
        s.push_str(*u.pick(TOKENS));
        match sep {
            0 => s.push(' '),
            1 if u.bool() => s.push(' '),
            _ => {}
        }
    }
    raw_prog(s, true, "soup")
}

/// A seed filter (golden corpus) with 1-3 token-level or character-level edits.
pub fn mutant_program(u: &mut Src, seeds: &[String]) -> Prog {
    let mut s: Vec<char> = seeds[u.below(seeds.len())].chars().collect();
    let edits = u.range(1, 3);
    for _ in 0..edits {
        let pos = u.below(s.len() + 1);
        match u.below(9) {
            0 if !s.is_empty() => {
                let p = pos.min(s.len() - 1);
                s.remove(p);
            }
            1 if !s.is_empty() => {
                let p = pos.min(s.len() - 1);
                let l = u.range(1, 6).min(s.len() - p);
                s.drain(p..p + l);
            }
            2 => {
                let t: Vec<char> = u.pick(TOKENS).chars().collect();
                for (i, c) in t.into_iter().enumerate() {
                    s.insert(pos + i, c);
                }
            }
            3 if !s.is_empty() => {
                // replace a number literal / digit with an extreme operand
                if let Some(p) = s.iter().position(|c| c.is_ascii_digit()) {
                    let mut q = p;
                    while q < s.len() && (s[q].is_ascii_digit() || s[q] == '.') {
                        q += 1;
                    }
                    let r: Vec<char> = u.pick(&["1e1000", "nan", "infinite", "1e19", "-0", "9007199254740993", "1e18", "-1", "1e15", "9223372036854775807", "-9223372036854775808", "0.5", "1e-1000"]).chars().collect();
                    s.splice(p..q, r);
                }
            }
            4 if !s.is_empty() => {
                let p = pos.min(s.len() - 1);
                s[p] = *u.pick(&['(', ')', '[', ']', '{', '}', '"', '\\', '|', ',', ';', ':', '.', '$', '@', '?', '-', '\u{0}', 'é', '\n', '#', '/', '*', '%', '=']);
            }
            5 if s.len() > 2 => {
                // duplicate a slice
                let p = pos.min(s.len() - 1);
                let l = u.range(1, 12).min(s.len() - p);
                let piece: Vec<char> = s[p..p + l].to_vec();
                let times = u.range(1, 4);
                for _ in 0..times {
                    for (i, c) in piece.iter().enumerate() {
                        s.insert(p + i, *c);
                    }
                }
            }
            6 => {
                // splice with another seed
                let o: Vec<char> = seeds[u.below(seeds.len())].chars().collect();
                let cut = u.below(o.len() + 1);
                s.truncate(pos.min(s.len()));
                s.extend_from_slice(&o[cut..]);
            }
            7 => {
                // wrap
                let (a, z) = *u.pick(&[("[", "]"), ("(", ")"), ("try (", ") catch ."), ("[limit(3; ", ")]"), ("first(", ")"), (". as $x | ", ""), ("[.[]? | ", "]"), ("path(", ")"), ("del(", ")"), ("(", ") |= ."), ("{a: (", ")}"), ("\"\\(", ")\""), ("map(", ")"), ("reduce (", ") as $x (0; . + 1)"), ("def f: ", "; f | f")]);
                let mut t: Vec<char> = a.chars().collect();
                t.extend(s.iter());
                t.extend(z.chars());
                s = t;
            }
            _ => {
                s.truncate(pos.min(s.len()));
            }
        }
    }
    raw_prog(s.into_iter().collect(), true, "mutant")
}

/// A typed program whose text is then disturbed: non-ASCII / control characters, comments, odd
/// whitespace, random byte edits (keeps the text valid UTF-8).
pub fn text_hostile(u: &mut Src, doc: &J, cfg: &Cfg) -> Prog {
    let p = gen_program(u, doc, cfg);
    let mut s: Vec<char> = p.text.chars().collect();
    let edits = u.range(1, 4);
    for _ in 0..edits {
        let pos = u.below(s.len() + 1);
        match u.below(6) {
            0 => s.insert(pos, *u.pick(&['\u{0}', '\u{1}', '\u{7f}', '\u{80}', '\u{a0}', '\u{2028}', '\u{feff}', 'é', '😀', '\u{10ffff}', '\u{fffd}', '\r', '\u{b}', '\u{c}', '\u{200b}', '\u{3000}'])),
            1 => {
                let c: Vec<char> = u.pick(&["# c\n", "#\\\n", "#\r\n", "# é\n", " \t\n ", "\n\n"]).chars().collect();
                for (i, ch) in c.into_iter().enumerate() {
                    s.insert(pos + i, ch);
                }
            }
            2 if !s.is_empty() => {
                let p2 = pos.min(s.len() - 1);
                if s[p2] == ' ' {
                    s[p2] = *u.pick(&['\t', '\n', '\r', '\u{a0}', '\u{c}']);
                }
            }
            3 if !s.is_empty() => {
                let p2 = pos.min(s.len() - 1);
                s.remove(p2);
            }
            4 => {
                let t: Vec<char> = u.pick(TOKENS).chars().collect();
                for (i, c) in t.into_iter().enumerate() {
                    s.insert(pos + i, c);
                }
            }
            _ => {
                if !s.is_empty() {
                    let p2 = pos.min(s.len() - 1);
                    s[p2] = char::from_u32(u.range(0, 0x2ff) as u32).unwrap_or('x');
                }
            }
        }
    }
    let t: String = s.into_iter().collect();
    let ex = p.extreme || extreme_in_text(&t);
    let mut q = raw_prog(t, true, "text");
    q.extreme = ex;
    q
}
