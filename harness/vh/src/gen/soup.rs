//! Hostile input generators for C19 (and anything else that wants near-valid garbage):
//! raw bytes, token soups over the JSON / YAML / jq alphabets, a small block/flow YAML
//! snippet generator, mutation (truncate, flip, splice, duplicate, indent shift, ...) of
//! valid documents, deep-nesting shapes, and run-time loading of the fixtures that live in
//! the tree under test (`/repo/tests/data`).
use crate::engine::Src;
use std::sync::OnceLock;

// ---------------------------------------------------------------- fixtures

pub struct Fixtures {
    /// YAML Test Suite inputs + yq-golden inputs
    pub yaml: Vec<Vec<u8>>,
    /// JSON test suite inputs + jq-golden inputs
    pub json: Vec<Vec<u8>>,
    /// jq-golden / yq-golden filter programs
    pub filters: Vec<String>,
    /// sources that could not be read (reported once by the caller)
    pub missing: Vec<String>,
}

pub fn fixtures_dir() -> String {
    std::env::var("VH_FIXTURES").unwrap_or_else(|_| "/repo/tests/data".into())
}

fn b64_decode(s: &str) -> Vec<u8> {
    let mut out = Vec::with_capacity(s.len() * 3 / 4);
    let mut acc = 0u32;
    let mut bits = 0u32;
    for c in s.bytes() {
        let v = match c {
            b'A'..=b'Z' => c - b'A',
            b'a'..=b'z' => c - b'a' + 26,
            b'0'..=b'9' => c - b'0' + 52,
            b'+' | b'-' => 62,
            b'/' | b'_' => 63,
            _ => continue,
        } as u32;
        acc = (acc << 6) | v;
        bits += 6;
        if bits >= 8 {
            bits -= 8;
            out.push((acc >> bits) as u8);
            acc &= (1 << bits) - 1;
        }
    }
    out
}

fn load_fixtures() -> Fixtures {
    let dir = fixtures_dir();
    let mut f = Fixtures { yaml: vec![], json: vec![], filters: vec![], missing: vec![] };
    // YAML Test Suite (the vendored file already holds the decoded YAML text in "yaml")
    let p = format!("{}/yaml-test-suite-2022-01-17.json", dir);
    match std::fs::read_to_string(&p).ok().and_then(|t| serde_json::from_str::<serde_json::Value>(&t).ok()) {
        Some(v) => {
            for c in v.as_array().map(|a| a.as_slice()).unwrap_or(&[]) {
                if let Some(y) = c["yaml"].as_str() {
                    f.yaml.push(y.as_bytes().to_vec());
                }
            }
        }
        None => f.missing.push(p),
    }
    let p = format!("{}/json-test-suite-1ef36fa.json", dir);
    match std::fs::read_to_string(&p).ok().and_then(|t| serde_json::from_str::<serde_json::Value>(&t).ok()) {
        Some(v) => {
            for c in v.as_array().map(|a| a.as_slice()).unwrap_or(&[]) {
                if let Some(b) = c["bytes_b64"].as_str() {
                    let d = b64_decode(b);
                    if d.len() <= 1 << 16 {
                        f.json.push(d);
                    }
                }
            }
        }
        None => f.missing.push(p),
    }
    for (sub, input, is_yaml) in [("yq-golden/cases", "input.yaml", true), ("jq-golden/cases", "input.json", false)] {
        let p = format!("{}/{}", dir, sub);
        match std::fs::read_dir(&p) {
            Ok(rd) => {
                let mut names: Vec<_> = rd.filter_map(|e| e.ok()).map(|e| e.path()).collect();
                names.sort();
                for d in names {
                    if let Ok(b) = std::fs::read(d.join(input)) {
                        if b.len() <= 1 << 16 {
                            if is_yaml {
                                f.yaml.push(b)
                            } else {
                                f.json.push(b)
                            }
                        }
                    }
                    if let Ok(s) = std::fs::read_to_string(d.join("filter")) {
                        if s.len() <= 4096 {
                            f.filters.push(s.trim_end().to_string());
                        }
                    }
                }
            }
            Err(_) => f.missing.push(p),
        }
    }
    f
}

pub fn fixtures() -> &'static Fixtures {
    static F: OnceLock<Fixtures> = OnceLock::new();
    F.get_or_init(load_fixtures)
}

// ---------------------------------------------------------------- raw bytes

/// Random bytes in one of several distributions.
pub fn raw_bytes(u: &mut Src, max: usize) -> Vec<u8> {
    let n = u.len_biased(max, &[1, 2, 3, 63, 64, 65, 127, 128, 129]);
    let mode = u.below(5);
    let mut v = Vec::with_capacity(n);
    for _ in 0..n {
        let b = match mode {
            0 => u.byte(),
            1 => u.range(0x20, 0x7e) as u8,
            2 => *u.pick(b"{}[],:\"\\'-?#&*!|>%@` \n\t\r0123456789aeEtfnu.+~<="),
            3 => {
                // UTF-8 fragments: lead / continuation bytes, overlongs, surrogates
                *u.pick(&[0xc0u8, 0xc1, 0xc2, 0xdf, 0xe0, 0xed, 0xef, 0xf0, 0xf4, 0xf5, 0xff, 0x80, 0xbf, 0xa0, 0x9f, 0x8f, 0x90, b'a', b'"', b'\n', b':', b' '])
            }
            _ => {
                if u.ratio(1, 4) {
                    u.byte()
                } else {
                    *u.pick(b"{}[],:\" \n-abc019\\")
                }
            }
        };
        v.push(b);
    }
    v
}

// ---------------------------------------------------------------- token soups

pub const JSON_TOKENS: &[&[u8]] = &[
    b"{", b"}", b"[", b"]", b",", b":", b"\"", b"\\", b"\\\"", b"\\u", b"\\ud800", b"\\udc00", b"\\u00", b"\\u0041", b"\\x",
    b"true", b"false", b"null", b"tru", b"nul", b"fals", b"t", b"f", b"n", b"0", b"-", b"-0", b"1", b"12", b"1e5", b"1E+", b"1e", b".", b".5",
    b"1.", b"1.2.3", b"-.", b"e", b"E", b"+", b"00", b"9e999e999", b"18446744073709551616", b"-9223372036854775809", b" ", b"\n", b"\t",
    b"\r", b"\"a\"", b"\"\"", b"\"k\":", b"\"\\n\"", b"\"\xc3\xa9\"", b"\xc3", b"\xff", b"\xed\xa0\x80", b"\xef\xbb\xbf", b"\x00", b"\x1f", b"a", b"abc",
    b"{}", b"[]", b"[,]", b"{:}", b"/*", b"//", b"NaN", b"Infinity", b"'", b"\x7f",
];

pub const YAML_TOKENS: &[&[u8]] = &[
    b"- ", b"-", b"? ", b"?", b": ", b":", b",", b", ", b"[", b"]", b"{", b"}", b"# ", b"#", b" #c", b"&a ", b"&a", b"&", b"*a", b"*", b"*b ",
    b"!", b"!t ", b"!!str ", b"!!", b"!<x> ", b"!<", b"|", b">", b"|-", b"|+", b">-", b">2", b"|0", b"|10", b">+9", b"|\n", b">\n", b"'", b"''",
    b"\"", b"\\", b"\\\"", b"\\x", b"\\x4", b"\\u12", b"\\U0001", b"\\N", b"\\\n", b"%", b"%YAML 1.2", b"%TAG ! tag:x,2000:", b"%FOO", b"@", b"`",
    b"---", b"--- ", b"...", b"---\n", b"...\n", b"\n", b"\n\n", b"\r\n", b"\r", b" ", b"  ", b"    ", b"\t", b" \t", b"a", b"b", b"key", b"a: ",
    b"a: b", b"a:", b"<<", b"<<: ", b"<<: *a", b"~", b"null", b"true", b"0", b"1", b"-1", b".5", b"0x1F", b"0o17", b".inf", b".nan", b"1e3", b"12:30",
    b"2001-01-01", b"\xc3\xa9", b"\xff", b"\xc3", b"\xe2\x80\xa8", b"\xc2\x85", b"\xef\xbb\xbf", b"\x00", b"\x07", b"\x7f", b"x y", b"a b: c",
    b"- a", b"- - ", b"? a\n: b", b"[a, b]", b"{a: b}", b"{a}", b"[a: b]", b"\"a\": ", b"'a': ", b"&a *a", b"? - ", b": - ",
];

pub const JQ_TOKENS: &[&str] = &[
    ".", "..", ".a", ".foo", ".[", "]", "[", ".[]", ".[0]", ".[1:2]", ".[:", "|", ",", "(", ")", "{", "}", "\"", "\\(", "\\", "\\u00", "\\u0041",
    "\"a\"", "\"a\\(", "\"\\(.a)\"", "@base64", "@json", "@", "@csv \"", "@text", "$x", "$", "$__loc__", "$ENV", "$__prog_args", " as ", " as $x | ",
    " as [$a, $b] ", " as {a: $x} ", "?//", "def ", "def f: ", "def f(g): ", "def f($a; $b): ", ":", ";", "::", "if ", " then ", " elif ", " else ", " end",
    "try ", " catch ", "reduce ", "foreach ", "label $out | ", "break $out", "break", "import ", "include ", "module ", "import \"a\" as a;",
    "include \"a\";", "module {};", "//", "//=", "|=", "=", "+=", "-=", "*=", "/=", "%=", "+", "-", "*", "/", "%", "==", "!=", "<=", ">=", "<", ">",
    " and ", " or ", " not", "?", "??", "?.", "..?", ".[]?", ".[\"a\"]", ".\"a\"", ".\"a\\(1)\"", "0", "1", "-1", "1.5", "1e1000", "1e", "0x1", ".5", "1.",
    "00", "1e-", "99999999999999999999", "null", "true", "false", "empty", "error", "not", "length", "keys", "map(", "select(", "path(", "limit(",
    "first(", "range(", "recurse(", "env", "input", "inputs", "debug", "input_line_number", "getpath(", "paths", "splits(", "test(", "ltrimstr(",
    "tojson", "fromjson", "ascii", "@sh", "#", "# c\n", "\n", " ", "\t", "\r", "é", "ü", "😀", "\u{0}", "\u{7f}", "\u{85}", "\u{2028}", "\u{feff}",
    "\u{fffd}", "\u{10ffff}", "ñ:", ".é", ".a-b", ".my-key", ".a.b.c", ".a[", ".a?", ".a as", "$é", "@é", "'", "`", "~", "^", "&", "!", "{a:", "{(", "{\"a\":",
    "{$x}", "{@base64:", "{$__loc__}", "[.[]|", "reduce .[] as $x (0;", "foreach .[] as $x (0; .+$x;", "limit(3;", "-(", "-.", "- -", "..a", "...", ".[.",
    "if . then", "try error(", "? // ", ".. |= ", "getpath([", "ltrimstr(\"", "\"\\(\"\\(", "\\)\"", "@base32d", "@uri \"\\(", "$__loc__.file", "?[", ".[]?[",
    "input_filename", "splits(\"a\";", "ascii_downcase", "tostream", "fromstream(", "truncate_stream(", "getpath(paths)", "env.A", "$ENV.A", "halt",
    "halt_error", "@json \"x\\(", "\"\\u", "\"\\ud800", "\"\\ud800\\udc00\"", "\"\\x\"", "\"\\", "\"\n\"",
];

fn soup_from(u: &mut Src, toks: &[&[u8]], max_tokens: usize) -> Vec<u8> {
    let n = u.len_biased(max_tokens, &[1, 2, 3, 4]);
    let mut v = Vec::new();
    // a small per-case sub-alphabet makes repeated structure (and matching pairs) likelier
    let narrow = u.ratio(1, 3);
    let mut sub: Vec<&[u8]> = vec![];
    if narrow {
        for _ in 0..u.range(2, 6) {
            sub.push(toks[u.below(toks.len())]);
        }
    }
    for _ in 0..n {
        let t: &[u8] = if narrow && !u.ratio(1, 8) { sub[u.below(sub.len())] } else { toks[u.below(toks.len())] };
        v.extend_from_slice(t);
    }
    v
}

pub fn json_soup(u: &mut Src, max_tokens: usize) -> Vec<u8> {
    soup_from(u, JSON_TOKENS, max_tokens)
}

pub fn yaml_soup(u: &mut Src, max_tokens: usize) -> Vec<u8> {
    soup_from(u, YAML_TOKENS, max_tokens)
}

pub fn program_soup(u: &mut Src, max_tokens: usize) -> String {
    let n = u.len_biased(max_tokens, &[1, 2, 3, 4]);
    let narrow = u.ratio(1, 3);
    let mut sub: Vec<&str> = vec![];
    if narrow {
        for _ in 0..u.range(2, 6) {
            sub.push(JQ_TOKENS[u.below(JQ_TOKENS.len())]);
        }
    }
    let mut s = String::new();
    for _ in 0..n {
        let t = if narrow && !u.ratio(1, 8) { sub[u.below(sub.len())] } else { JQ_TOKENS[u.below(JQ_TOKENS.len())] };
        s.push_str(t);
        if u.ratio(1, 5) {
            s.push(' ');
        }
    }
    s
}

// ---------------------------------------------------------------- YAML snippets

fn yaml_scalar(u: &mut Src, out: &mut Vec<u8>) {
    const S: &[&[u8]] = &[
        b"a", b"b", b"foo bar", b"1", b"-1", b"1.5", b"true", b"null", b"~", b"", b"'x'", b"'it''s'", b"\"q\"", b"\"a\\nb\"", b"\"\\u00e9\"",
        b"\"\\x41\"", b"0x1F", b"0o17", b".inf", b"12:30", b"2001-01-01", b"a#b", b"a: b", b"\xc3\xa9", b"- x", b"*a", b"&a v", b"&b", b"!t v",
        b"!!str 1", b"!!int '1'", b"<<", b"?", b"[]", b"{}", b"[a, b]", b"{a: 1}", b"[a, [b, {c: d}]]", b"\"multi\n  line\"", b"'multi\n  line'",
        b"plain\n  continued",
    ];
    out.extend_from_slice(S[u.below(S.len())]);
}

fn yaml_block(u: &mut Src, out: &mut Vec<u8>, indent: usize, depth: usize, budget: &mut usize) {
    let pad = |out: &mut Vec<u8>, n: usize| out.extend(std::iter::repeat(b' ').take(n));
    let n = u.range(1, 4);
    let kind = u.below(4); // 0 map, 1 seq, 2 seq of maps (compact), 3 explicit keys
    for i in 0..n {
        if *budget == 0 {
            return;
        }
        *budget -= 1;
        pad(out, indent);
        let step = *u.pick(&[1usize, 2, 2, 2, 3, 4]);
        match kind {
            0 | 3 => {
                if kind == 3 && u.ratio(1, 2) {
                    out.extend_from_slice(b"? ");
                    yaml_scalar(u, out);
                    out.push(b'\n');
                    pad(out, indent);
                    out.extend_from_slice(b": ");
                } else {
                    if u.ratio(1, 8) {
                        out.extend_from_slice(b"&k ");
                    }
                    out.extend_from_slice(*u.pick(&[&b"a"[..], b"b", b"key", b"\"q k\"", b"'s'", b"<<", b"1", b"? x", b"a b", b"\xc3\xa9"]));
                    if i > 0 && u.ratio(1, 10) {
                        out.extend_from_slice(b"a"); // near-duplicate key
                    }
                    out.push(b':');
                    if u.ratio(1, 12) {
                        out.push(b'\n');
                        continue;
                    }
                    out.push(b' ');
                }
                yaml_value(u, out, indent, step, depth, budget);
            }
            1 => {
                out.extend_from_slice(b"- ");
                yaml_value(u, out, indent, step.max(2), depth, budget);
            }
            _ => {
                out.extend_from_slice(b"- ");
                out.extend_from_slice(b"k: ");
                yaml_scalar(u, out);
                out.push(b'\n');
                pad(out, indent + 2);
                out.extend_from_slice(b"v: ");
                yaml_value(u, out, indent + 2, step, depth, budget);
            }
        }
    }
}

fn yaml_value(u: &mut Src, out: &mut Vec<u8>, indent: usize, step: usize, depth: usize, budget: &mut usize) {
    let pad = |out: &mut Vec<u8>, n: usize| out.extend(std::iter::repeat(b' ').take(n));
    let pick = if depth == 0 { u.below(5) } else { u.below(8) };
    match pick {
        0 | 1 | 2 => {
            yaml_scalar(u, out);
            if u.ratio(1, 6) {
                out.extend_from_slice(b" # c");
            }
            out.push(b'\n');
        }
        3 => {
            // block scalar
            out.extend_from_slice(*u.pick(&[&b"|"[..], b">", b"|-", b"|+", b">-", b"|2", b">1-", b"| # c"]));
            out.push(b'\n');
            for _ in 0..u.range(0, 3) {
                pad(out, indent + step + u.below(3));
                out.extend_from_slice(*u.pick(&[&b"text"[..], b"# not comment", b"a: b", b"- x", b"", b"  more", b"\xe2\x80\xa8"]));
                out.push(b'\n');
            }
        }
        4 => {
            if u.ratio(1, 2) {
                out.extend_from_slice(*u.pick(&[&b"&a "[..], b"!t ", b"!!map ", b"&a !t ", b"!!seq "]));
            }
            // flow collection, possibly multi-line
            out.extend_from_slice(*u.pick(&[&b"[a, b, [c]]"[..], b"{a: 1, b: [2, 3]}", b"[\n   a,\n   b\n ]", b"{a: {b: {c: d}}}", b"[a: 1, ? b]", b"{? a : b, c}", b"[*a, &x y]"]));
            out.push(b'\n');
        }
        _ => {
            if u.ratio(1, 5) {
                out.extend_from_slice(*u.pick(&[&b"&a"[..], b"!t", b"&a !!map"]));
            }
            out.push(b'\n');
            yaml_block(u, out, indent + step, depth - 1, budget);
        }
    }
}

/// A mostly well-formed block/flow YAML document (anchors, aliases, tags, block scalars,
/// comments, explicit keys, multi-document markers). Validity is *not* guaranteed.
pub fn yaml_snippet(u: &mut Src) -> Vec<u8> {
    let mut out = Vec::new();
    let docs = *u.pick(&[1usize, 1, 1, 2, 3]);
    let mut budget = u.range(2, 40);
    for d in 0..docs {
        if d > 0 || u.ratio(1, 4) {
            if u.ratio(1, 6) {
                out.extend_from_slice(b"%YAML 1.2\n");
            }
            out.extend_from_slice(*u.pick(&[&b"---\n"[..], b"--- \n", b"--- # c\n", b"---\n", b"--- !t\n", b"--- &r\n"]));
        }
        if u.ratio(1, 8) {
            out.extend_from_slice(b"# head comment\n");
        }
        if u.ratio(1, 10) {
            yaml_scalar(u, &mut out);
            out.push(b'\n');
        } else {
            let depth = u.range(0, 4);
            yaml_block(u, &mut out, 0, depth, &mut budget);
        }
        if u.ratio(1, 6) {
            out.extend_from_slice(b"...\n");
        }
    }
    if u.ratio(1, 6) {
        out.pop(); // no final newline
    }
    if u.ratio(1, 10) {
        // CRLF line endings
        let mut v = Vec::with_capacity(out.len() + 16);
        for b in out {
            if b == b'\n' {
                v.push(b'\r');
            }
            v.push(b);
        }
        out = v;
    }
    out
}

// ---------------------------------------------------------------- mutation

/// Apply 1..=3 mutation operators; returns the name of the last operator applied.
pub fn mutate(u: &mut Src, mut v: Vec<u8>, alphabet: &[&[u8]]) -> (Vec<u8>, &'static str) {
    let mut last = "none";
    let ops = u.range(1, 3);
    for _ in 0..ops {
        if v.is_empty() {
            v.extend_from_slice(alphabet[u.below(alphabet.len())]);
            last = "insert-token";
            continue;
        }
        let i = u.below(v.len());
        match u.below(12) {
            0 => {
                v.truncate(i);
                last = "truncate";
            }
            1 => {
                v[i] = u.byte();
                last = "byte-set";
            }
            2 => {
                v[i] ^= 1 << u.below(8);
                last = "bit-flip";
            }
            3 => {
                let l = u.range(1, 8).min(v.len() - i);
                v.drain(i..i + l);
                last = "delete-range";
            }
            4 => {
                let t = alphabet[u.below(alphabet.len())];
                v.splice(i..i, t.iter().copied());
                last = "insert-token";
            }
            5 => {
                // splice: copy a chunk from elsewhere over/into here
                let j = u.below(v.len());
                let l = u.range(1, 24).min(v.len() - j);
                let chunk: Vec<u8> = v[j..j + l].to_vec();
                if u.bool() {
                    v.splice(i..i, chunk);
                } else {
                    let e = (i + l).min(v.len());
                    v.splice(i..e, chunk);
                }
                last = "splice";
            }
            6 => {
                // block duplication
                let l = u.range(1, 64).min(v.len() - i);
                let chunk: Vec<u8> = v[i..i + l].to_vec();
                let reps = u.range(1, 4);
                for _ in 0..reps {
                    v.splice(i..i, chunk.iter().copied());
                }
                last = "dup-block";
            }
            7 => {
                // indentation shift on one or all lines from here on
                let add = u.bool();
                let n = u.range(1, 3);
                let all = u.bool();
                let mut out = Vec::with_capacity(v.len() + 32);
                let mut at_line_start = i == 0;
                let mut done_one = false;
                for (k, &b) in v.iter().enumerate() {
                    if k >= i && at_line_start && (all || !done_one) {
                        done_one = true;
                        if add {
                            out.extend(std::iter::repeat(b' ').take(n));
                            out.push(b);
                        } else if b == b' ' {
                            // drop (first of up to n handled by repeated application)
                        } else {
                            out.push(b);
                        }
                    } else {
                        out.push(b);
                    }
                    at_line_start = b == b'\n';
                }
                v = out;
                last = "indent-shift";
            }
            8 => {
                v[i] = *u.pick(&[0x80u8, 0xbf, 0xc0, 0xc3, 0xe2, 0xed, 0xf0, 0xf4, 0xff, 0x00, 0x0b, 0x7f]);
                last = "hostile-byte";
            }
            9 => {
                // newline style
                let mut out = Vec::with_capacity(v.len() + 16);
                for &b in &v {
                    if b == b'\n' {
                        out.push(b'\r');
                    }
                    out.push(b);
                }
                v = out;
                last = "crlf";
            }
            10 => {
                // swap two bytes
                let j = u.below(v.len());
                v.swap(i, j);
                last = "swap";
            }
            _ => {
                // replace a space/tab class
                v[i] = *u.pick(b"\t \n\"'\\:,-#");
                last = "indicator-set";
            }
        }
    }
    (v, last)
}

// ---------------------------------------------------------------- deep shapes

/// `unit` repeated `n` times, optionally an inner value and the closers.
pub fn deep_shape(open: &[u8], inner: &[u8], close: &[u8], n: usize, closed: bool) -> Vec<u8> {
    let mut v = Vec::with_capacity((open.len() + close.len()) * n + inner.len());
    for _ in 0..n {
        v.extend_from_slice(open);
    }
    v.extend_from_slice(inner);
    if closed {
        for _ in 0..n {
            v.extend_from_slice(close);
        }
    }
    v
}

/// Block YAML staircase `k:\n k:\n  k: v` of the given depth (quadratic size).
pub fn yaml_staircase(n: usize, seq: bool) -> Vec<u8> {
    let mut v = Vec::with_capacity(n * n / 2 + 4 * n + 8);
    for d in 0..n {
        v.extend(std::iter::repeat(b' ').take(d));
        v.extend_from_slice(if seq { b"-\n" } else { b"k:\n" });
    }
    v.extend(std::iter::repeat(b' ').take(n));
    v.extend_from_slice(b"v\n");
    v
}

/// Over-approximate nesting measure of an input: the largest of the naive bracket depth
/// (quotes ignored), the number of distinct increasing indentation levels open at once,
/// the longest run of `- ` / `? ` indicators on a line and the number of `*` bytes.
/// Used only to decide whether a *documented depth-guard* panic is legitimate.
pub fn nesting_measure(b: &[u8]) -> usize {
    let mut depth = 0usize;
    let mut max_depth = 0usize;
    let mut stars = 0usize;
    let mut indents: Vec<usize> = vec![];
    let mut max_ind = 0usize;
    let mut max_run = 0usize;
    let mut i = 0;
    while i < b.len() {
        // line start
        let mut ind = 0;
        while i + ind < b.len() && (b[i + ind] == b' ' || b[i + ind] == b'\t') {
            ind += 1;
        }
        let mut j = i + ind;
        let mut run = 0;
        while j + 1 < b.len() && (b[j] == b'-' || b[j] == b'?' || b[j] == b':') && (b[j + 1] == b' ' || b[j + 1] == b'\t') {
            run += 1;
            j += 2;
            while j < b.len() && (b[j] == b' ' || b[j] == b'\t') {
                j += 1;
            }
        }
        max_run = max_run.max(run);
        if j < b.len() && b[j] != b'\n' && b[j] != b'\r' {
            while indents.last().map_or(false, |&t| t >= ind) {
                indents.pop();
            }
            indents.push(ind);
            max_ind = max_ind.max(indents.len() + run);
        }
        while i < b.len() && b[i] != b'\n' {
            match b[i] {
                b'[' | b'{' | b'(' => {
                    depth += 1;
                    max_depth = max_depth.max(depth);
                }
                b']' | b'}' | b')' => depth = depth.saturating_sub(1),
                b'*' => stars += 1,
                _ => {}
            }
            i += 1;
        }
        i += 1;
    }
    max_depth.max(max_ind).max(max_run).max(stars)
}
