//! Near-valid JSON mutators, token soups, raw bytes and alignment helpers (DESIGN §3,
//! C05/C08). Everything is decoded from `Src`; every function is a pure function of its
//! arguments.
use crate::engine::Src;
use crate::gen::json::{self, GenOpts, Rendered, J};

/// Bytes that sit on the edges of the classification ranges used by the JSON scanners
/// (value characters `[A-Za-z0-9.+-]`, structurals, quote, backslash) plus their
/// high-bit twins (a signed/unsigned compare slip turns 0xE1 into 'a').
pub const BOUNDARY_BYTES: &[u8] = &[
    b'@', b'[', b'`', b'{', b'/', b':', b',', b'*', b'+', b'-', b'.', b'0', b'9', b'A', b'Z', b'a', b'z', b'^',
    b'_', b'|', b'}', b'~', 0x7f, b'<', b']', b'\\', b'"', b'!', b'#', 0x00, 0x1f, 0x20, 0x80, 0xa2, 0xdc, 0xdb,
    0xfb, 0xfd, 0xe1, 0xc1, 0xb0, 0xad, 0xae, 0xab, 0xba, 0xac, 0xff, 0xc0, 0xc2, 0xe0, 0xed, 0xf0, 0xf4, 0xf5,
];

pub const STRUCTURALS: &[u8] = b"{}[],:";
pub const WS: &[u8] = b" \n\r\t";

/// One byte with a bias towards bytes the scanners/grammar treat specially.
pub fn interesting_byte(u: &mut Src) -> u8 {
    match u.below(8) {
        0 | 1 => *u.pick(STRUCTURALS),
        2 => *u.pick(b"\"\\"),
        3 => *u.pick(BOUNDARY_BYTES),
        4 => *u.pick(b"0123456789-+.eEtrufalsn"),
        5 => *u.pick(WS),
        _ => u.byte(),
    }
}

/// A generated document: model + rendering.
pub fn gen_doc(u: &mut Src, o: &GenOpts) -> (J, Rendered) {
    let j = json::gen_value(u, o);
    let ro = json::render_opts(u);
    let r = json::render(&j, u, ro);
    (j, r)
}

#[derive(Clone, Debug)]
pub struct Edit {
    pub kind: &'static str,
    pub at: usize,
    pub detail: String,
}

/// Byte sequences that are invalid (or borderline) inside a JSON string.
pub const STRING_POISON: &[&[u8]] = &[
    b"\\uD800",
    b"\\uDBFF",
    b"\\uDC00",
    b"\\uDFFF",
    b"\\ud83d",
    b"\\uD83D\\u0041",
    b"\\uD83D\\uD83D",
    b"\\uD83D\\n",
    b"\\uD83Dx",
    b"\\uDE00\\uD83D",
    b"\\uD83D\\uDE00", // valid pair
    b"\\uD7FF",        // valid
    b"\\uE000",        // valid
    b"\\u00",
    b"\\u00G0",
    b"\\u",
    b"\\x41",
    b"\\a",
    b"\\0",
    b"\\",
    b"\\\\",
    b"\\\"",
    &[0xC0, 0x80],             // overlong NUL
    &[0xC1, 0xBF],             // overlong
    &[0xE0, 0x80, 0x80],       // overlong 3
    &[0xE0, 0x9F, 0xBF],       // overlong 3
    &[0xE0, 0xA0, 0x80],       // valid U+0800
    &[0xF0, 0x80, 0x80, 0x80], // overlong 4
    &[0xF0, 0x8F, 0xBF, 0xBF], // overlong 4
    &[0xF0, 0x90, 0x80, 0x80], // valid U+10000
    &[0xED, 0xA0, 0x80],       // surrogate U+D800
    &[0xED, 0xBF, 0xBF],       // surrogate U+DFFF
    &[0xED, 0x9F, 0xBF],       // valid U+D7FF
    &[0xF4, 0x8F, 0xBF, 0xBF], // valid U+10FFFF
    &[0xF4, 0x90, 0x80, 0x80], // > U+10FFFF
    &[0xF5, 0x80, 0x80, 0x80],
    &[0xF8, 0x88, 0x80, 0x80, 0x80],
    &[0xFF],
    &[0xFE],
    &[0x80],
    &[0xBF],
    &[0xC2],             // truncated 2
    &[0xE2, 0x82],       // truncated 3
    &[0xF0, 0x9F, 0x98], // truncated 4
    &[0xE2, 0x28, 0xA1],
    &[0xEF, 0xBB, 0xBF], // BOM (valid inside a string)
    &[0x00],
    &[0x1F],
    &[0x7F],
    b"\n",
    b"\r",
    b"\t",
];

/// Sequences inserted at token boundaries.
pub const TOKEN_POISON: &[&[u8]] = &[
    &[0xEF, 0xBB, 0xBF],
    &[0x00],
    b",",
    b",,",
    b":",
    b"[",
    b"]",
    b"{",
    b"}",
    b"\"",
    b"+1",
    b"01",
    b"-",
    b"1.",
    b".5",
    b"1e",
    b"1e+",
    b"-0",
    b"0e0",
    b"nul",
    b"nulll",
    b"truex",
    b"True",
    b"NaN",
    b"Infinity",
    b"null",
    b"true",
    b"false",
    b"''",
    b"/**/",
    b"//",
    b"\x0c",
    b"\x0b",
    &[0xC2, 0xA0],
    &[0xE2, 0x80, 0xA8],
    b"\r\n",
    b"\r",
    b"\n",
    b" ",
];

fn string_spans(r: &Rendered) -> Vec<(usize, usize)> {
    r.spans.iter().filter(|s| s.kind == "string").map(|s| (s.start, s.end)).collect()
}

/// Apply one edit to `text` (rendering metadata refers to the *original* text and is only
/// used to aim the edit; it is not updated). Returns the edit description.
pub fn mutate_once(u: &mut Src, text: &mut Vec<u8>, r: Option<&Rendered>, other: Option<&[u8]>) -> Edit {
    let n = text.len();
    let pick_pos = |u: &mut Src, n: usize, r: Option<&Rendered>| -> usize {
        if n == 0 {
            return 0;
        }
        match (u.below(4), r) {
            (0, Some(r)) if !r.structurals.is_empty() => (*u.pick(&r.structurals)).min(n - 1),
            (1, Some(r)) if !r.spans.is_empty() => {
                let s = u.pick(&r.spans);
                let p = match u.below(4) {
                    0 => s.start,
                    1 => s.end.saturating_sub(1),
                    2 => s.end,
                    _ => u.range(s.start, s.end.max(s.start + 1) - 1),
                };
                p.min(n - 1)
            }
            _ => u.below(n),
        }
    };
    match u.below(14) {
        0 | 1 | 2 if n > 0 => {
            let p = pick_pos(u, n, r);
            let b = if u.bool() { interesting_byte(u) } else { u.byte() };
            let old = text[p];
            text[p] = b;
            Edit { kind: "replace", at: p, detail: format!("{:02x}->{:02x}", old, b) }
        }
        3 | 4 => {
            let p = if n == 0 { 0 } else { pick_pos(u, n + 1, r).min(n) };
            let b = if u.bool() { interesting_byte(u) } else { u.byte() };
            text.insert(p, b);
            Edit { kind: "insert", at: p, detail: format!("{:02x}", b) }
        }
        5 | 6 if n > 0 => {
            let p = pick_pos(u, n, r);
            let b = text.remove(p);
            Edit { kind: "delete", at: p, detail: format!("{:02x}", b) }
        }
        7 if n > 0 => {
            let p = pick_pos(u, n, r);
            text.truncate(p);
            Edit { kind: "truncate", at: p, detail: String::new() }
        }
        8 => {
            // duplicate or drop a token (a span or a structural byte)
            if let Some(r) = r {
                if !r.spans.is_empty() && n > 0 {
                    let s = u.pick(&r.spans);
                    let (a, b) = (s.start.min(n), s.end.min(n));
                    if u.bool() {
                        let tok: Vec<u8> = text[a..b].to_vec();
                        let at = if u.bool() { b } else { a };
                        text.splice(at..at, tok);
                        return Edit { kind: "dup-token", at, detail: format!("{}..{}", a, b) };
                    } else {
                        text.drain(a..b);
                        return Edit { kind: "drop-token", at: a, detail: format!("{}..{}", a, b) };
                    }
                }
            }
            let p = if n == 0 { 0 } else { u.below(n + 1) };
            let t = *u.pick(TOKEN_POISON);
            text.splice(p..p, t.iter().copied());
            Edit { kind: "insert-token", at: p, detail: format!("{:?}", t) }
        }
        9 => {
            // swap a bracket for another bracket
            let br: Vec<usize> = (0..n).filter(|&i| matches!(text[i], b'[' | b']' | b'{' | b'}')).collect();
            if br.is_empty() {
                text.push(b']');
                return Edit { kind: "append-bracket", at: n, detail: String::new() };
            }
            let p = *u.pick(&br);
            let b = *u.pick(b"[]{}");
            let old = text[p];
            text[p] = b;
            Edit { kind: "swap-bracket", at: p, detail: format!("{}->{}", old as char, b as char) }
        }
        10 | 11 => {
            // poison inside a string
            let ss = r.map(string_spans).unwrap_or_default();
            let t = *u.pick(STRING_POISON);
            let p = if ss.is_empty() || n == 0 {
                if n == 0 {
                    0
                } else {
                    u.below(n + 1)
                }
            } else {
                let (a, b) = *u.pick(&ss);
                // strictly inside the quotes when possible
                let lo = (a + 1).min(n);
                let hi = b.saturating_sub(1).max(lo).min(n);
                u.range(lo, hi)
            };
            text.splice(p..p, t.iter().copied());
            Edit { kind: "string-poison", at: p, detail: format!("{:02x?}", t) }
        }
        12 => {
            let p = match r {
                Some(r) if !r.structurals.is_empty() && u.bool() => {
                    let s = *u.pick(&r.structurals);
                    (s + u.below(2)).min(n)
                }
                _ => {
                    if n == 0 {
                        0
                    } else {
                        let q = u.below(n + 1);
                        *u.pick(&[0, n, q])
                    }
                }
            };
            let t = *u.pick(TOKEN_POISON);
            text.splice(p..p, t.iter().copied());
            Edit { kind: "insert-token", at: p, detail: format!("{:02x?}", t) }
        }
        _ => {
            // splice: prefix of this + suffix of another document
            match other {
                Some(o) if !o.is_empty() && n > 0 => {
                    let a = u.below(n + 1);
                    let b = u.below(o.len() + 1);
                    text.truncate(a);
                    text.extend_from_slice(&o[b..]);
                    Edit { kind: "splice", at: a, detail: format!("other[{}..]", b) }
                }
                _ => {
                    let b = interesting_byte(u);
                    text.push(b);
                    Edit { kind: "append", at: n, detail: format!("{:02x}", b) }
                }
            }
        }
    }
}

/// Token soup: a random sequence of JSON-ish tokens (not a document). `profile` 0 = grammar
/// tokens (C08), 1 = scanner tokens with boundary bytes and backslash runs (C05).
pub fn token_soup(u: &mut Src, max_len: usize, profile: u8) -> Vec<u8> {
    let target = u.len_biased(max_len, &[15, 16, 17, 31, 32, 33, 63, 64, 65, 127, 128, 129]);
    let mut out = Vec::with_capacity(target + 16);
    // a small palette of pieces for this soup; long soups re-use the palette
    let npal = u.range(3, 24);
    let mut pal: Vec<Vec<u8>> = Vec::with_capacity(npal);
    for _ in 0..npal {
        pal.push(soup_piece(u, profile));
    }
    while out.len() < target {
        if u.ratio(1, 6) {
            let p = soup_piece(u, profile);
            out.extend_from_slice(&p);
        } else {
            let p = &pal[u.below(pal.len())];
            out.extend_from_slice(p);
        }
        if u.is_empty() && out.len() < target {
            // entropy exhausted: finish by tiling what we have (keeps big soups reachable)
            if out.is_empty() {
                break;
            }
            let base = out.clone();
            while out.len() < target {
                let k = (target - out.len()).min(base.len());
                out.extend_from_slice(&base[..k]);
            }
        }
    }
    out.truncate(target);
    out
}

fn soup_piece(u: &mut Src, profile: u8) -> Vec<u8> {
    let mut v = Vec::new();
    match u.below(if profile == 1 { 16 } else { 13 }) {
        0 | 1 => v.push(*u.pick(STRUCTURALS)),
        2 => v.push(b'"'),
        3 => {
            // a short string, possibly unterminated
            v.push(b'"');
            for _ in 0..u.below(6) {
                v.push(*u.pick(b"ab{}[],: \\\"x"));
            }
            if u.ratio(3, 4) {
                v.push(b'"');
            }
        }
        4 => {
            for _ in 0..u.range(1, 5) {
                v.push(b'\\');
            }
            if u.bool() {
                v.push(*u.pick(b"\"\\/bfnrtu0x"));
            }
        }
        5 => v.extend_from_slice(*u.pick(&[&b"null"[..], b"true", b"false", b"nul", b"tru", b"n", b"t", b"f"])),
        6 => {
            for _ in 0..u.range(1, 6) {
                v.push(*u.pick(b"0123456789-+.eE"));
            }
        }
        7 => {
            for _ in 0..u.range(1, 3) {
                v.push(*u.pick(WS));
            }
        }
        8 => v.extend_from_slice(*u.pick(TOKEN_POISON)),
        9 => v.extend_from_slice(*u.pick(STRING_POISON)),
        10 => {
            // a well-formed scalar
            let o = GenOpts { max_depth: 0, max_nodes: 1, ..GenOpts::default() };
            let j = json::gen_scalar(u, &o);
            v.extend_from_slice(json::to_compact(&j).as_bytes());
        }
        11 => v.extend_from_slice(b"\"k\":"),
        12 => v.push(u.byte()),
        13 | 14 => v.push(*u.pick(BOUNDARY_BYTES)),
        _ => {
            // run of one byte (long strings/values/whitespace crossing chunks)
            let b = *u.pick(b"a1 \\\"x-{[");
            for _ in 0..u.range(1, 40) {
                v.push(b);
            }
        }
    }
    v
}

/// Raw bytes, uniform or from a narrow alphabet, expanded from little entropy.
pub fn raw_bytes(u: &mut Src, max_len: usize) -> Vec<u8> {
    let n = u.len_biased(max_len, &[16, 32, 64, 128]);
    match u.below(3) {
        0 => u.bytes(n),
        1 => {
            let k = u.range(1, 8);
            let alpha: Vec<u8> = (0..k).map(|_| interesting_byte(u)).collect();
            (0..n).map(|_| alpha[u.below(k)]).collect()
        }
        _ => {
            let sl = u.range(1, 48);
            let seed = u.bytes(sl);
            let mut v = Vec::with_capacity(n);
            while v.len() < n {
                let k = (n - v.len()).min(seed.len());
                v.extend_from_slice(&seed[..k]);
            }
            v
        }
    }
}

/// `k` spaces followed by `body`.
pub fn with_prefix(k: usize, body: &[u8]) -> Vec<u8> {
    let mut v = Vec::with_capacity(k + body.len());
    v.resize(k, b' ');
    v.extend_from_slice(body);
    v
}

/// A document nested exactly `depth` deep, from a bracket pattern, with optional
/// whitespace and an inner scalar; returns the text.
pub fn nested_text(u: &mut Src, depth: usize) -> Vec<u8> {
    let style = u.below(5);
    let pat = u.u64();
    let ws = u.ratio(1, 4);
    let mut open = Vec::new();
    let mut close = Vec::new();
    for i in 0..depth {
        let obj = match style {
            0 => false,
            1 => true,
            2 => i % 2 == 0,
            _ => (pat >> (i % 64)) & 1 == 1,
        };
        if obj {
            open.extend_from_slice(b"{\"a\":");
            close.push(b'}');
        } else {
            open.push(b'[');
            close.push(b']');
        }
        if ws && (pat >> ((i + 7) % 64)) & 1 == 1 {
            open.push(*u.pick(WS));
        }
    }
    close.reverse();
    let inner: &[u8] = *u.pick(&[&b""[..], b"1", b"\"x\"", b"null", b"[]", b"{}", b"[1,2]", b"{\"b\":[]}"]);
    // an empty inner is only valid inside an array (`[]`); inside an object it makes the
    // text invalid — both are wanted
    let mut t = open;
    t.extend_from_slice(inner);
    t.extend_from_slice(&close);
    t
}
