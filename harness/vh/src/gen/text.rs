//! G-text: Unicode characters/strings by class, and UTF-8 byte strings with
//! planted defects (DESIGN §3 G-json character classes, §4 C09 / C13).
use crate::engine::Src;

#[derive(Clone, Copy, Debug, PartialEq, Eq)]
pub enum CharClass {
    C0,
    Del,
    C1,
    QuoteBackslash,
    Ascii,
    Latin1,
    Bmp2,    // U+0100..U+07FF (2-byte)
    Bmp3,    // 3-byte BMP
    Special, // U+2028/9, noncharacters, U+FFFD, surrogate neighbours, width boundaries
    Astral,
}

pub const ALL_CLASSES: &[CharClass] = &[
    CharClass::C0,
    CharClass::Del,
    CharClass::C1,
    CharClass::QuoteBackslash,
    CharClass::Ascii,
    CharClass::Latin1,
    CharClass::Bmp2,
    CharClass::Bmp3,
    CharClass::Special,
    CharClass::Astral,
];

const SPECIALS: &[u32] = &[
    0x2028, 0x2029, 0xFFFD, 0xFFFE, 0xFFFF, 0xFDD0, 0xFDEF, 0xD7FF, 0xE000, 0x7FF, 0x800, 0x80, 0x7F, 0x10000,
    0x10FFFF, 0x1FFFE, 0x1FFFF, 0x10FFFE, 0xFEFF, 0x200B, 0x202E, 0x85, 0xA0, 0xAD, 0x1F, 0x20, 0x22, 0x5C,
    0x2F, 0x1F600,
];

pub fn char_of(u: &mut Src, c: CharClass) -> char {
    let cp = match c {
        CharClass::C0 => u.below(0x20) as u32,
        CharClass::Del => 0x7f,
        CharClass::C1 => 0x80 + u.below(0x20) as u32,
        CharClass::QuoteBackslash => *u.pick(&[0x22u32, 0x5c, 0x22, 0x5c, 0x2f]),
        CharClass::Ascii => 0x20 + u.below(0x5f) as u32,
        CharClass::Latin1 => 0xa0 + u.below(0x60) as u32,
        CharClass::Bmp2 => 0x100 + u.below(0x700) as u32,
        CharClass::Bmp3 => {
            let x = 0x800 + u.below(0x10000 - 0x800) as u32;
            if (0xD800..=0xDFFF).contains(&x) {
                x - 0x1000
            } else {
                x
            }
        }
        CharClass::Special => *u.pick(SPECIALS),
        CharClass::Astral => 0x10000 + u.below(0x100000) as u32,
    };
    char::from_u32(cp).unwrap_or('\u{fffd}')
}

/// Filler profiles: what the non-planted characters of a string look like.
#[derive(Clone, Copy, Debug, PartialEq, Eq)]
pub enum Profile {
    AsciiOnly,
    Mixed,
    MultiByteHeavy,
    ControlsHeavy,
    AnyScalar,
}

pub fn profile(u: &mut Src) -> Profile {
    *u.pick(&[Profile::AsciiOnly, Profile::Mixed, Profile::Mixed, Profile::MultiByteHeavy, Profile::ControlsHeavy, Profile::AnyScalar])
}

pub fn filler_char(u: &mut Src, p: Profile) -> char {
    match p {
        Profile::AsciiOnly => {
            // printable ASCII that no convention escapes
            loop {
                let c = (0x20 + u.below(0x5f) as u8) as char;
                if c != '"' && c != '\\' {
                    return c;
                }
                if u.is_empty() {
                    return 'a';
                }
            }
        }
        Profile::Mixed => {
            let w = u.weighted(&[10, 1, 1, 1, 2, 2, 2, 2, 1]);
            let cl = [
                CharClass::Ascii,
                CharClass::C0,
                CharClass::Del,
                CharClass::C1,
                CharClass::Latin1,
                CharClass::Bmp2,
                CharClass::Bmp3,
                CharClass::Astral,
                CharClass::Special,
            ][w];
            char_of(u, cl)
        }
        Profile::MultiByteHeavy => {
            let w = u.weighted(&[1, 2, 3, 3, 1, 1]);
            let cl = [CharClass::Ascii, CharClass::Latin1, CharClass::Bmp3, CharClass::Astral, CharClass::C1, CharClass::Special][w];
            char_of(u, cl)
        }
        Profile::ControlsHeavy => {
            let w = u.weighted(&[3, 4, 1, 2, 2]);
            let cl = [CharClass::Ascii, CharClass::C0, CharClass::Del, CharClass::QuoteBackslash, CharClass::C1][w];
            char_of(u, cl)
        }
        Profile::AnyScalar => {
            let x = u.below(0x110000 - 0x800) as u32;
            let cp = if x >= 0xD800 { x + 0x800 } else { x };
            char::from_u32(cp).unwrap_or('a')
        }
    }
}

/// Escapable / convention-sensitive characters planted on purpose.
pub const PLANTS: &[char] = &[
    '"', '\\', '\u{0}', '\u{1}', '\u{8}', '\t', '\n', '\u{b}', '\u{c}', '\r', '\u{1b}', '\u{1f}', '\u{7f}', '\u{80}', '\u{85}',
    '\u{9f}', '\u{a0}', '\u{e9}', '\u{2028}', '\u{ffff}', '\u{1f600}', '/', ' ',
];

// ------------------------------------------------------------------ UTF-8 byte strings

/// Encode any 21-bit value (also surrogates / > U+10FFFF up to 0x1FFFFF) with the
/// generic UTF-8 bit layout of the given width (1..=4). Used to make overlongs,
/// surrogates and out-of-range sequences; not a validity oracle.
pub fn raw_encode(cp: u32, width: usize) -> Vec<u8> {
    match width {
        1 => vec![(cp & 0x7f) as u8],
        2 => vec![0xC0 | ((cp >> 6) & 0x1f) as u8, 0x80 | (cp & 0x3f) as u8],
        3 => vec![0xE0 | ((cp >> 12) & 0x0f) as u8, 0x80 | ((cp >> 6) & 0x3f) as u8, 0x80 | (cp & 0x3f) as u8],
        _ => vec![
            0xF0 | ((cp >> 18) & 0x07) as u8,
            0x80 | ((cp >> 12) & 0x3f) as u8,
            0x80 | ((cp >> 6) & 0x3f) as u8,
            0x80 | (cp & 0x3f) as u8,
        ],
    }
}

#[derive(Clone, Copy, Debug, PartialEq, Eq)]
pub enum Defect {
    Overlong2,      // C0/C1 xx
    Overlong3,      // E0 80..9F xx
    Overlong4,      // F0 80..8F xx xx
    Surrogate,      // ED A0..BF xx
    TooLargeF4,     // F4 90.. xx xx
    TooLargeF5,     // F5..F7 xx xx xx
    InvalidLeadF8,  // F8..FF
    LoneCont,       // 80..BF where a lead is expected
    BadCont,        // valid lead, continuation j replaced by a non-continuation
    TruncatedAtEnd, // valid sequence cut short by the end of input (only meaningful as the last thing)
    TruncatedMid,   // valid sequence cut short, followed by ASCII
}

pub const DEFECTS: &[Defect] = &[
    Defect::Overlong2,
    Defect::Overlong3,
    Defect::Overlong4,
    Defect::Surrogate,
    Defect::TooLargeF4,
    Defect::TooLargeF5,
    Defect::InvalidLeadF8,
    Defect::LoneCont,
    Defect::BadCont,
    Defect::TruncatedAtEnd,
    Defect::TruncatedMid,
];

/// Bytes of one malformed sequence of the requested kind.
pub fn defect_bytes(u: &mut Src, d: Defect) -> Vec<u8> {
    let cont = |u: &mut Src| 0x80 + u.below(0x40) as u8;
    match d {
        Defect::Overlong2 => vec![0xC0 + u.below(2) as u8, cont(u)],
        Defect::Overlong3 => vec![0xE0, 0x80 + u.below(0x20) as u8, cont(u)],
        Defect::Overlong4 => vec![0xF0, 0x80 + u.below(0x10) as u8, cont(u), cont(u)],
        Defect::Surrogate => vec![0xED, 0xA0 + u.below(0x20) as u8, cont(u)],
        Defect::TooLargeF4 => vec![0xF4, 0x90 + u.below(0x30) as u8, cont(u), cont(u)],
        Defect::TooLargeF5 => vec![0xF5 + u.below(3) as u8, cont(u), cont(u), cont(u)],
        Defect::InvalidLeadF8 => vec![0xF8 + u.below(8) as u8],
        Defect::LoneCont => {
            let n = 1 + u.below(3);
            (0..n).map(|_| cont(u)).collect()
        }
        Defect::BadCont => {
            let w = 2 + u.below(3);
            let c = char_of(u, [CharClass::Latin1, CharClass::Bmp3, CharClass::Astral][w - 2]);
            let mut b = [0u8; 4];
            let mut v = c.encode_utf8(&mut b).as_bytes().to_vec();
            let j = 1 + u.below(v.len() - 1);
            // non-continuation replacement: ASCII, LF, a lead byte, 0xC0, 0xFF
            v[j] = *u.pick(&[b'a', b'\n', 0x00, 0x7f, 0xC2, 0xE2, 0xF0, 0xC0, 0xFF, b'"']);
            v
        }
        Defect::TruncatedAtEnd | Defect::TruncatedMid => {
            let w = 2 + u.below(3);
            let c = char_of(u, [CharClass::Latin1, CharClass::Bmp3, CharClass::Astral][w - 2]);
            let mut b = [0u8; 4];
            let v = c.encode_utf8(&mut b).as_bytes().to_vec();
            let keep = 1 + u.below(v.len() - 1);
            v[..keep].to_vec()
        }
    }
}

/// Valid UTF-8 filler of about `n` bytes (never exceeds `n`), mixed widths.
pub fn valid_filler(u: &mut Src, n: usize, p: Profile) -> Vec<u8> {
    let mut out = Vec::with_capacity(n);
    let mut guard = 0;
    while out.len() < n && guard < n * 2 + 8 {
        guard += 1;
        let c = match p {
            Profile::AsciiOnly => (0x20 + u.below(0x5f) as u8) as char,
            _ => filler_char(u, p),
        };
        let mut b = [0u8; 4];
        let e = c.encode_utf8(&mut b).as_bytes();
        if out.len() + e.len() <= n {
            out.extend_from_slice(e);
        } else {
            // top up with ASCII so that the requested length is hit exactly
            out.push(if u.ratio(1, 8) { b'\n' } else { b'x' });
        }
    }
    out
}
