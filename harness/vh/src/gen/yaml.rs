//! G-yaml: YAML model, constructive generator and renderer with span table (DESIGN §3).
//!
//! # What this is
//!
//! A *model* of a YAML stream (`Vec<Y>`, one `Y` per document) and a *renderer* that
//! writes the model out as YAML text, making every presentation choice from the entropy
//! (`Src`) independently at every node. The value of every document is known by
//! construction, so loaders can be compared against the model (C14, C18, C26, C29) and
//! writers against their own re-read output (C15).
//!
//! ```ignore
//! use crate::gen::yaml::{self, YOpts};
//! let o = YOpts::full();                       // every feature group on
//! let stream = yaml::gen_stream(u, &o);        // Vec<Y>
//! let r = yaml::render(&stream, u, &o);        // RenderedYaml { text, spans, containers, stats, .. }
//! let expect: Vec<J> = stream.iter().map(yaml::to_json_model).collect();
//! ```
//!
//! # API summary
//!
//! * [`Y`] — `Null | Bool | Int(i64) | Str | Seq | Map(Vec<(String, Y)>)`; keys are strings,
//!   unique inside a mapping. [`to_json_model`] converts to `gen::json::J` (for
//!   `oracle::jsonval` / `j_eq`), [`to_typed_json`] to a `serde_json::Value` that keeps the
//!   scalar types explicit (`{"int":"5"}`, `{"str":"5"}`, `{"null":true}`, `{"bool":true}`).
//! * [`YOpts`] — model size knobs and *feature groups* that can be switched off:
//!   `anchors`, `comments`, `blank_lines`, `block_scalars`, `multi_doc`, `flow`, `block`,
//!   `line_breaks` (LF only / LF+CRLF+CR), `multiline_scalars`, `tab_separation`,
//!   `tab_in_plain`, `flow_plain_question`, `raw_unicode_breaks`, `flow_comments`, `indented_root`, `doc_end_markers`,
//!   `omit_final_newline`. Presets: [`YOpts::full`], [`YOpts::plain_data`] (no YAML-only
//!   features: what C26 wants), [`YOpts::block_only`], [`YOpts::flow_only`],
//!   [`YOpts::py_compat`] (the subset PyYAML 6 can cross-check, see "Self-validation").
//! * [`gen_stream`]`(u, &opts) -> Vec<Y>`, [`gen_doc`], [`gen_string`], [`gen_key`].
//! * [`render`]`(&stream, u, &opts) -> RenderedYaml`:
//!   - `text: Vec<u8>` (always valid UTF-8),
//!   - `spans: Vec<YSpan>` — one entry per scalar token, key token and alias token, in
//!     document order: `doc`, `path` (from the document root), `role` (Key/Value), byte
//!     `start..end`, `style`, `value` (the model value the token denotes; for a key
//!     `Y::Str(key)`; for an alias the aliased value), `anchor` (name defined on it),
//!     `alias` (name referenced),
//!   - `containers: Vec<YContainer>` — one entry per collection node (path, flow/block,
//!     seq/map, byte position of its first byte),
//!   - `doc_starts: Vec<usize>` — byte offset where each document's first line begins,
//!   - `stats: YStats` — counts of every presentation device used.
//! * [`YAvoid`] (`opts.avoid`) — trigger shapes of the *open known findings* that the renderer
//!   must not produce (DESIGN §2.6 "excluded by construction while the finding is open");
//!   `YAvoid::none()` by default in every preset. A property sets exactly the flags of its own
//!   open findings for its main search and runs a small `open-finding-shapes` sub-check with
//!   nothing avoided. [`known_shapes`]`(&rendered)` reports which of those shapes a rendered
//!   stream contains (from the span table), for attributing a failure to its finding.
//! * [`plain_ok`], [`looks_non_string`] — the quoting discipline (public so C15 can decide
//!   whether *its* subject's output was obliged to quote).
//!
//! # What is generated (and what is not, with the reason)
//!
//! A style is only offered where the YAML 1.2.2 grammar makes the reading unambiguous and
//! the repository documents support for it. Exclusions, each with its reason:
//!
//! * **Scalars resolving to a non-string** are written plain only in the spellings the 1.2
//!   core schema *and* `docs/compliance/yaml/1.2.md` agree on: `null Null NULL ~` and the
//!   empty node; `true True TRUE false False FALSE`; decimal `[-+]?(0|[1-9][0-9]*)` within
//!   i64. No hex/octal/float/`.inf` spellings (the model has no float; `1.2.md` lists
//!   deliberate divergences from yq in that area).
//! * **A string is written plain** only if [`plain_ok`]: non-empty, one line, printable, no
//!   leading/trailing white space, first character not an indicator (`-x`, and in block
//!   context `?x` / `:x`, are allowed as the grammar's `ns-plain-first` says), no `: ` / ` #`,
//!   not ending in `:`, in flow context none of `,[]{}`, and **not something any YAML
//!   version would resolve to a non-string** ([`looks_non_string`]: null/bool words in any
//!   capitalisation, `yes/no/on/off/y/n`, `nan/inf`, anything that is made of number/date
//!   characters and contains a digit, `<<`, `=`, document markers). Those are ambiguous
//!   across YAML versions, so they are always quoted — which is exactly the class
//!   "string that looks like another type" that C14 wants quoted.
//! * **Mapping keys** are strings; a key that would resolve to a non-string is always
//!   quoted (the JSON encoding of a non-string key is not defined by the statement). No
//!   explicit `?` keys, no alias keys, no collection keys, keys unique (duplicate-key
//!   behaviour is a documented open area). No key whose text is `<<`, quoted or not: merge
//!   keys are a documented feature (mod.rs "Supported") and the repository documents and
//!   test-pins that a *quoted* `"<<"` merges too, following yq (light.rs
//!   `is_merge_key_value`, `test_merge_key_quoted_still_merges`). `<<` still occurs as a value.
//! * **Block scalars** (`|`, `>` with `-`, `+`, clip): only in block context; content
//!   indented at least one column (zero-indented block scalars: documented gap
//!   DK3J/FP8R/W4TN); no explicit indentation indicator, hence the first non-empty content
//!   line never starts with a space or tab (M5C3 documented gap); no line consisting only
//!   of white space (L24T/00, JEF9/02 documented gaps) — blank lines inside and after the
//!   content are completely empty; never content-less (limitations.md "JEF9/02": spec and
//!   yq disagree on `|+` over blank lines). Folded scalars are restricted to non-indented
//!   lines so that the folding rule is the simple one (§8.1.3: one break → space, k+1
//!   breaks → k newlines).
//! * **Anchors/aliases**: names `[A-Za-z0-9_-]+` (colon in names: documented gap
//!   2SXE/W5VH), unique per stream, an alias only refers to an anchor of the *same*
//!   document that is complete (no cycles: documented rejection) and structurally equal
//!   to the node it replaces. An anchor on a block collection puts the collection on the
//!   following lines (`- &a k: v` would anchor the key, not the mapping).
//! * **Documents**: `---` between documents, optional before the first; `...` only with
//!   `doc_end_markers` (M7A3 documented gap; off in presets). No directives, no tags (not
//!   in the statement). An empty (null) document is only written with an explicit `---`.
//! * **Comments** are block-context only by default (`flow_comments: false`): mod.rs
//!   "Supported" says "Comments (ignored in block context)"; a comment inside a multi-line
//!   flow collection is not documented as supported. A *trailing* comment contains `: ` only
//!   on a line that has its own `key:` (documented: `b #c: d` → `KeyWithoutValue`,
//!   limitations.md and tests/yaml_tab_comment_tests.rs).
//! * **Not generated because the statement does not list them**: tags, directives, merge
//!   keys, explicit keys, single-pair flow sequence entries, tabs as indentation (illegal).
//!
//! # Self-validation
//!
//! `VH_YAML_DUMP=<dir> vh run C14 quick` writes `<i>.yaml` + `<i>.json` (typed model);
//! `tools`-independent script in the C14 module doc shows how they are cross-checked with
//! PyYAML 6.0.3 (`BaseLoader` for structure/strings, `safe_load_all` for typing). PyYAML
//! implements YAML 1.1 and cannot check: NEL/LS/PS written raw (1.1 line breaks, 1.2
//! content) → `raw_unicode_breaks`; tabs as separation or inside plain scalars (PyYAML
//! rejects both, 1.2 allows both; `tests/yaml_tab_separation_tests.rs` pins the former)
//! → `tab_separation`, `tab_in_plain`; `?` inside a flow plain scalar (`[a?b]`, `{u: http://h/p?q=1}`:
//! content per 1.2 `ns-plain-safe(flow)`, PyYAML stops the scalar) → `flow_plain_question`.
//! [`YOpts::py_compat`] switches exactly these off.

use crate::engine::Src;
use crate::gen::json::J;
use serde_json::{json, Value};

// ---------------------------------------------------------------- model

#[derive(Clone, Debug, PartialEq)]
pub enum Y {
    Null,
    Bool(bool),
    Int(i64),
    Str(String),
    Seq(Vec<Y>),
    /// keys unique, order significant
    Map(Vec<(String, Y)>),
}

impl Y {
    pub fn kind(&self) -> &'static str {
        match self {
            Y::Null => "null",
            Y::Bool(_) => "boolean",
            Y::Int(_) => "number",
            Y::Str(_) => "string",
            Y::Seq(_) => "array",
            Y::Map(_) => "object",
        }
    }
    pub fn is_container(&self) -> bool {
        matches!(self, Y::Seq(_) | Y::Map(_))
    }
    pub fn is_empty_container(&self) -> bool {
        match self {
            Y::Seq(a) => a.is_empty(),
            Y::Map(m) => m.is_empty(),
            _ => false,
        }
    }
    /// scalar = 0, `[]` = 1
    pub fn depth(&self) -> usize {
        match self {
            Y::Seq(a) => 1 + a.iter().map(|x| x.depth()).max().unwrap_or(0),
            Y::Map(m) => 1 + m.iter().map(|x| x.1.depth()).max().unwrap_or(0),
            _ => 0,
        }
    }
    pub fn node_count(&self) -> usize {
        match self {
            Y::Seq(a) => 1 + a.iter().map(|x| x.node_count()).sum::<usize>(),
            Y::Map(m) => 1 + m.iter().map(|x| x.1.node_count()).sum::<usize>(),
            _ => 1,
        }
    }
}

/// The model's JSON encoding (what `-o json` must print, as a value).
pub fn to_json_model(y: &Y) -> J {
    match y {
        Y::Null => J::Null,
        Y::Bool(b) => J::Bool(*b),
        Y::Int(n) => J::int(*n),
        Y::Str(s) => J::Str(s.clone()),
        Y::Seq(a) => J::Arr(a.iter().map(to_json_model).collect()),
        Y::Map(m) => J::Obj(m.iter().map(|(k, v)| (k.clone(), to_json_model(v))).collect()),
    }
}

/// JSON rendering that keeps scalar types explicit (generator self-check dumps, replays).
pub fn to_typed_json(y: &Y) -> Value {
    match y {
        Y::Null => json!({"null": true}),
        Y::Bool(b) => json!({"bool": b}),
        Y::Int(n) => json!({"int": n.to_string()}),
        Y::Str(s) => json!({"str": s}),
        Y::Seq(a) => json!({"seq": a.iter().map(to_typed_json).collect::<Vec<_>>()}),
        Y::Map(m) => json!({"map": m.iter().map(|(k, v)| json!([k, to_typed_json(v)])).collect::<Vec<_>>()}),
    }
}

/// Inverse of [`to_typed_json`] (structured replays).
pub fn from_typed_json(v: &Value) -> Option<Y> {
    let o = v.as_object()?;
    if o.contains_key("null") {
        return Some(Y::Null);
    }
    if let Some(b) = o.get("bool") {
        return Some(Y::Bool(b.as_bool()?));
    }
    if let Some(n) = o.get("int") {
        return Some(Y::Int(n.as_str()?.parse().ok()?));
    }
    if let Some(s) = o.get("str") {
        return Some(Y::Str(s.as_str()?.to_string()));
    }
    if let Some(a) = o.get("seq") {
        return a.as_array()?.iter().map(from_typed_json).collect::<Option<Vec<_>>>().map(Y::Seq);
    }
    if let Some(m) = o.get("map") {
        let mut out = vec![];
        for e in m.as_array()? {
            let e = e.as_array()?;
            out.push((e.first()?.as_str()?.to_string(), from_typed_json(e.get(1)?)?));
        }
        return Some(Y::Map(out));
    }
    None
}

// ---------------------------------------------------------------- options

#[derive(Clone, Copy, Debug, PartialEq)]
pub enum LineBreaks {
    /// every stream uses LF
    LfOnly,
    /// one style per stream: LF (most), CRLF, CR
    Any,
}

#[derive(Clone, Copy, Debug, PartialEq)]
pub enum YStrings {
    /// words and short sentences, ASCII
    Simple,
    /// indicators, reserved words, leading/trailing spaces, controls, non-ASCII, multi-line
    Full,
}

#[derive(Clone, Debug)]
pub struct YOpts {
    // ---- model
    pub max_docs: usize,
    pub max_depth: usize,
    /// nodes per document
    pub max_nodes: usize,
    pub max_str_len: usize,
    pub strings: YStrings,
    /// probability (x/16) that a document is wrapped in a deep single-child spine
    pub deep_spine_16: u32,
    // ---- feature groups
    /// more than one document per stream
    pub multi_doc: bool,
    /// anchors and aliases
    pub anchors: bool,
    /// trailing comments and comment lines
    pub comments: bool,
    /// blank lines between entries
    pub blank_lines: bool,
    /// literal / folded block scalars
    pub block_scalars: bool,
    /// non-empty flow collections (empty collections are always `[]` / `{}`)
    pub flow: bool,
    /// block collections (false = everything in flow style)
    pub block: bool,
    /// single-/double-quoted styles where plain would do (quoting that is *required* is always done)
    pub optional_quotes: bool,
    pub line_breaks: LineBreaks,
    /// plain / quoted scalars and flow collections folded over several lines
    pub multiline_scalars: bool,
    /// tab as separation after `:` / `-` / before `#` and between key and `:`
    pub tab_separation: bool,
    /// a tab inside a plain scalar (content per 1.2 `nb-ns-plain-in-line`)
    pub tab_in_plain: bool,
    /// `?` inside a plain scalar in flow context (1.2: content; PyYAML ends the scalar there)
    pub flow_plain_question: bool,
    /// U+0085 / U+2028 / U+2029 written raw (YAML 1.2: ordinary content; 1.1: line breaks)
    pub raw_unicode_breaks: bool,
    /// comments inside multi-line flow collections
    pub flow_comments: bool,
    /// root block collection indented by 1..3 columns
    pub indented_root: bool,
    /// `...` document end markers (documented gap M7A3: keep off unless probing)
    pub doc_end_markers: bool,
    /// the stream may end without a final line break
    pub omit_final_newline: bool,
    /// maximal indentation step per collection (1..=6)
    pub indent_max: usize,
    /// shapes of *open known findings* that the renderer must not produce (DESIGN §2.6:
    /// excluded by construction while the finding is open; all false = nothing avoided)
    pub avoid: YAvoid,
}

/// Trigger shapes of open known findings (see `known_findings.json`). Each flag removes
/// exactly that shape from the rendered text; the model is never changed.
#[derive(Clone, Copy, Debug, Default, PartialEq)]
pub struct YAvoid {
    /// C14: a block mapping entry with an empty value whose next content line starts at
    /// column 0 with a quoted key (`a:\n"b": 1` loads as `{"a":"b","b":1}`)
    pub empty_value_before_col0_quoted_key: bool,
    /// C14: a document-level anchor followed by a comment on the same line
    /// (`--- &a # c\n- x` loads the comment text as a scalar document)
    pub comment_after_root_anchor: bool,
    /// C18: a compact (same-line) nested collection with two or more entries whose first
    /// entry holds a block collection on deeper lines (`- a:\n    b: 1\n  c: 2`,
    /// `- - - a\n    - b\n  - c`): validate() says BadIndentation at the return to the
    /// compact collection's column. Avoided by writing that first value in flow style.
    pub compact_collection_return_after_deeper: bool,
    /// C18: a tab in the separation after `-` when the entry is a flow collection or a
    /// quoted scalar containing `: ` (`-\t{a: 1}`, `-\t"a: b"`): validate() says
    /// TabInIndentation (`-\tplain` is pinned as legal by Y79Y/010)
    pub tab_after_dash_before_flow_or_quoted: bool,
    /// C18: a plain scalar containing one of `[ { ' "` after white space or after `,` `[` `{`,
    /// or `|` / `>` after white space (`a: a | b`, `k: a [`, `k: x,'`, `k: a[[`): validate()
    /// takes the character for the start of a node (ContentAfterBlockScalarHeader,
    /// UnclosedFlow, UnclosedQuote, ...)
    pub opener_after_space_in_plain: bool,
    /// C14: a plain scalar in flow context that contains a quote character (`[a'b, c]`):
    /// the loader's look-ahead for an implicit `key: value` flow entry treats the quote as
    /// opening a quoted scalar and scans on, across documents, to a later quote and `:`;
    /// depending on the following text build() fails "expected ':' in implicit flow mapping entry"
    pub quote_inside_flow_plain: bool,
    /// C18: a block scalar on a compact line (`- - |`, `- k: |`): the validator measures its
    /// content against the line's indentation, swallows the following sibling lines, and an
    /// anchor defined there is later reported as UnknownAnchor
    pub block_scalar_on_compact_line: bool,
    /// C14: white space between a *quoted* key and its `:` in a compact sequence-entry
    /// mapping (`- 'k' : v`: build() fails "expected ':' after key in compact mapping")
    pub compact_quoted_key_space_colon: bool,
    /// C14: a tab directly after the closing quote of a quoted scalar or after an alias
    /// (`'k'\t: v`, `k: "x"\t# c`, `- 'x'\t`, `s: *a\t# c`): build() fails with TabIndentation; after a plain scalar
    /// the same tab is pinned as separation by tests/yaml_tab_separation_tests.rs /
    /// yaml_tab_comment_tests.rs
    pub tab_after_closing_quote: bool,
    /// C14: a multi-line plain scalar that starts on the line after `-` (or after
    /// `key: &anchor`) and has a continuation line that is not indented deeper than its
    /// first line (`-\n aaaa\n b` loads as ["aaaa"], the continuation is dropped; deeper
    /// continuation lines and the un-anchored mapping form are fine)
    pub nextline_plain_continuation_not_deeper: bool,
    /// C14: a literal block scalar whose first content line starts with `#`, with a later
    /// more-indented line followed by a line back at the block's indentation
    /// (`k: |-\n  # c\n   a\n  b\nj: 1`: the lines from `b` on are read a second time as
    /// structure, giving a spurious `"b": "j"` entry)
    pub literal_hash_first_then_indented: bool,
    /// C14: a document-root block scalar (a) written without `---`, or (b) carrying an
    /// anchor (`--- &anchor |`): its content is loaded a second time as a further document
    /// (`|-\n key: value` gives "key: value", "value"; `--- &a |- #\n a` gives "a", "a")
    pub root_block_scalar_reread: bool,
    /// C14 (root cause shared with C17): an empty node at the very end of a text whose
    /// length is a multiple of 64 (`...k:\n` with len % 64 == 0) reads back as
    /// `YamlValue::Error("invalid cursor position")`
    pub empty_node_at_eof_len64: bool,
}

impl YAvoid {
    pub fn none() -> Self {
        Self::default()
    }
    pub fn all() -> Self {
        YAvoid { empty_value_before_col0_quoted_key: true, comment_after_root_anchor: true, compact_collection_return_after_deeper: true, tab_after_dash_before_flow_or_quoted: true, opener_after_space_in_plain: true, quote_inside_flow_plain: true, block_scalar_on_compact_line: true, compact_quoted_key_space_colon: true, tab_after_closing_quote: true, nextline_plain_continuation_not_deeper: true, literal_hash_first_then_indented: true, root_block_scalar_reread: true, empty_node_at_eof_len64: true }
    }
}

impl YOpts {
    /// every feature group on (what C14/C18 use)
    pub fn full() -> Self {
        YOpts {
            max_docs: 4,
            max_depth: 8,
            max_nodes: 40,
            max_str_len: 24,
            strings: YStrings::Full,
            deep_spine_16: 1,
            multi_doc: true,
            anchors: true,
            comments: true,
            blank_lines: true,
            block_scalars: true,
            flow: true,
            block: true,
            optional_quotes: true,
            line_breaks: LineBreaks::Any,
            multiline_scalars: true,
            tab_separation: true,
            tab_in_plain: true,
            flow_plain_question: true,
            raw_unicode_breaks: true,
            // src/yaml/mod.rs "Supported": "Comments (ignored in block context)" — a comment
            // *inside* a multi-line flow collection is not documented as supported, so it is
            // not part of the default space (a comment after a flow collection's close, on a
            // block line, is block context and is generated)
            flow_comments: false,
            indented_root: true,
            doc_end_markers: false,
            omit_final_newline: true,
            indent_max: 6,
            avoid: YAvoid::none(),
        }
    }
    /// `full` minus what PyYAML 6 (a YAML 1.1 implementation) cannot cross-check
    pub fn py_compat() -> Self {
        YOpts { tab_separation: false, tab_in_plain: false, raw_unicode_breaks: false, flow_plain_question: false, ..Self::full() }
    }
    /// One document, no YAML-only devices: no anchors/aliases, comments, blank lines, block
    /// scalars, multi-line scalars, tabs, CR/CRLF. Block and flow collections, the three
    /// flow scalar styles.
    pub fn plain_data() -> Self {
        YOpts {
            max_docs: 1,
            multi_doc: false,
            anchors: false,
            comments: false,
            blank_lines: false,
            block_scalars: false,
            line_breaks: LineBreaks::LfOnly,
            multiline_scalars: false,
            tab_separation: false,
            tab_in_plain: false,
            raw_unicode_breaks: false,
            flow_comments: false,
            indented_root: false,
            omit_final_newline: false,
            deep_spine_16: 0,
            ..Self::full()
        }
    }
    /// `plain_data` with block collections only (empty collections are still `[]`/`{}`)
    pub fn block_only() -> Self {
        YOpts { flow: false, ..Self::plain_data() }
    }
    /// `plain_data` with flow collections only
    pub fn flow_only() -> Self {
        YOpts { block: false, ..Self::plain_data() }
    }
}

impl Default for YOpts {
    fn default() -> Self {
        Self::full()
    }
}

// ---------------------------------------------------------------- character classes

/// YAML 1.2.2 `c-printable` minus line breaks, tab and the BOM: what may appear raw in a
/// single-line scalar or comment.
pub fn printable_raw(c: char, o: &YOpts) -> bool {
    let u = c as u32;
    if !o.raw_unicode_breaks && matches!(u, 0x85 | 0x2028 | 0x2029) {
        return false;
    }
    matches!(u, 0x20..=0x7e | 0x85 | 0xa0..=0xd7ff | 0xe000..=0xfefe | 0xff00..=0xfffd | 0x10000..=0x10ffff)
}

const INDICATORS: &str = "-?:,[]{}#&*!|>'\"%@`";

/// Would any YAML version (1.1 types, 1.2 core schema, the repository's resolver) read
/// this plain scalar as something other than a string? Conservative on purpose.
pub fn looks_non_string(s: &str) -> bool {
    let l = s.to_ascii_lowercase();
    const WORDS: &[&str] = &[
        "", "~", "null", "true", "false", "yes", "no", "on", "off", "y", "n", "nan", "inf", "infinity",
        "<<", "=", ".inf", ".nan", ".infinity",
    ];
    if WORDS.contains(&l.as_str()) {
        return true;
    }
    let unsigned = l.trim_start_matches(['+', '-']);
    if unsigned.len() != l.len() && WORDS.contains(&unsigned) {
        return true;
    }
    if s.chars().any(|c| c.is_ascii_digit())
        && s.chars().all(|c| "0123456789abcdefABCDEFxXoO_.:,+-TtZz ".contains(c))
    {
        return true;
    }
    for m in ["---", "..."] {
        if let Some(rest) = s.strip_prefix(m) {
            if rest.is_empty() || rest.starts_with(' ') || rest.starts_with('\t') {
                return true;
            }
        }
    }
    false
}

#[derive(Clone, Copy, Debug, PartialEq)]
pub enum PlainCtx {
    BlockValue,
    BlockKey,
    FlowValue,
    FlowKey,
}

/// May the string `s` be written as a single-line plain scalar in `ctx`?
pub fn plain_ok(s: &str, ctx: PlainCtx, o: &YOpts) -> bool {
    let flow = matches!(ctx, PlainCtx::FlowValue | PlainCtx::FlowKey);
    let key = matches!(ctx, PlainCtx::BlockKey | PlainCtx::FlowKey);
    let cs: Vec<char> = s.chars().collect();
    if cs.is_empty() || looks_non_string(s) {
        return false;
    }
    if key && cs.len() > 200 {
        return false;
    }
    let white = |c: char| c == ' ' || c == '\t';
    if white(cs[0]) || white(cs[cs.len() - 1]) {
        return false;
    }
    for &c in &cs {
        if c == '\t' {
            if !o.tab_in_plain {
                return false;
            }
        } else if !printable_raw(c, o) {
            return false;
        }
        if flow && (",[]{}".contains(c) || (c == '?' && !o.flow_plain_question)) {
            return false;
        }
        if ctx == PlainCtx::FlowKey && c == ':' {
            return false;
        }
        if flow && o.avoid.quote_inside_flow_plain && (c == '\'' || c == '"') {
            return false;
        }
    }
    if INDICATORS.contains(cs[0]) {
        // ns-plain-first: `-`, `?`, `:` may start a plain scalar when a "safe" non-space follows
        let ok_lead = match cs[0] {
            '-' => true,
            '?' | ':' => !flow,
            _ => false,
        };
        if !ok_lead || cs.len() < 2 || white(cs[1]) || (flow && ",[]{}".contains(cs[1])) {
            return false;
        }
    }
    if cs[cs.len() - 1] == ':' {
        return false;
    }
    for w in cs.windows(2) {
        if w[0] == ':' && white(w[1]) {
            return false;
        }
        if white(w[0]) && w[1] == '#' {
            return false;
        }
        if o.avoid.opener_after_space_in_plain
            && ((white(w[0]) && "[{'\"|>".contains(w[1])) || (",[{".contains(w[0]) && "[{'\"".contains(w[1])))
        {
            return false;
        }
    }
    true
}

fn single_ok(s: &str, o: &YOpts) -> bool {
    s.chars().all(|c| c == '\t' || printable_raw(c, o))
}

/// (body lines, trailing newline count) if `s` can be a block scalar's content.
fn block_scalar_shape<'a>(s: &'a str, o: &YOpts, folded: bool) -> Option<(Vec<&'a str>, usize)> {
    let body = s.trim_end_matches('\n');
    let trailing = s.len() - body.len();
    if body.is_empty() {
        return None; // content-less: limitations.md "JEF9/02"
    }
    let lines: Vec<&str> = body.split('\n').collect();
    let mut first_nonempty = true;
    for l in &lines {
        if l.is_empty() {
            continue;
        }
        if !l.chars().all(|c| c == '\t' || printable_raw(c, o)) {
            return None;
        }
        if l.chars().all(|c| c == ' ' || c == '\t') {
            return None; // white-space-only line: L24T / JEF9 documented gaps
        }
        let lead_white = l.starts_with(' ') || l.starts_with('\t');
        if lead_white && (first_nonempty || folded) {
            return None; // would need an explicit indentation indicator (M5C3) / more-indented folding
        }
        if folded && (l.ends_with(' ') || l.ends_with('\t')) {
            return None; // keep folding to the simple rule
        }
        first_nonempty = false;
    }
    Some((lines, trailing))
}

// ---------------------------------------------------------------- model generation

/// true with probability num/den; **false when the entropy is exhausted or zero**, so that
/// every optional device disappears when the engine shrinks towards zeros
/// (`Src::ratio` answers true on zeros).
fn rare(u: &mut Src, num: u32, den: u32) -> bool {
    num > 0 && (u.below(den as usize) as u32) >= den.saturating_sub(num)
}

const AMBIGUOUS: &[&str] = &[
    "null", "Null", "NULL", "~", "true", "True", "FALSE", "false", "yes", "No", "on", "OFF", "y", "n",
    "1", "-5", "+7", "0", "007", "1e3", "0x1F", "0o17", "3.14", ".5", "1.", ".inf", "-.INF", ".nan",
    "1_000", "0b101", "1:30", "12:30:45", "2001-12-14", "2001-12-14t21:59:43.10-05:00", "1.2.3",
    "nan", "inf", "NaN", "Infinity", "nULL", "tRUE", "<<", "=",
];

const HOSTILE: &[&str] = &[
    "- x", "a: b", " lead", "trail ", "#c", "a #c", "---", "...", "--- x", "? q", ": v", "[x]", "{x}",
    "a, b", "'q'", "\"dq\"", "a'b", "it's", "say \"hi\"", "@at", "`bt", "%pc", "!tag", "&anc", "*ali", "|",
    "> f", "-", "-x", "--", "?x", ":x", "a:", "a:b", "x#y", "key:", "a\tb", "\ttab", "tab\t", "a\t#b",
    "a:\tb", "multi\nline", "trailing\n", "two\n\n", "\nlead", "\n", "cr\rx", "crlf\r\nx", "é", "日本語",
    "😀", "a\u{85}b", "a\u{2028}b", "\u{feff}bom", "nul\u{0}", "bel\u{7}", "\u{1b}[0m", "del\u{7f}",
    "\u{a0}nbsp", "\\", "\\n", "C:\\dir", "back\\", "a  b", "x, y", "a]b", "a}b", "[", "{", "]", "}", ",",
    "http://x.y/z?q=1#frag", "a - b", "a ? b", "a | b", "a > b", "a & b", "a * b", "a ! b", "a % b", "100%",
    "e1", "face", "3rd", ".", "..", "....", "+", "_", "\u{fffd}", "\u{ffff}", "\u{9f}c1", "  ", " ", "\t",
    "line1\nline2\n", "para one\n\npara two\n", "  indented\nfirst", "first\n  indented\nlast\n",
    "a\n\n\nb", "tail \nx", "# not a comment\nx\n", "k: v\n- i\n", "text\n\n\n",
];

fn word(u: &mut Src) -> String {
    const W: &[&str] = &[
        "a", "b", "x", "id", "name", "value", "key", "foo", "bar", "baz", "alpha", "beta", "item", "list",
        "map", "yaml", "data", "über", "naïve", "ключ", "值", "Zed", "CamelCase", "snake_case", "kebab-case",
        "dotted.name", "path/to", "v", "tru", "nul", "none", "None", "nil", "TRUE1", "x1", "a-1", "a+b",
    ];
    if rare(u, 3, 4) {
        (*u.pick(W)).to_string()
    } else {
        let n = u.range(1, 8);
        (0..n).map(|_| (b'a' + u.below(26) as u8) as char).collect()
    }
}

fn sentence(u: &mut Src, max_words: usize) -> String {
    let n = u.range(1, max_words.max(1));
    let mut s = String::new();
    for i in 0..n {
        if i > 0 {
            s.push(' ');
        }
        s.push_str(&word(u));
    }
    s
}

fn gen_char(u: &mut Src) -> char {
    match u.below(16) {
        0 => *u.pick(&['-', '?', ':', ',', '[', ']', '{', '}', '#', '&', '*', '!', '|', '>', '\'', '"', '%', '@', '`']),
        1 => *u.pick(&[' ', ' ', '\t', '\n', '\r']),
        2 => u.range(0, 0x1f) as u8 as char,
        3 => *u.pick(&['\u{7f}', '\u{80}', '\u{85}', '\u{9f}', '\u{a0}', '\u{ff}', '\u{2028}', '\u{2029}', '\u{feff}', '\u{fffe}', '\u{ffff}', '\u{fffd}', '\u{d7ff}', '\u{e000}']),
        4 => char::from_u32(u.range(0xa0, 0x7ff) as u32).unwrap_or('é'),
        5 => char::from_u32(u.range(0x800, 0xd7ff) as u32).unwrap_or('あ'),
        6 => char::from_u32(u.range(0x10000, 0x10ffff) as u32).unwrap_or('😀'),
        7 => *u.pick(&['\\', '/', '.', '_', '+', '=', '<', '~', '0', '1', '9']),
        _ => u.range(0x20, 0x7e) as u8 as char,
    }
}

/// Multi-line text suited to block scalars (paragraphs, blank lines, indented lines,
/// every kind of tail).
fn paragraphs(u: &mut Src) -> String {
    let mut s = String::new();
    if rare(u, 1, 8) {
        s.push_str(&"\n".repeat(u.range(1, 2)));
    }
    let nlines = u.range(1, 5);
    for i in 0..nlines {
        if i > 0 {
            s.push_str(&"\n".repeat(*u.pick(&[1, 1, 1, 2, 3])));
            if rare(u, 1, 6) {
                s.push_str(&" ".repeat(u.range(1, 3))); // more-indented line (literal only)
            }
        }
        match u.below(8) {
            0 => s.push_str("# looks like a comment"),
            1 => s.push_str("key: value"),
            2 => s.push_str("- item"),
            _ => s.push_str(&sentence(u, 5)),
        }
        if rare(u, 1, 16) {
            s.push(' '); // trailing space on a line (literal only)
        }
    }
    s.push_str(&"\n".repeat(*u.pick(&[0, 1, 1, 1, 2, 3])));
    s
}

pub fn gen_string(u: &mut Src, o: &YOpts) -> String {
    if o.strings == YStrings::Simple {
        return sentence(u, 3);
    }
    match u.below(20) {
        19 => String::new(),
        1 | 2 => (*u.pick(AMBIGUOUS)).to_string(),
        3 | 4 | 5 => (*u.pick(HOSTILE)).to_string(),
        6 | 7 | 8 => paragraphs(u),
        9 | 10 => {
            let n = u.range(0, o.max_str_len.min(12));
            (0..n).map(|_| gen_char(u)).collect()
        }
        11 => {
            // long: a short piece repeated (crosses 16/32/64-byte boundaries)
            let piece = if u.bool() { sentence(u, 3) } else { (0..u.range(1, 6)).map(|_| gen_char(u)).collect() };
            let n = u.range(20, o.max_str_len.max(20) * 6);
            let mut s = String::new();
            while s.chars().count() < n {
                s.push_str(&piece);
                s.push(if rare(u, 1, 5) { gen_char(u) } else { ' ' });
            }
            s.trim_end().to_string()
        }
        12 => {
            // a word with one hostile character spliced in
            let mut cs: Vec<char> = sentence(u, 3).chars().collect();
            let at = u.below(cs.len() + 1);
            cs.insert(at, gen_char(u));
            cs.into_iter().collect()
        }
        13 => format!("{}{}", u.range_i64(-99, 999), *u.pick(&["", "", "px", ".0", "e3", ":00", "_0", "st", " ", "-01-01"])),
        _ => sentence(u, 6),
    }
}

pub fn gen_key(u: &mut Src, o: &YOpts) -> String {
    if o.strings == YStrings::Simple {
        return word(u);
    }
    match u.below(16) {
        15 => String::new(),
        1 => (*u.pick(AMBIGUOUS)).to_string(),
        2 => (*u.pick(HOSTILE)).to_string(),
        3 => {
            let n = u.range(0, 6);
            (0..n).map(|_| gen_char(u)).collect()
        }
        4 => sentence(u, 3),
        5 => format!("{}", u.range_i64(-9, 99)),
        _ => word(u),
    }
}

fn gen_int(u: &mut Src) -> i64 {
    match u.below(10) {
        0 => *u.pick(&[0, 1, -1, i64::MAX, i64::MIN, i64::MAX - 1, i64::MIN + 1, 1 << 53, (1 << 53) + 1, u32::MAX as i64, i32::MIN as i64, 255, 256, 1000]),
        1 => u.u64() as i64,
        2 | 3 => u.range_i64(-100_000, 100_000),
        _ => u.range_i64(-9, 99),
    }
}

fn gen_scalar(u: &mut Src, o: &YOpts) -> Y {
    match u.below(10) {
        0 => Y::Null,
        1 => Y::Bool(u.bool()),
        2 | 3 => Y::Int(gen_int(u)),
        _ => Y::Str(gen_string(u, o)),
    }
}

struct GenState {
    budget: usize,
    /// completed subtrees of the current document (candidates for repetition → aliases)
    pool: Vec<Y>,
}

fn gen_rec(u: &mut Src, o: &YOpts, depth_left: usize, g: &mut GenState) -> Y {
    g.budget = g.budget.saturating_sub(1);
    // repeat an earlier subtree (makes structurally-equal nodes, the precondition of an alias)
    if !g.pool.is_empty() && rare(u, 1, 6) {
        let i = u.below(g.pool.len());
        return g.pool[i].clone();
    }
    let y = if depth_left == 0 || g.budget == 0 || !rare(u, 3, 5) {
        gen_scalar(u, o)
    } else {
        gen_container(u, o, depth_left, g)
    };
    if g.pool.len() < 24 && (y.is_container() || rare(u, 1, 3)) {
        g.pool.push(y.clone());
    }
    y
}

fn gen_container(u: &mut Src, o: &YOpts, depth_left: usize, g: &mut GenState) -> Y {
    let n = match u.below(8) {
        0 => 0,
        1 | 2 => 1,
        3 | 4 => 2,
        5 => 3,
        _ => u.range(0, 7),
    };
    if u.bool() {
        let mut a = vec![];
        for _ in 0..n {
            if g.budget == 0 {
                break;
            }
            a.push(gen_rec(u, o, depth_left - 1, g));
        }
        Y::Seq(a)
    } else {
        let mut m: Vec<(String, Y)> = vec![];
        for _ in 0..n {
            if g.budget == 0 {
                break;
            }
            let mut k = gen_key(u, o);
            if k == "<<" {
                // a key whose *decoded* text is `<<` is a merge key in this repository even
                // when quoted: documented and test-pinned (src/yaml/light.rs
                // `is_merge_key_value`, `test_merge_key_quoted_still_merges`: "yq merges even a
                // quoted "<<" key"). Merge keys are outside C14's statement, so no `<<` key.
                k = "<<<".to_string();
            }
            let mut t = 0;
            while m.iter().any(|(k2, _)| *k2 == k) {
                k = format!("{}{}", k, t);
                t += 1;
            }
            let v = gen_rec(u, o, depth_left - 1, g);
            m.push((k, v));
        }
        Y::Map(m)
    }
}

pub fn gen_doc(u: &mut Src, o: &YOpts) -> Y {
    let mut g = GenState { budget: o.max_nodes.max(1), pool: vec![] };
    let spine = o.deep_spine_16 > 0 && rare(u, o.deep_spine_16, 16);
    let depth = if spine { 3.min(o.max_depth) } else { o.max_depth };
    let mut y = if depth > 0 && o.max_nodes > 1 && !rare(u, 1, 6) {
        gen_container(u, o, depth, &mut g)
    } else {
        gen_rec(u, o, depth, &mut g)
    };
    if spine {
        // a chain of single-child collections with a few small siblings on the way
        let d = u.range(o.max_depth / 2, o.max_depth.saturating_sub(y.depth()).max(o.max_depth / 2));
        let pat = u.u64();
        for i in 0..d {
            let sib = (pat >> ((i * 2 + 1) % 64)) & 1 == 1;
            y = if (pat >> ((i * 2) % 64)) & 1 == 0 {
                let mut a = vec![y];
                if sib {
                    a.push(Y::Int(i as i64));
                }
                Y::Seq(a)
            } else {
                let mut m = vec![("k".to_string(), y)];
                if sib {
                    m.push(("s".to_string(), Y::Str("v".into())));
                }
                Y::Map(m)
            };
        }
    }
    y
}

pub fn gen_stream(u: &mut Src, o: &YOpts) -> Vec<Y> {
    let n = if o.multi_doc && o.max_docs > 1 {
        match u.below(8) {
            0..=3 => 1,
            4 | 5 => 2,
            6 => 3.min(o.max_docs),
            _ => u.range(1, o.max_docs),
        }
    } else {
        1
    };
    (0..n).map(|_| gen_doc(u, o)).collect()
}

// ---------------------------------------------------------------- rendering: results

#[derive(Clone, Debug, PartialEq)]
pub enum Seg {
    Key(String),
    Idx(usize),
}

#[derive(Clone, Copy, Debug, PartialEq)]
pub enum YRole {
    Key,
    Value,
}

#[derive(Clone, Copy, Debug, PartialEq)]
pub enum YStyle {
    Plain,
    Single,
    Double,
    Literal,
    Folded,
    /// `*name`
    Alias,
    /// a null written as nothing (zero-length span just after the indicator)
    Empty,
}

#[derive(Clone, Debug)]
pub struct YSpan {
    pub doc: usize,
    /// path of the node from the document root (for a key: the path of its value)
    pub path: Vec<Seg>,
    pub role: YRole,
    /// byte offset of the token's first byte (quote / `|` / `*` included; anchor excluded)
    pub start: usize,
    /// exclusive end. Block scalars: end of the last content line (its break excluded);
    /// multi-line flow scalars: the closing quote / last character.
    pub end: usize,
    pub style: YStyle,
    /// the model value this token denotes (key: `Y::Str(key)`; alias: the aliased value)
    pub value: Y,
    /// anchor name defined on this node (`&name` precedes the token)
    pub anchor: Option<String>,
    /// anchor name referenced (style == Alias)
    pub alias: Option<String>,
    /// the token is in flow context
    pub in_flow: bool,
    /// the token spans more than one line
    pub multiline: bool,
}

#[derive(Clone, Debug)]
pub struct YContainer {
    pub doc: usize,
    pub path: Vec<Seg>,
    pub is_seq: bool,
    pub flow: bool,
    /// first byte of the collection: `[` / `{`, or the first entry's first byte (`-` / key)
    pub start: usize,
    pub anchor: Option<String>,
    pub len: usize,
}

macro_rules! ystats {
    ($($f:ident),* $(,)?) => {
        /// Counts of the presentation devices used in one rendered stream.
        #[derive(Clone, Debug, Default)]
        pub struct YStats { $(pub $f: u32,)* pub indent_widths: [u32; 7], pub line_break: &'static str }
        impl YStats {
            /// (name, count) for every counter
            pub fn iter(&self) -> Vec<(&'static str, u32)> {
                vec![$((stringify!($f), self.$f),)*]
            }
        }
    };
}

ystats!(
    docs, block_maps, block_seqs, flow_maps, flow_seqs, empty_collections, compact_seq_entries,
    seq_at_parent_indent, nextline_collections, nextline_scalars,
    plain, single, double, literal, folded, keys_plain, keys_single, keys_double,
    chomp_strip, chomp_clip, chomp_keep, null_empty, null_word, bools, ints,
    quoted_ambiguous, dq_escapes, multiline_plain, multiline_quoted, multiline_flow, escaped_breaks,
    trailing_comments, comment_lines, blank_lines, anchors, aliases, doc_start_markers, doc_end_markers,
    inline_after_marker, tabs_separation, space_before_colon, adjacent_values, trailing_commas,
    indented_roots, no_final_newline, flow_comments,
);

impl YStats {
    pub fn collection_styles(&self) -> u32 {
        [self.block_maps, self.block_seqs, self.flow_maps, self.flow_seqs].iter().filter(|&&x| x > 0).count() as u32
    }
    pub fn scalar_styles(&self) -> u32 {
        [self.plain, self.single, self.double, self.literal, self.folded].iter().filter(|&&x| x > 0).count() as u32
    }
    pub fn has_comment(&self) -> bool {
        self.trailing_comments + self.comment_lines + self.flow_comments > 0
    }
}

#[derive(Clone, Debug, Default)]
pub struct RenderedYaml {
    pub text: Vec<u8>,
    pub spans: Vec<YSpan>,
    pub containers: Vec<YContainer>,
    pub doc_starts: Vec<usize>,
    pub stats: YStats,
}

impl RenderedYaml {
    pub fn text_str(&self) -> &str {
        std::str::from_utf8(&self.text).expect("renderer emits UTF-8")
    }
}

// ---------------------------------------------------------------- rendering: engine

#[derive(Clone, Copy, PartialEq, Debug)]
enum After {
    /// `---` (or nothing at all when `marker` is false: start of the first document)
    Doc { marker: bool },
    /// `key:` at column `col`
    MapKey,
    /// `-` at column `col`
    Dash,
}

struct R<'o> {
    o: &'o YOpts,
    out: Vec<u8>,
    nl: &'static [u8],
    line_start: usize,
    spans: Vec<YSpan>,
    containers: Vec<YContainer>,
    doc_starts: Vec<usize>,
    st: YStats,
    doc: usize,
    path: Vec<Seg>,
    /// anchors of the current document that are complete: (name, value)
    anchors: Vec<(String, Y)>,
    anchor_seq: usize,
    /// a keep-chomped block scalar was the last thing written: no decoration may follow
    /// before the next content line (blank lines would become content)
    after_keep: bool,
    /// a block scalar was the last content: comment lines must be indented less than this,
    /// blank lines must be empty
    block_scalar_indent: Option<usize>,
    /// the last line written belongs to a block scalar (final newline must stay)
    last_is_block_scalar: bool,
    /// for every open block collection: the first token of its *next* entry's line, if any
    /// (look-ahead for `YAvoid::empty_value_before_col0_quoted_key`)
    next_tok: Vec<(usize, Option<NextTok>)>,
    /// the next block mapping key written at column 0 must be plain
    force_plain_key_col0: bool,
    /// the next `eol` must not carry a trailing comment
    no_comment_once: bool,
    /// a block mapping's `:` value indicator has been written on the current line
    line_has_value_indicator: bool,
    /// the next collection node written through `node_after` must be in flow style
    force_flow_once: bool,
    /// the next `sep` must not use a tab
    no_tab_once: bool,
    /// the current line started with a compact `- ` chain
    line_is_compact: bool,
}

#[derive(Clone, Debug)]
enum NextTok {
    Dash,
    Key(String),
}

impl<'o> R<'o> {
    fn col(&self) -> usize {
        self.out.len() - self.line_start
    }
    fn push(&mut self, s: &str) {
        self.out.extend_from_slice(s.as_bytes());
    }
    fn spaces(&mut self, n: usize) {
        for _ in 0..n {
            self.out.push(b' ');
        }
    }
    fn brk(&mut self) {
        self.out.extend_from_slice(self.nl);
        self.line_start = self.out.len();
        self.line_has_value_indicator = false;
        self.line_is_compact = false;
    }
    /// separation inside a line: spaces, or (rarely) tabs
    fn sep(&mut self, u: &mut Src) {
        let after_quote = self.o.avoid.tab_after_closing_quote && {
            let tok_start = self.out.iter().rposition(|&b| matches!(b, b' ' | b'\t' | b'\n' | b'\r' | b'[' | b'{' | b',')).map(|p| p + 1).unwrap_or(0);
            matches!(self.out.last(), Some(b'"' | b'\'')) || self.out.get(tok_start) == Some(&b'*')
        };
        if after_quote {
            self.spaces(1);
        }
        let no_tab = std::mem::take(&mut self.no_tab_once);
        if self.o.tab_separation && rare(u, 1, 12) && !no_tab {
            self.st.tabs_separation += 1;
            match u.below(3) {
                0 => self.push("\t"),
                1 => self.push(" \t"),
                _ => self.push("\t "),
            }
        } else {
            let n = *u.pick(&[1, 1, 1, 1, 1, 2, 3]);
            self.spaces(n);
        }
    }
    /// Text of a *trailing* comment. Documented limitation (limitations.md "The other ways
    /// `YamlIndex::build` fails": `b #c: d` → `KeyWithoutValue`; pinned by
    /// tests/yaml_tab_comment_tests.rs `a # c: d`, `- a\t# c: d`): on a line that has no
    /// mapping value indicator of its own, a `: ` inside a trailing comment makes the loader
    /// take the line for a mapping entry whose key ends at the comment. So a trailing comment
    /// only contains `:` when the line already carries its real `key:`.
    fn trailing_comment_text(&mut self, u: &mut Src) -> String {
        let t = self.comment_text(u);
        if self.line_has_value_indicator {
            t
        } else {
            t.replace(':', ";")
        }
    }

    fn comment_text(&mut self, u: &mut Src) -> String {
        const C: &[&str] = &[
            "", " c", " a comment", " key: value", " - item", " \"unclosed", " 'it's", " [ {", " } ]", " # nested #",
            " &a *a !t", " | >", " ---", " ...", " tab\there", " ünï", " %YAML 1.2", ": x", "#", " trailing  ",
        ];
        if rare(u, 3, 4) {
            (*u.pick(C)).to_string()
        } else {
            let n = u.range(0, 10);
            let o = self.o;
            (0..n).map(|_| gen_char(u)).filter(|&c| c == '\t' || printable_raw(c, o)).collect()
        }
    }
    /// optional trailing comment, then the line break
    fn eol(&mut self, u: &mut Src) {
        let allowed = !std::mem::take(&mut self.no_comment_once);
        if self.o.comments && rare(u, 1, 7) && allowed {
            // a comment must be separated from the preceding token by white space
            if !matches!(self.out.last(), Some(b' ' | b'\t')) || u.bool() {
                self.sep(u);
            }
            self.push("#");
            let t = self.trailing_comment_text(u);
            self.push(&t);
            self.st.trailing_comments += 1;
        }
        self.brk();
    }
    /// blank lines / comment lines before a content line that will be written at `col`
    fn decorate(&mut self, u: &mut Src, col: usize) {
        if self.after_keep {
            return;
        }
        let mut n = 0;
        while n < 3 && (self.o.comments || self.o.blank_lines) && rare(u, 1, 9) {
            n += 1;
            if self.o.blank_lines && (!self.o.comments || u.bool()) {
                // blank line; white-space-only variants only where no block scalar precedes
                if self.block_scalar_indent.is_none() && rare(u, 1, 5) {
                    let k = u.range(1, 4);
                    self.spaces(k);
                }
                self.brk();
                self.st.blank_lines += 1;
            } else if self.o.comments {
                let max = match self.block_scalar_indent {
                    Some(b) => b.saturating_sub(1),
                    None => col + 3,
                };
                let ind = match u.below(4) {
                    0 => 0,
                    1 => u.range(0, max),
                    _ => col.min(max),
                };
                self.spaces(ind);
                self.push("#");
                let t = self.comment_text(u);
                self.push(&t);
                self.brk();
                self.st.comment_lines += 1;
            }
        }
    }
    /// start a content line at column `col` (decorations first)
    fn content_line(&mut self, u: &mut Src, col: usize) {
        debug_assert_eq!(self.col(), 0);
        self.decorate(u, col);
        self.spaces(col);
        self.after_keep = false;
        self.block_scalar_indent = None;
        self.last_is_block_scalar = false;
    }

    fn new_anchor(&mut self, u: &mut Src) -> String {
        self.anchor_seq += 1;
        const N: &[&str] = &["a", "A", "anchor", "x-y", "n_1", "0", "-", "_", "base", "é"];
        let stem = *u.pick(N);
        // names are [A-Za-z0-9_-]+ (the non-ASCII stem is replaced): colon and other
        // punctuation in anchor names is a documented gap (2SXE, W5VH)
        let stem = if stem.is_ascii() { stem } else { "u" };
        format!("{}{}", stem, self.anchor_seq)
    }

    fn find_alias(&mut self, u: &mut Src, y: &Y) -> Option<String> {
        if !self.o.anchors || self.anchors.is_empty() {
            return None;
        }
        let c: Vec<usize> = self.anchors.iter().enumerate().filter(|(_, a)| a.1 == *y).map(|x| x.0).collect();
        if c.is_empty() || !rare(u, 2, 3) {
            return None;
        }
        Some(self.anchors[c[u.below(c.len())]].0.clone())
    }

    fn want_anchor(&mut self, u: &mut Src) -> Option<String> {
        if self.o.anchors && rare(u, 1, 7) {
            Some(self.new_anchor(u))
        } else {
            None
        }
    }

    fn span(&mut self, role: YRole, start: usize, style: YStyle, value: Y, anchor: Option<String>, alias: Option<String>, in_flow: bool) {
        let end = self.out.len();
        let multiline = self.out[start..end].iter().any(|&b| b == b'\n' || b == b'\r');
        self.spans.push(YSpan { doc: self.doc, path: self.path.clone(), role, start, end, style, value, anchor, alias, in_flow, multiline });
    }

    // ------------------------------------------------------------ scalar tokens

    fn null_word(&mut self, u: &mut Src) -> &'static str {
        self.st.null_word += 1;
        *u.pick(&["null", "null", "~", "~", "Null", "NULL"])
    }

    fn int_text(&mut self, u: &mut Src, n: i64) -> String {
        self.st.ints += 1;
        if n >= 0 && rare(u, 1, 12) {
            format!("+{}", n)
        } else {
            n.to_string()
        }
    }

    fn bool_text(&mut self, u: &mut Src, b: bool) -> &'static str {
        self.st.bools += 1;
        if b {
            *u.pick(&["true", "true", "True", "TRUE"])
        } else {
            *u.pick(&["false", "false", "False", "FALSE"])
        }
    }

    /// Break points for folding a single-line string over several lines: indices `i` of a
    /// single space whose neighbours are both non-white and, for plain scalars, whose
    /// successor cannot be mistaken for an indicator at the start of a line.
    fn fold_points(cs: &[char], plain: bool) -> Vec<usize> {
        let mut v = vec![];
        for i in 1..cs.len().saturating_sub(1) {
            if cs[i] == ' ' && !matches!(cs[i - 1], ' ' | '\t') && !matches!(cs[i + 1], ' ' | '\t') {
                if plain && (INDICATORS.contains(cs[i + 1]) || cs[i + 1] == '.') {
                    continue;
                }
                v.push(i);
            }
        }
        v
    }

    /// choose up to 3 of the fold points
    fn choose_folds(&mut self, u: &mut Src, pts: Vec<usize>, allowed: bool) -> Vec<usize> {
        if !allowed || !self.o.multiline_scalars || pts.is_empty() || !rare(u, 1, 5) {
            return vec![];
        }
        let k = u.range(1, 3.min(pts.len()));
        let mut v: Vec<usize> = (0..k).map(|_| pts[u.below(pts.len())]).collect();
        v.sort();
        v.dedup();
        v
    }

    fn fold_break(&mut self, u: &mut Src, cont: usize) {
        self.brk();
        let extra = *u.pick(&[0, 0, 0, 1, 2, 4]);
        self.spaces(cont + extra);
    }

    /// plain scalar, possibly folded over lines when `cont` (minimal continuation column) is given
    fn write_plain(&mut self, u: &mut Src, s: &str, cont: Option<usize>) {
        let cs: Vec<char> = s.chars().collect();
        let folds = self.choose_folds(u, Self::fold_points(&cs, true), cont.is_some());
        if !folds.is_empty() {
            self.st.multiline_plain += 1;
        }
        let mut buf = [0u8; 4];
        for (i, &c) in cs.iter().enumerate() {
            if folds.contains(&i) {
                self.fold_break(u, cont.unwrap());
            } else {
                self.out.extend_from_slice(c.encode_utf8(&mut buf).as_bytes());
            }
        }
    }

    fn write_single(&mut self, u: &mut Src, s: &str, cont: Option<usize>) {
        let cs: Vec<char> = s.chars().collect();
        let folds = self.choose_folds(u, Self::fold_points(&cs, false), cont.is_some());
        if !folds.is_empty() {
            self.st.multiline_quoted += 1;
        }
        self.push("'");
        let mut buf = [0u8; 4];
        for (i, &c) in cs.iter().enumerate() {
            if folds.contains(&i) {
                self.fold_break(u, cont.unwrap());
            } else if c == '\'' {
                self.push("''");
            } else {
                self.out.extend_from_slice(c.encode_utf8(&mut buf).as_bytes());
            }
        }
        self.push("'");
    }

    fn write_double(&mut self, u: &mut Src, s: &str, cont: Option<usize>) {
        let cs: Vec<char> = s.chars().collect();
        let folds = self.choose_folds(u, Self::fold_points(&cs, false), cont.is_some());
        if !folds.is_empty() {
            self.st.multiline_quoted += 1;
        }
        // escaped line breaks: between two non-white characters
        let mut esc_breaks: Vec<usize> = vec![];
        if cont.is_some() && self.o.multiline_scalars && cs.len() >= 2 && rare(u, 1, 10) {
            let i = u.range(1, cs.len() - 1);
            let w = |c: char| matches!(c, ' ' | '\t');
            if !w(cs[i - 1]) && !w(cs[i]) && !folds.contains(&i) && !folds.contains(&(i - 1)) {
                esc_breaks.push(i);
            }
        }
        self.push("\"");
        let mut buf = [0u8; 4];
        for (i, &c) in cs.iter().enumerate() {
            if esc_breaks.contains(&i) {
                self.push("\\");
                self.fold_break(u, cont.unwrap());
                self.st.escaped_breaks += 1;
            }
            if folds.contains(&i) {
                self.fold_break(u, cont.unwrap());
                continue;
            }
            let named: Option<&str> = match c {
                '\0' => Some("\\0"),
                '\u{7}' => Some("\\a"),
                '\u{8}' => Some("\\b"),
                '\t' => Some("\\t"),
                '\n' => Some("\\n"),
                '\u{b}' => Some("\\v"),
                '\u{c}' => Some("\\f"),
                '\r' => Some("\\r"),
                '\u{1b}' => Some("\\e"),
                ' ' => Some("\\ "),
                '"' => Some("\\\""),
                '/' => Some("\\/"),
                '\\' => Some("\\\\"),
                '\u{85}' => Some("\\N"),
                '\u{a0}' => Some("\\_"),
                '\u{2028}' => Some("\\L"),
                '\u{2029}' => Some("\\P"),
                _ => None,
            };
            let must = c == '"' || c == '\\' || !(c == '\t' || printable_raw(c, self.o));
            let esc = must || rare(u, 1, 10);
            if !esc {
                self.out.extend_from_slice(c.encode_utf8(&mut buf).as_bytes());
                continue;
            }
            self.st.dq_escapes += 1;
            let cp = c as u32;
            // forms: named (when there is one), \xNN, \uNNNN, \UNNNNNNNN
            let mut forms: Vec<u8> = vec![];
            if named.is_some() {
                forms.extend([0, 0, 0]);
            }
            if cp <= 0xff {
                forms.push(1);
            }
            if cp <= 0xffff {
                forms.push(2);
            }
            forms.push(3);
            let upper = u.bool();
            let t = match *u.pick(&forms) {
                0 => named.unwrap().to_string(),
                1 => if upper { format!("\\x{:02X}", cp) } else { format!("\\x{:02x}", cp) },
                2 => if upper { format!("\\u{:04X}", cp) } else { format!("\\u{:04x}", cp) },
                _ => if upper { format!("\\U{:08X}", cp) } else { format!("\\U{:08x}", cp) },
            };
            self.push(&t);
        }
        self.push("\"");
    }

    /// Write a string scalar in a flow style (plain / single / double) chosen from the
    /// entropy among those that can carry it. Returns the style.
    fn write_flow_scalar(&mut self, u: &mut Src, s: &str, ctx: PlainCtx, cont: Option<usize>) -> YStyle {
        let key = matches!(ctx, PlainCtx::BlockKey | PlainCtx::FlowKey);
        let p_ok = plain_ok(s, ctx, self.o);
        let s_ok = single_ok(s, self.o) && !s.contains('\n') && !s.contains('\r');
        let mut w = [0u32; 3];
        if p_ok {
            w[0] = 6;
        }
        let force_plain = ctx == PlainCtx::BlockKey && self.force_plain_key_col0 && self.col() == 0 && p_ok;
        if ctx == PlainCtx::BlockKey && self.col() == 0 {
            self.force_plain_key_col0 = false;
        }
        if (self.o.optional_quotes || !p_ok) && !force_plain {
            if s_ok {
                w[1] = 2;
            }
            w[2] = 2;
        }
        if !p_ok && !s.is_empty() && looks_non_string(s) {
            self.st.quoted_ambiguous += 1;
        }
        let style = match u.weighted(&w) {
            0 if p_ok => YStyle::Plain,
            1 if s_ok => YStyle::Single,
            0 | 1 => {
                if p_ok {
                    YStyle::Plain
                } else {
                    YStyle::Double
                }
            }
            _ => YStyle::Double,
        };
        let cont = if key { None } else { cont };
        match style {
            YStyle::Plain => {
                self.write_plain(u, s, cont);
                if key { self.st.keys_plain += 1 } else { self.st.plain += 1 }
            }
            YStyle::Single => {
                self.write_single(u, s, cont);
                if key { self.st.keys_single += 1 } else { self.st.single += 1 }
            }
            _ => {
                self.write_double(u, s, cont);
                if key { self.st.keys_double += 1 } else { self.st.double += 1 }
            }
        }
        style
    }

    /// Write a non-container, non-alias node in a flow style; records its span.
    /// `Null` is written as a word (never empty here).
    fn flow_scalar_node(&mut self, u: &mut Src, y: &Y, anchor: Option<String>, in_flow: bool, cont: Option<usize>) {
        let start = self.out.len();
        let style = match y {
            Y::Null => {
                let w = self.null_word(u);
                self.push(w);
                YStyle::Plain
            }
            Y::Bool(b) => {
                let w = self.bool_text(u, *b);
                self.push(w);
                YStyle::Plain
            }
            Y::Int(n) => {
                let t = self.int_text(u, *n);
                self.push(&t);
                YStyle::Plain
            }
            Y::Str(s) => {
                let ctx = if in_flow { PlainCtx::FlowValue } else { PlainCtx::BlockValue };
                self.write_flow_scalar(u, s, ctx, cont)
            }
            _ => unreachable!("containers are not scalars"),
        };
        self.span(YRole::Value, start, style, y.clone(), anchor, None, in_flow);
    }

    // ------------------------------------------------------------ flow collections

    /// gap inside a flow collection: nothing / spaces / (multi-line) a break + indentation
    fn flow_gap(&mut self, u: &mut Src, cont: usize, multiline: bool, may_be_empty: bool) {
        if multiline && rare(u, 1, 3) {
            if self.o.flow_comments && self.o.comments && rare(u, 1, 6) {
                if !matches!(self.out.last(), Some(b' ' | b'\t')) {
                    self.spaces(1);
                }
                self.push("#");
                let t = self.trailing_comment_text(u);
                self.push(&t);
                self.st.flow_comments += 1;
            }
            self.brk();
            let extra = *u.pick(&[0, 1, 2, 4]);
            self.spaces(cont + extra);
        } else if !may_be_empty || rare(u, 2, 3) {
            let n = *u.pick(&[1, 1, 1, 2]);
            self.spaces(n);
        }
    }

    /// `cont`: minimal column of continuation lines (enclosing block indentation + 1)
    fn flow_node(&mut self, u: &mut Src, y: &Y, cont: usize, multiline: bool) {
        if let Some(name) = self.find_alias(u, y) {
            let start = self.out.len();
            self.push("*");
            self.push(&name);
            self.st.aliases += 1;
            self.span(YRole::Value, start, YStyle::Alias, y.clone(), None, Some(name), true);
            // an alias name runs up to the next white space or flow indicator; nothing to add
            return;
        }
        let anchor = self.want_anchor(u);
        if let Some(a) = &anchor {
            self.push("&");
            self.push(a);
            self.push(" ");
            self.st.anchors += 1;
        }
        match y {
            Y::Seq(_) | Y::Map(_) => self.flow_collection(u, y, cont, multiline, anchor.clone()),
            _ => {
                let c = if multiline { Some(cont) } else { None };
                self.flow_scalar_node(u, y, anchor.clone(), true, c);
            }
        }
        if let Some(a) = anchor {
            self.anchors.push((a, y.clone()));
        }
    }

    // ------------------------------------------------------------ block scalars

    /// header + content. `parent_col` is the column of the owning key / dash (-1 at the root).
    fn block_scalar(&mut self, u: &mut Src, s: &str, folded: bool, parent_col: isize, anchor: Option<String>) {
        let (lines, trailing) = block_scalar_shape(s, self.o, folded).expect("caller checked");
        let start = self.out.len();
        self.push(if folded { ">" } else { "|" });
        // chomping: 0 trailing breaks → strip; 1 → clip (or keep); more → keep
        let keep = trailing >= 2 || (trailing == 1 && rare(u, 1, 4));
        if trailing == 0 {
            self.push("-");
            self.st.chomp_strip += 1;
        } else if keep {
            self.push("+");
            self.st.chomp_keep += 1;
        } else {
            self.st.chomp_clip += 1;
        }
        if folded { self.st.folded += 1 } else { self.st.literal += 1 }
        self.eol(u);
        let w = u.range(1, self.o.indent_max.clamp(1, 6));
        let ind = ((parent_col + 1).max(0) as usize + w - 1).max(1);
        self.st.indent_widths[w.min(6)] += 1;
        let mut end = self.out.len();
        let mut seen_text = false;
        for l in &lines {
            if l.is_empty() {
                self.brk();
                continue;
            }
            if folded {
                if seen_text {
                    // §8.1.3: between two text lines, k+1 breaks fold to k newlines, so the
                    // k newlines of the value need k blank lines: one more than the k-1
                    // empty segments already written
                    self.brk();
                }
                // a value line may be broken at single spaces between non-white characters
                let cs: Vec<char> = l.chars().collect();
                let pts = Self::fold_points(&cs, false);
                let folds: Vec<usize> = if !pts.is_empty() && rare(u, 1, 2) {
                    pts.into_iter().filter(|_| rare(u, 1, 3)).collect()
                } else {
                    vec![]
                };
                self.spaces(ind);
                let mut buf = [0u8; 4];
                for (i, &c) in cs.iter().enumerate() {
                    if folds.contains(&i) {
                        self.brk();
                        self.spaces(ind);
                    } else {
                        self.out.extend_from_slice(c.encode_utf8(&mut buf).as_bytes());
                    }
                }
            } else {
                self.spaces(ind);
                self.push(l);
            }
            end = self.out.len();
            self.brk();
            seen_text = true;
        }
        // with keep, `trailing` breaks: one ends the last line, the rest are blank lines
        if keep {
            for _ in 1..trailing {
                self.brk();
            }
        }
        let multiline = true;
        self.spans.push(YSpan {
            doc: self.doc,
            path: self.path.clone(),
            role: YRole::Value,
            start,
            end,
            style: if folded { YStyle::Folded } else { YStyle::Literal },
            value: Y::Str(s.to_string()),
            anchor,
            alias: None,
            in_flow: false,
            multiline,
        });
        self.after_keep = keep;
        self.block_scalar_indent = Some(ind);
        self.last_is_block_scalar = true;
    }

    // ------------------------------------------------------------ block nodes

    /// Write the node that follows an indicator (`---`, `key:`, `-`) which has just been
    /// written with nothing after it. `col` is the indicator's column (key / dash); for a
    /// document it is -1. Ends at the start of a fresh line.
    fn node_after(&mut self, u: &mut Src, y: &Y, after: After, col: isize) {
        let cont = (col + 1).max(1) as usize; // minimal column for continuation lines
        let has_indicator = !matches!(after, After::Doc { marker: false });
        // --- alias
        if let Some(name) = self.find_alias(u, y) {
            if has_indicator {
                self.sep(u);
            }
            let start = self.out.len();
            self.push("*");
            self.push(&name);
            self.st.aliases += 1;
            self.span(YRole::Value, start, YStyle::Alias, y.clone(), None, Some(name), false);
            self.eol(u);
            return;
        }
        let anchor = self.want_anchor(u);
        // --- non-empty collection in block style
        let force_flow = std::mem::take(&mut self.force_flow_once) && self.o.flow;
        let block_collection = y.is_container() && !y.is_empty_container() && self.o.block && (!self.o.flow || !rare(u, 1, 4)) && !force_flow;
        if self.o.avoid.tab_after_dash_before_flow_or_quoted && after == After::Dash && matches!(y, Y::Str(_) | Y::Seq(_) | Y::Map(_)) {
            self.no_tab_once = true;
        }
        if block_collection {
            self.block_collection_after(u, y, after, col, anchor);
            return;
        }
        // --- everything else starts on this line or (scalars, rarely) on the next one
        let mut wrote_anchor = false;
        if let Some(a) = &anchor {
            if has_indicator {
                self.sep(u);
            }
            self.push("&");
            self.push(a);
            self.st.anchors += 1;
            wrote_anchor = true;
        }
        let lead = has_indicator || wrote_anchor;
        let mut bs = match y {
            Y::Str(s) if self.o.block_scalars => self.block_scalar_choice(u, s),
            _ => None,
        };
        if self.o.avoid.block_scalar_on_compact_line && self.line_is_compact {
            bs = None;
        }
        if let (Y::Str(s), After::Doc { marker }, true) = (y, after, self.o.avoid.root_block_scalar_reread) {
            let _ = s;
            if !marker || wrote_anchor {
                bs = None;
            }
        }
        match y {
            Y::Seq(_) | Y::Map(_) => {
                if lead {
                    self.sep(u);
                }
                let multiline = self.o.multiline_scalars && rare(u, 1, 6);
                if multiline {
                    self.st.multiline_flow += 1;
                }
                self.flow_collection(u, y, cont, multiline, anchor.clone());
                self.eol(u);
            }
            Y::Null if (has_indicator || wrote_anchor) && rare(u, 1, 2) && self.empty_value_allowed(after) => {
                // empty node
                let at = self.out.len();
                self.st.null_empty += 1;
                if self.o.avoid.comment_after_root_anchor && wrote_anchor && matches!(after, After::Doc { .. }) {
                    self.no_comment_once = true;
                }
                self.spans.push(YSpan { doc: self.doc, path: self.path.clone(), role: YRole::Value, start: at, end: at, style: YStyle::Empty, value: Y::Null, anchor: anchor.clone(), alias: None, in_flow: false, multiline: false });
                self.eol(u);
            }
            Y::Str(s) if bs.is_some() => {
                let folded = bs.unwrap();
                if lead {
                    self.sep(u);
                }
                self.block_scalar(u, s, folded, col, anchor.clone());
            }
            _ => {
                // scalar in a flow style: same line, or the next line (more indented)
                let next_line = has_indicator && self.o.multiline_scalars && rare(u, 1, 12);
                let mut cont = cont;
                if next_line {
                    self.st.nextline_scalars += 1;
                    if self.o.avoid.comment_after_root_anchor && wrote_anchor && matches!(after, After::Doc { .. }) {
                        self.no_comment_once = true;
                    }
                    self.eol(u);
                    let w = u.range(0, 3);
                    // a root scalar may start at column 0; nested ones are indented past the indicator
                    let base = if col < 0 { 0 } else { cont };
                    self.content_line(u, base + w);
                    if self.o.avoid.nextline_plain_continuation_not_deeper {
                        cont = base + w + 1;
                    }
                } else if lead {
                    self.sep(u);
                }
                self.flow_scalar_node(u, y, anchor.clone(), false, Some(cont));
                self.eol(u);
            }
        }
        if let Some(a) = anchor {
            self.anchors.push((a, y.clone()));
        }
    }

    /// `YAvoid::empty_value_before_col0_quoted_key`: an empty mapping value is only written
    /// when the next content line cannot start at column 0 with a quoted key; if that line
    /// starts with a key that can be plain, the key is forced plain.
    fn empty_value_allowed(&mut self, after: After) -> bool {
        if !self.o.avoid.empty_value_before_col0_quoted_key || after != After::MapKey {
            return true;
        }
        let next = self.next_tok.iter().rev().find(|e| e.1.is_some()).cloned();
        match next {
            Some((0, Some(NextTok::Key(k)))) => {
                if plain_ok(&k, PlainCtx::BlockKey, self.o) {
                    self.force_plain_key_col0 = true;
                    true
                } else {
                    false
                }
            }
            _ => true,
        }
    }

    /// decide literal / folded for a string in block context (None = use a flow style)
    fn block_scalar_choice(&mut self, u: &mut Src, s: &str) -> Option<bool> {
        let mut lit = block_scalar_shape(s, self.o, false).is_some();
        if lit && self.o.avoid.literal_hash_first_then_indented {
            let mut it = s.split('\n').filter(|l| !l.is_empty());
            let first_hash = it.next().map_or(false, |l| l.starts_with('#'));
            if first_hash && it.any(|l| l.starts_with(' ') || l.starts_with('\t')) {
                lit = false;
            }
        }
        let fol = block_scalar_shape(s, self.o, true).is_some();
        let multi = s.contains('\n');
        let d = if !lit && !fol {
            None
        } else {
            // multi-line text mostly goes to a block scalar, single-line text sometimes
            let take = if multi { rare(u, 5, 6) } else { rare(u, 1, 5) };
            if !take {
                None
            } else if lit && fol {
                Some(u.bool())
            } else {
                Some(fol)
            }
        };
        d
    }

    /// `flow_node` for a collection whose anchor (if any) was already written by the caller
    fn flow_collection(&mut self, u: &mut Src, y: &Y, cont: usize, multiline: bool, anchor: Option<String>) {
        match y {
            Y::Seq(a) => {
                self.containers.push(YContainer { doc: self.doc, path: self.path.clone(), is_seq: true, flow: true, start: self.out.len(), anchor, len: a.len() });
                if a.is_empty() { self.st.empty_collections += 1 } else { self.st.flow_seqs += 1 }
                self.push("[");
                for (i, x) in a.iter().enumerate() {
                    self.flow_gap(u, cont, multiline, true);
                    self.path.push(Seg::Idx(i));
                    self.flow_node(u, x, cont, multiline);
                    self.path.pop();
                    if i + 1 < a.len() {
                        self.flow_gap(u, cont, false, true);
                        self.push(",");
                    } else if rare(u, 1, 20) {
                        self.push(",");
                        self.st.trailing_commas += 1;
                    }
                }
                self.flow_gap(u, cont, multiline && !a.is_empty(), true);
                self.push("]");
            }
            Y::Map(m) => {
                self.containers.push(YContainer { doc: self.doc, path: self.path.clone(), is_seq: false, flow: true, start: self.out.len(), anchor, len: m.len() });
                if m.is_empty() { self.st.empty_collections += 1 } else { self.st.flow_maps += 1 }
                self.push("{");
                for (i, (k, v)) in m.iter().enumerate() {
                    self.flow_gap(u, cont, multiline, true);
                    self.path.push(Seg::Key(k.clone()));
                    let ks = self.out.len();
                    let kstyle = self.write_flow_scalar(u, k, PlainCtx::FlowKey, None);
                    self.span(YRole::Key, ks, kstyle, Y::Str(k.clone()), None, None, true);
                    let mut spaced = false;
                    if rare(u, 1, 12) {
                        self.spaces(1);
                        self.st.space_before_colon += 1;
                        spaced = true;
                    }
                    self.push(":");
                    let quoted = matches!(kstyle, YStyle::Single | YStyle::Double);
                    if quoted && !spaced && rare(u, 1, 4) {
                        self.st.adjacent_values += 1;
                    } else {
                        let n = *u.pick(&[1, 1, 1, 2]);
                        self.spaces(n);
                    }
                    self.flow_node(u, v, cont, multiline);
                    self.path.pop();
                    if i + 1 < m.len() {
                        self.flow_gap(u, cont, false, true);
                        self.push(",");
                    } else if rare(u, 1, 20) {
                        self.push(",");
                        self.st.trailing_commas += 1;
                    }
                }
                self.flow_gap(u, cont, multiline && !m.is_empty(), true);
                self.push("}");
            }
            _ => unreachable!(),
        }
    }

    /// A non-empty collection in block style after `---` / `key:` / `-`.
    fn block_collection_after(&mut self, u: &mut Src, y: &Y, after: After, col: isize, anchor: Option<String>) {
        let has_indicator = !matches!(after, After::Doc { marker: false });
        let is_seq = matches!(y, Y::Seq(_));
        // compact form: `- k: v` / `- - x` (no anchor: it would bind to the first key)
        let (len, first_nested) = match y {
            Y::Map(m) => (m.len(), m.first().map_or(false, |e| e.1.is_container() && !e.1.is_empty_container())),
            Y::Seq(a) => (a.len(), a.first().map_or(false, |e| e.is_container() && !e.is_empty_container())),
            _ => (0, false),
        };
        let risky = self.o.avoid.compact_collection_return_after_deeper && len >= 2 && first_nested;
        let compact_ok = !risky || self.o.flow;
        if after == After::Dash && anchor.is_none() && compact_ok && rare(u, 1, 2) {
            if risky {
                self.force_flow_once = true;
            }
            self.line_is_compact = true;
            let s = *u.pick(&[1, 1, 1, 1, 2, 3, 4]);
            self.spaces(s);
            self.st.compact_seq_entries += 1;
            self.st.indent_widths[(s + 1).min(6)] += 1;
            let c = self.col();
            self.block_collection(u, y, c, true, None);
            return;
        }
        if let Some(a) = &anchor {
            if has_indicator {
                self.sep(u);
            }
            self.push("&");
            self.push(a);
            self.st.anchors += 1;
        }
        if has_indicator || anchor.is_some() {
            if self.o.avoid.comment_after_root_anchor && anchor.is_some() && matches!(after, After::Doc { .. }) {
                self.no_comment_once = true;
            }
            self.eol(u);
            self.st.nextline_collections += 1;
        }
        let child_col = match after {
            After::Doc { .. } => {
                if self.o.indented_root && rare(u, 1, 12) {
                    self.st.indented_roots += 1;
                    u.range(1, 3)
                } else {
                    0
                }
            }
            After::MapKey if is_seq && rare(u, 1, 3) => {
                // a block sequence may sit at its parent key's indentation
                self.st.seq_at_parent_indent += 1;
                col as usize
            }
            _ => {
                let w = u.range(1, self.o.indent_max.clamp(1, 6));
                self.st.indent_widths[w.min(6)] += 1;
                col as usize + w
            }
        };
        self.block_collection(u, y, child_col, false, anchor.clone());
        if let Some(a) = anchor {
            self.anchors.push((a, y.clone()));
        }
    }

    /// entries of a block collection at column `col`; `first_inline`: the first entry
    /// continues the current line (compact form), otherwise every entry starts a line.
    fn block_collection(&mut self, u: &mut Src, y: &Y, col: usize, first_inline: bool, anchor: Option<String>) {
        match y {
            Y::Seq(a) => {
                self.st.block_seqs += 1;
                self.next_tok.push((col, None));
                for (i, x) in a.iter().enumerate() {
                    let top = self.next_tok.len() - 1;
                    self.next_tok[top].1 = if i + 1 < a.len() { Some(NextTok::Dash) } else { None };
                    if !(i == 0 && first_inline) {
                        self.content_line(u, col);
                    }
                    if i == 0 {
                        self.containers.push(YContainer { doc: self.doc, path: self.path.clone(), is_seq: true, flow: false, start: self.out.len(), anchor: anchor.clone(), len: a.len() });
                    }
                    self.push("-");
                    self.path.push(Seg::Idx(i));
                    self.node_after(u, x, After::Dash, col as isize);
                    self.path.pop();
                }
                self.next_tok.pop();
            }
            Y::Map(m) => {
                self.st.block_maps += 1;
                self.next_tok.push((col, None));
                for (i, (k, v)) in m.iter().enumerate() {
                    let top = self.next_tok.len() - 1;
                    self.next_tok[top].1 = m.get(i + 1).map(|e| NextTok::Key(e.0.clone()));
                    if !(i == 0 && first_inline) {
                        self.content_line(u, col);
                    }
                    if i == 0 {
                        self.containers.push(YContainer { doc: self.doc, path: self.path.clone(), is_seq: false, flow: false, start: self.out.len(), anchor: anchor.clone(), len: m.len() });
                    }
                    self.path.push(Seg::Key(k.clone()));
                    let ks = self.out.len();
                    let kstyle = self.write_flow_scalar(u, k, PlainCtx::BlockKey, None);
                    self.span(YRole::Key, ks, kstyle, Y::Str(k.clone()), None, None, false);
                    let avoid_sp = self.o.avoid.compact_quoted_key_space_colon && i == 0 && first_inline && kstyle != YStyle::Plain;
                    if rare(u, 1, 14) && !avoid_sp {
                        // white space between an implicit key and its `:` is separation
                        let avoid_tab = self.o.avoid.tab_after_closing_quote && kstyle != YStyle::Plain;
                        if self.o.tab_separation && rare(u, 1, 3) && !avoid_tab {
                            self.push("\t");
                            self.st.tabs_separation += 1;
                        } else {
                            self.spaces(u.range(1, 2));
                        }
                        self.st.space_before_colon += 1;
                    }
                    self.push(":");
                    self.line_has_value_indicator = true;
                    self.node_after(u, v, After::MapKey, col as isize);
                    self.path.pop();
                }
                self.next_tok.pop();
            }
            _ => unreachable!(),
        }
    }

    fn document(&mut self, u: &mut Src, y: &Y, first: bool, last: bool) {
        self.anchors.clear();
        self.path.clear();
        // decorations before the document
        if self.col() == 0 {
            self.decorate(u, 0);
        }
        self.doc_starts.push(self.out.len());
        // an empty-rendered null root needs the marker; so does every document after the first
        let marker = !first || rare(u, 1, 3);
        self.after_keep = false;
        self.block_scalar_indent = None;
        self.last_is_block_scalar = false;
        if marker {
            self.push("---");
            self.st.doc_start_markers += 1;
        }
        let before = self.out.len();
        self.node_after(u, y, After::Doc { marker }, -1);
        if marker && self.out.len() > before && !matches!(self.out[before], b'\n' | b'\r') {
            self.st.inline_after_marker += 1;
        }
        if self.o.doc_end_markers && rare(u, 1, 4) {
            // `...` ends the document (a keep-chomped scalar has already ended its lines)
            self.push("...");
            self.st.doc_end_markers += 1;
            self.after_keep = false;
            self.block_scalar_indent = None;
            self.last_is_block_scalar = false;
            self.eol(u);
        }
        let _ = last;
        self.st.docs += 1;
    }
}

/// Render a stream. All presentation choices come from `u`; the result carries the text,
/// the span table and the statistics (see the module documentation).
pub fn render(stream: &[Y], u: &mut Src, o: &YOpts) -> RenderedYaml {
    let (nl, name): (&'static [u8], &'static str) = match o.line_breaks {
        LineBreaks::LfOnly => (b"\n", "LF"),
        LineBreaks::Any => match u.below(10) {
            0..=5 => (b"\n", "LF"),
            6 | 7 => (b"\r\n", "CRLF"),
            _ => (b"\r", "CR"),
        },
    };
    let mut r = R {
        o,
        out: vec![],
        nl,
        line_start: 0,
        spans: vec![],
        containers: vec![],
        doc_starts: vec![],
        st: YStats::default(),
        doc: 0,
        path: vec![],
        anchors: vec![],
        anchor_seq: 0,
        after_keep: false,
        block_scalar_indent: None,
        last_is_block_scalar: false,
        next_tok: vec![],
        force_plain_key_col0: false,
        no_comment_once: false,
        line_has_value_indicator: false,
        force_flow_once: false,
        no_tab_once: false,
        line_is_compact: false,
    };
    r.st.line_break = name;
    for (i, y) in stream.iter().enumerate() {
        r.doc = i;
        r.document(u, y, i == 0, i + 1 == stream.len());
    }
    if r.col() == 0 {
        r.decorate(u, 0);
    }
    if o.omit_final_newline && !r.last_is_block_scalar && r.out.ends_with(nl) && r.out.len() > nl.len() && rare(u, 1, 8) {
        let n = r.out.len() - nl.len();
        r.out.truncate(n);
        r.st.no_final_newline += 1;
    }
    if o.avoid.empty_node_at_eof_len64 && r.out.len() % 64 == 0 {
        if let Some(last) = r.spans.last() {
            if last.style == YStyle::Empty && !r.after_keep {
                // an empty node ends the stream: move the end of the text off the 64-byte grid
                if r.out.ends_with(nl) {
                    r.out.extend_from_slice(nl);
                } else {
                    r.out.push(b' ');
                    r.out.push(b'#');
                }
                if r.out.len() % 64 == 0 {
                    r.out.extend_from_slice(nl);
                }
            }
        }
    }
    RenderedYaml { text: r.out, spans: r.spans, containers: r.containers, doc_starts: r.doc_starts, stats: r.st }
}

/// Convenience: generate and render in one go.
pub fn gen_rendered(u: &mut Src, o: &YOpts) -> (Vec<Y>, RenderedYaml) {
    let s = gen_stream(u, o);
    let r = render(&s, u, o);
    (s, r)
}

/// Path rendering for messages: `$.a[2]."k k"`.
pub fn path_str(p: &[Seg]) -> String {
    let mut s = String::from("$");
    for x in p {
        match x {
            Seg::Idx(i) => s.push_str(&format!("[{}]", i)),
            Seg::Key(k) => s.push_str(&format!(".{:?}", k)),
        }
    }
    s
}

/// Model value at `path` of a document.
pub fn value_at<'a>(root: &'a Y, path: &[Seg]) -> Option<&'a Y> {
    let mut v = root;
    for s in path {
        v = match (v, s) {
            (Y::Seq(a), Seg::Idx(i)) => a.get(*i)?,
            (Y::Map(m), Seg::Key(k)) => &m.iter().find(|e| e.0 == *k)?.1,
            _ => return None,
        };
    }
    Some(v)
}

// ---------------------------------------------------------------- known-finding shapes

/// Which trigger shapes of the recorded findings (see [`YAvoid`]) occur in a rendered
/// stream? Decided from the span table, so it is exact for generated text; the property
/// modules use it to attribute a failure found with nothing avoided to its finding.
/// Names are the signature tags used in `known_findings.json`.
pub fn known_shapes(r: &RenderedYaml) -> Vec<&'static str> {
    let t = &r.text;
    let mut out: Vec<&'static str> = vec![];
    let line_start = |p: usize| t[..p].iter().rposition(|&b| b == b'\n' || b == b'\r').map(|x| x + 1).unwrap_or(0);
    let tok = |s: &YSpan| &t[s.start..s.end];
    let quoted = |s: &YSpan| matches!(s.style, YStyle::Single | YStyle::Double);
    let mut add = |n: &'static str| {
        if !out.contains(&n) {
            out.push(n);
        }
    };
    for (i, s) in r.spans.iter().enumerate() {
        let ls = line_start(s.start);
        let prefix = &t[ls..s.start];
        // tab directly after a quoted scalar or an alias
        if (quoted(s) || s.style == YStyle::Alias) && t.get(s.end) == Some(&b'\t') {
            add("tab-after-closing-quote");
        }
        if s.style == YStyle::Plain && !s.in_flow {
            let b = tok(s);
            if b.windows(2).any(|w| (matches!(w[0], b' ' | b'\t') && b"[{'\"|>".contains(&w[1])) || (b",[{".contains(&w[0]) && b"[{'\"".contains(&w[1]))) {
                add("opener-inside-plain-scalar");
            }
        }
        if s.style == YStyle::Plain && s.in_flow && tok(s).iter().any(|&b| b == b'\'' || b == b'"') {
            add("quote-inside-flow-plain");
        }
        let pre_trim: Vec<u8> = prefix.iter().copied().filter(|&b| b != b' ').collect();
        if s.role == YRole::Key && quoted(s) && matches!(t.get(s.end), Some(b' ' | b'\t')) && !pre_trim.is_empty() && pre_trim.iter().all(|&b| b == b'-') {
            add("compact-quoted-key-then-space");
        }
        if s.style == YStyle::Empty && s.role == YRole::Value {
            if let Some(n) = r.spans.get(i + 1) {
                if n.role == YRole::Key && quoted(n) && n.doc == s.doc && line_start(n.start) == n.start && matches!(s.path.last(), Some(Seg::Key(_))) {
                    add("empty-value-then-col0-quoted-key");
                }
            }
        }
        if s.style == YStyle::Plain && s.multiline && prefix.iter().all(|&b| b == b' ') && !s.in_flow {
            let col = prefix.len();
            let body = tok(s);
            let mut k = 0;
            while k < body.len() {
                if body[k] == b'\n' || body[k] == b'\r' {
                    if body[k] == b'\r' && body.get(k + 1) == Some(&b'\n') {
                        k += 1;
                    }
                    let ind = body[k + 1..].iter().take_while(|&&b| b == b' ').count();
                    if ind <= col {
                        add("nextline-plain-continuation-not-deeper");
                    }
                }
                k += 1;
            }
        }
        if s.style == YStyle::Literal {
            if let Y::Str(v) = &s.value {
                let mut it = v.split('\n').filter(|l| !l.is_empty());
                if it.next().map_or(false, |l| l.starts_with('#')) && it.any(|l| l.starts_with(' ') || l.starts_with('\t')) {
                    add("literal-hash-first-then-indented");
                }
            }
        }
        if matches!(s.style, YStyle::Literal | YStyle::Folded) {
            if s.path.is_empty() {
                let ds = r.doc_starts.get(s.doc).copied().unwrap_or(0);
                if s.anchor.is_some() || !t[ds..].starts_with(b"---") {
                    add("root-block-scalar-reread");
                }
            }
            let p = prefix.iter().position(|&b| b != b' ').map(|x| &prefix[x..]).unwrap_or(b"");
            if p.first() == Some(&b'-') && p[1..].iter().any(|&b| !matches!(b, b' ' | b'\t')) {
                // something besides the first dash precedes the header: `- - |`, `- k: |`
                let rest: Vec<u8> = p[1..].iter().copied().filter(|b| !matches!(b, b' ' | b'\t')).collect();
                if !rest.starts_with(b"&") || rest.contains(&b':') || rest.contains(&b'-') {
                    add("block-scalar-on-compact-line");
                }
            }
        }
    }
    if let Some(last) = r.spans.last() {
        if last.style == YStyle::Empty && t.len() % 64 == 0 {
            add("empty-node-at-eof-len64");
        }
    }
    // document-level anchor followed by a comment; tab after `-` before a flow/quoted node
    let mut pos = 0;
    while pos <= t.len() {
        let e = t[pos..].iter().position(|&b| b == b'\n' || b == b'\r').map(|x| pos + x).unwrap_or(t.len());
        let l = &t[pos..e];
        let l0 = l.strip_prefix(b"---").map(trim_ws_b).unwrap_or(l);
        if l0.first() == Some(&b'&') && (l.starts_with(b"---") || l.first() == Some(&b'&')) {
            let ne = l0.iter().position(|&b| b == b' ' || b == b'\t').unwrap_or(l0.len());
            if trim_ws_b(&l0[ne..]).first() == Some(&b'#') {
                add("root-anchor-then-comment");
            }
        }
        let mut i = l.iter().take_while(|&&b| b == b' ').count();
        let mut tab = false;
        let mut dashes = 0;
        while l.get(i) == Some(&b'-') && matches!(l.get(i + 1), Some(b' ' | b'\t')) {
            dashes += 1;
            i += 1;
            while let Some(&b) = l.get(i) {
                if b == b'\t' {
                    tab = true;
                } else if b != b' ' {
                    break;
                }
                i += 1;
            }
        }
        if l.get(i) == Some(&b'&') {
            while !matches!(l.get(i), None | Some(b' ' | b'\t')) {
                i += 1;
            }
            while matches!(l.get(i), Some(b' ' | b'\t')) {
                i += 1;
            }
        }
        if dashes > 0 && tab && matches!(l.get(i), Some(b'{' | b'[' | b'"' | b'\'')) {
            add("tab-after-dash-before-flow-or-quoted");
        }
        if e >= t.len() {
            break;
        }
        pos = if t[e] == b'\r' && t.get(e + 1) == Some(&b'\n') { e + 2 } else { e + 1 };
    }
    // compact nested collection with >= 2 entries whose first entry is a block collection
    for c in &r.containers {
        if c.flow || c.len < 2 {
            continue;
        }
        let ls = line_start(c.start);
        let compact = t[ls..c.start].iter().any(|&b| b == b'-');
        if !compact {
            continue;
        }
        let first_child_block = r.containers.iter().any(|d| !d.flow && d.doc == c.doc && d.path.len() == c.path.len() + 1 && d.path.starts_with(&c.path) && match d.path.last() {
            Some(Seg::Idx(0)) => true,
            Some(Seg::Key(k)) => r.spans.iter().any(|s| s.role == YRole::Key && s.doc == c.doc && s.path == d.path && s.start == c.start && matches!(&s.value, Y::Str(x) if x == k)),
            _ => false,
        });
        if first_child_block {
            add("compact-collection-return-after-deeper");
        }
    }
    out
}

fn trim_ws_b(b: &[u8]) -> &[u8] {
    let n = b.iter().take_while(|&&c| c == b' ' || c == b'\t').count();
    &b[n..]
}
