//! G-jqprog, *core* profile (DESIGN §3 / §4 C24): a typed generator of jq programs over the
//! version-stable core fragment, used for the proxy differential against jq 1.6.
//!
//! Discipline (see DESIGN §4 C24):
//!  * documents come in families of identical *shape* (same keys, same array lengths, same
//!    scalar kinds, different scalar values) so that one typed program is well-typed on
//!    every document of the family;
//!  * every sub-expression is generated for an input shape it is defined on; a small,
//!    explicit rate of deliberate type errors uses operators whose message family is in the
//!    recorded 1.7.1 error-probe corpus;
//!  * builtin vocabulary = identifiers occurring in the recorded golden filters / error
//!    probes, minus everything that changed between jq 1.6 and 1.7.1 or that jq 1.6 gets
//!    differently from the recordings (see `EXCLUDED`), plus the syntax-level `not`;
//!  * always an `else`; integer literals small; number spellings canonical; slice bounds and
//!    `limit` counts are literal; object keys, interpolations and range bounds are
//!    single-output (documented divergences otherwise);
//!  * every composite is parenthesised (the two documented precedence divergences — `as`
//!    and `//` versus assignment — are thereby excluded by construction).
use crate::engine::Src;
use crate::gen::json::J;
use std::collections::BTreeSet;

/// Constructs deliberately *not* generated, with the reason (goes into the evidence).
pub const EXCLUDED: &[(&str, &str)] = &[
    ("if without else", "jq 1.7 syntax; jq 1.6 rejects it"),
    ("limit(0; f)", "jq 1.6 emits the first output, 1.7.1 emits nothing (1.6 artefact, measured)"),
    ("error(null), error/0 on null", "1.6 drops the error, 1.7.1 reports/catches null (golden try_catch_null, error_uncaught_null_payload)"),
    ("any/2, all/2, isempty, IN", "generator forms became short-circuiting in 1.7 (goldens any_gen_cond_satisfied_before_error, in_src_stream_no_match differ under 1.6)"),
    ("implode", "jq 1.6 asserts on invalid code points (goldens implode_*, probes implode_*)"),
    ("regex builtins (test/match/capture/scan/split/2/splits/sub/gsub)", "1.6 loops or differs on empty matches and lacks scan/2 (9 goldens, 3 probes differ)"),
    ("date builtins, now, localtime, env, $ENV, input*, $__loc__, debug, stderr, halt*", "environment dependent or not part of the core fragment"),
    ("float / NaN / out-of-range array indices, float slice bounds", "1.6 truncates and re-spells (goldens index_float_key, path_float_index_*)"),
    ("slice objects as path components in getpath/setpath/delpaths, string slice update", "1.6 wording/behaviour differs (8 probes)"),
    ("number literals with exponent, trailing zeros, -0, |n| > 2^53", "1.7.1 keeps the literal spelling, 1.6 re-spells; succinctly documents i64/f64 arithmetic (jq-language.md)"),
    ("@uri", "reserved-character set changed in 1.7"),
    ("@base64d, @base32d", "error behaviour differs / 1.7 addition"),
    ("@html", "jq 1.6 artefact: 1.6 escapes ' as &apos;, jq 1.7 and succinctly as &#39; (seen on \"it's\" | @html); the recorded golden format_html pins the other four entities"),
    ("format strings (@base64 @html @sh @uri) on non-strings, flatten(non-number)", "documented: limitations.md 'Where succinctly errors and jq does not'"),
    ("object keys / string interpolations / range bounds / limit counts with != 1 output", "documented: limitations.md (#354 key half), jq-language.md Known Limitations"),
    ("computed slice bounds, array-valued index keys", "documented: jq-language.md Known Limitations"),
    ("slice assignment on null", "documented: limitations.md"),
    ("path() of non-path or variable-rooted expressions, reduce/foreach inside path()", "documented: limitations.md (#1440, #1466, #1467, #989)"),
    ("index/rindex/indices with non-ASCII or empty needles", "byte offsets in 1.6, code point offsets in 1.7"),
    ("from_entries on hand-made entries, ltrimstr-era additions (pick, have_*, abs, toarray, trim, getpath/1, splits, ascii, @base32d)", "changed or added after 1.6"),
    ("pow/log/exp/trigonometry", "last-ulp differences between libm and Rust std are not a property of jq semantics"),
    ("reverse on strings", "1.7 addition"),
    ("bare try/catch and `?` whose outputs flow on (always emitted as `[try … catch …] | .[]`, `[…?] | .[]`)", "jq 1.6's try/`?` also catches errors and `break`s raised downstream of its outputs (fixed in 1.7); measured: first(… try …), `|=` with try on the right, {a: f?, b: error}"),
    ("string * n with n <= 0 or fractional n", "1.6: null / the string itself; jq >= 1.7 differs (jqlang/jq#1593), the recordings do not cover it"),
    ("literal / 0 and other constant-foldable operands of a zero divisor", "jq folds constants at compile time (`1 / 0` is a compile error, `(0 | .) / 0` is NaN in 1.6)"),
    ("open findings, excluded by construction while open (each has a committed replay)", "bare flatten; last(f) of an empty stream; index/rindex/indices(string) on an object input (sqrt and split of the empty string were repaired and are generated again)"),
    ("walk, combinations, transpose, map_values, min_by/max_by, nth, splits, env", "not in the recorded vocabulary (golden filters + error probes)"),
];

#[derive(Clone, Debug, PartialEq)]
pub enum Shape {
    Any,
    Null,
    Bool,
    Num,
    Str,
    /// tuple: known length, per-position shapes
    Arr(Vec<Shape>),
    /// unknown length, homogeneous
    ArrOf(Box<Shape>),
    Obj(Vec<(String, Shape)>),
}

impl Shape {
    pub fn join(&self, o: &Shape) -> Shape {
        if self == o {
            return self.clone();
        }
        match (self, o) {
            (Shape::Arr(a), Shape::Arr(b)) => {
                let ea = elem_of_list(a);
                let eb = elem_of_list(b);
                Shape::ArrOf(Box::new(ea.join(&eb)))
            }
            (Shape::Arr(a), Shape::ArrOf(b)) | (Shape::ArrOf(b), Shape::Arr(a)) => {
                if a.is_empty() {
                    Shape::ArrOf(b.clone())
                } else {
                    Shape::ArrOf(Box::new(elem_of_list(a).join(b)))
                }
            }
            (Shape::ArrOf(a), Shape::ArrOf(b)) => Shape::ArrOf(Box::new(a.join(b))),
            _ => Shape::Any,
        }
    }
    pub fn elem(&self) -> Shape {
        match self {
            Shape::Arr(a) => elem_of_list(a),
            Shape::ArrOf(e) => (**e).clone(),
            Shape::Obj(f) => {
                let v: Vec<Shape> = f.iter().map(|x| x.1.clone()).collect();
                elem_of_list(&v)
            }
            _ => Shape::Any,
        }
    }
    pub fn is_arr(&self) -> bool {
        matches!(self, Shape::Arr(_) | Shape::ArrOf(_))
    }
    pub fn is_obj(&self) -> bool {
        matches!(self, Shape::Obj(_))
    }
    pub fn is_scalar_known(&self) -> bool {
        matches!(self, Shape::Null | Shape::Bool | Shape::Num | Shape::Str)
    }
    pub fn kind(&self) -> &'static str {
        match self {
            Shape::Any => "any",
            Shape::Null => "null",
            Shape::Bool => "boolean",
            Shape::Num => "number",
            Shape::Str => "string",
            Shape::Arr(_) | Shape::ArrOf(_) => "array",
            Shape::Obj(_) => "object",
        }
    }
    /// all elements are scalars of known kind (for @csv/@tsv/@sh/join)
    fn scalar_elems(&self) -> bool {
        match self {
            Shape::Arr(a) => a.iter().all(|s| s.is_scalar_known()),
            Shape::ArrOf(e) => e.is_scalar_known(),
            _ => false,
        }
    }
}

fn elem_of_list(a: &[Shape]) -> Shape {
    match a.first() {
        None => Shape::Any,
        Some(f) => a.iter().skip(1).fold(f.clone(), |acc, s| acc.join(s)),
    }
}

// ---------------------------------------------------------------- documents

const KEYS: &[&str] = &["a", "b", "c", "k", "x", "id", "name", "foo", "n", "v"];
const ODD_KEYS: &[&str] = &["a b", "0", "if", "é", "A-1", "_x"];
const WORDS: &[&str] = &[
    "", "a", "b", "ab", "abc", "foo", "bar", "foo bar", "a,b", "A1", "12", "-3", "2.5", "x y z", "Hello", "a/b", "é", "日本", "<&>", "it's", "q\"t", "t\tb", "l1\nl2", "back\\slash", "😀",
];

pub fn gen_shape(u: &mut Src, depth: u32) -> Shape {
    let w: [u32; 6] = if depth == 0 { [2, 2, 6, 6, 40, 44] } else if depth >= 3 { [10, 10, 40, 40, 0, 0] } else { [6, 8, 30, 26, 15, 15] };
    match u.weighted(&w) {
        0 => Shape::Null,
        1 => Shape::Bool,
        2 => Shape::Num,
        3 => Shape::Str,
        4 => {
            let n = u.weighted(&[1, 3, 5, 5, 3]);
            if u.ratio(4, 5) {
                let e = gen_shape(u, depth + 1);
                Shape::Arr(vec![e; n])
            } else {
                Shape::Arr((0..n).map(|_| gen_shape(u, depth + 1)).collect())
            }
        }
        _ => {
            let n = u.weighted(&[1, 4, 6, 5, 2]);
            let mut f: Vec<(String, Shape)> = vec![];
            for _ in 0..n {
                let k = if u.ratio(1, 12) { *u.pick(ODD_KEYS) } else { *u.pick(KEYS) };
                if f.iter().any(|x| x.0 == k) {
                    continue;
                }
                f.push((k.to_string(), gen_shape(u, depth + 1)));
            }
            Shape::Obj(f)
        }
    }
}

pub fn gen_num(u: &mut Src) -> J {
    match u.weighted(&[10, 8, 3, 2, 1]) {
        0 => J::int(*u.pick(&[0i64, 1, 2, 3, 5, 10, -1, -2, 7, 42, 100])),
        1 => J::int(u.range_i64(-20, 50)),
        2 => {
            let n = u.range_i64(-40, 40);
            // binary-exact fractions with a canonical spelling
            let q = *u.pick(&[".5", ".25", ".75"]);
            if n < 0 {
                J::num(&format!("-{}{}", -n, q))
            } else {
                J::num(&format!("{}{}", n, q))
            }
        }
        3 => J::int(u.range_i64(-1_000_000, 1_000_000)),
        _ => J::int(u.range_i64(0, 3)),
    }
}

pub fn gen_str(u: &mut Src) -> String {
    if u.ratio(3, 4) {
        (*u.pick(WORDS)).to_string()
    } else {
        let n = u.range(0, 6);
        let alpha: Vec<char> = "abcABxyz01 _-,.:/".chars().collect();
        (0..n).map(|_| *u.pick(&alpha)).collect()
    }
}

pub fn instantiate(u: &mut Src, s: &Shape) -> J {
    match s {
        Shape::Any | Shape::Null => J::Null,
        Shape::Bool => J::Bool(u.bool()),
        Shape::Num => gen_num(u),
        Shape::Str => J::Str(gen_str(u)),
        Shape::Arr(a) => J::Arr(a.iter().map(|e| instantiate(u, e)).collect()),
        Shape::ArrOf(e) => J::Arr((0..u.range(0, 3)).map(|_| instantiate(u, e)).collect()),
        Shape::Obj(f) => J::Obj(f.iter().map(|(k, e)| (k.clone(), instantiate(u, e))).collect()),
    }
}

// ---------------------------------------------------------------- programs

#[derive(Clone, Debug)]
pub struct E {
    pub t: String,
    pub s: Shape,
    /// exactly one output whenever no error is raised
    pub one: bool,
    /// may raise an error (value dependent or deliberate)
    pub err: bool,
}

fn e1(t: impl Into<String>, s: Shape) -> E {
    E { t: t.into(), s, one: true, err: false }
}

pub struct Gen<'a, 'b> {
    pub u: &'a mut Src<'b>,
    vars: Vec<(String, Shape)>,
    fresh: usize,
    pub ops: BTreeSet<&'static str>,
    pub nodes: usize,
    /// a `catch .` exposes message text as a value
    pub catch_dot: bool,
    /// number of deliberate type errors placed
    pub deliberate: usize,
}

pub fn jq_str(s: &str) -> String {
    // jq string literal == JSON string literal as long as no "\(" appears
    let mut o = String::from("\"");
    for c in s.chars() {
        match c {
            '"' => o.push_str("\\\""),
            '\\' => o.push_str("\\\\"),
            '\n' => o.push_str("\\n"),
            '\t' => o.push_str("\\t"),
            '\r' => o.push_str("\\r"),
            c if (c as u32) < 0x20 => o.push_str(&format!("\\u{:04x}", c as u32)),
            c => o.push(c),
        }
    }
    o.push('"');
    o
}

fn is_ident(k: &str) -> bool {
    let mut cs = k.chars();
    match cs.next() {
        Some(c) if c.is_ascii_alphabetic() || c == '_' => {}
        _ => return false,
    }
    cs.all(|c| c.is_ascii_alphanumeric() || c == '_') && !crate::gen::json::JQ_KEYWORDS.contains(&k) && !["and", "or", "not", "if", "then", "else", "end", "as", "def", "reduce", "foreach", "try", "catch", "label", "import", "include", "elif", "__loc__"].contains(&k)
}

fn field(k: &str) -> String {
    if is_ident(k) {
        format!(".{}", k)
    } else {
        format!(".[{}]", jq_str(k))
    }
}

impl<'a, 'b> Gen<'a, 'b> {
    pub fn new(u: &'a mut Src<'b>) -> Self {
        Gen { u, vars: vec![], fresh: 0, ops: BTreeSet::new(), nodes: 0, catch_dot: false, deliberate: 0 }
    }

    fn op(&mut self, name: &'static str) {
        self.ops.insert(name);
        self.nodes += 1;
    }

    fn var(&mut self) -> String {
        self.fresh += 1;
        format!("$v{}", self.fresh)
    }

    fn small_int(&mut self) -> i64 {
        match self.u.weighted(&[6, 3, 1]) {
            0 => self.u.range_i64(0, 5),
            1 => self.u.range_i64(-3, 12),
            _ => *self.u.pick(&[100i64, 1000, -7, 64]),
        }
    }

    fn lit_num(&mut self) -> E {
        self.nodes += 1;
        let n = self.small_int();
        if self.u.ratio(1, 8) {
            let q = *self.u.pick(&[".5", ".25"]);
            // negative literals are spelled with unary minus applied to a positive literal
            return if n < 0 { e1(format!("(-{}{})", -n, q), Shape::Num) } else { e1(format!("{}{}", n, q), Shape::Num) };
        }
        if n < 0 {
            e1(format!("(-{})", -n), Shape::Num)
        } else {
            e1(format!("{}", n), Shape::Num)
        }
    }

    fn lit_str(&mut self) -> E {
        self.nodes += 1;
        let s = if self.u.ratio(4, 5) { (*self.u.pick(&["a", "b", "ab", "foo", "", "x y", ",", "A1", "12", "é", "k"])).to_string() } else { gen_str(self.u) };
        e1(jq_str(&s), Shape::Str)
    }

    fn lit(&mut self) -> E {
        match self.u.weighted(&[5, 4, 2, 2, 1, 1, 1]) {
            0 => self.lit_num(),
            1 => self.lit_str(),
            2 => {
                self.nodes += 1;
                e1(if self.u.bool() { "true" } else { "false" }, Shape::Bool)
            }
            3 => {
                self.nodes += 1;
                e1("null", Shape::Null)
            }
            4 => {
                self.nodes += 1;
                e1("[]", Shape::Arr(vec![]))
            }
            5 => {
                self.nodes += 1;
                e1("{}", Shape::Obj(vec![]))
            }
            _ => {
                let a = self.lit_num();
                let b = self.lit_num();
                e1(format!("[{}, {}]", a.t, b.t), Shape::Arr(vec![Shape::Num, Shape::Num]))
            }
        }
    }

    /// A path chain into `inp` (no leading expression): returns (text, shape, one, err).
    /// `write` = usable as an assignment target (no `?`, may create keys).
    fn path(&mut self, inp: &Shape, max_steps: usize, write: bool) -> E {
        let mut t = String::new();
        let mut s = inp.clone();
        let mut one = true;
        let steps = self.u.range(1, max_steps.max(1));
        for i in 0..steps {
            let first = i == 0;
            let dot = |t: &str| if first || t.is_empty() { ".".to_string() } else { String::new() };
            match s.clone() {
                Shape::Obj(f) if !f.is_empty() && !self.u.ratio(1, 10) => {
                    let (k, ks) = self.u.pick(&f).clone();
                    self.op("field");
                    if is_ident(&k) && self.u.ratio(4, 5) {
                        t.push_str(&format!(".{}", k));
                    } else if is_ident(&k) && self.u.ratio(1, 2) {
                        t.push_str(&format!(".{}", jq_str(&k)));
                    } else {
                        t.push_str(&format!("{}[{}]", dot(&t), jq_str(&k)));
                    }
                    s = ks;
                }
                Shape::Obj(_) | Shape::Null => {
                    // missing key (reads null) / null is indexable by anything
                    let k = *self.u.pick(&["zz", "a", "missing"]);
                    self.op("field");
                    if matches!(s, Shape::Null) && self.u.ratio(1, 3) {
                        t.push_str(&format!("{}[{}]", dot(&t), self.u.range(0, 2)));
                    } else {
                        t.push_str(&format!(".{}", k));
                    }
                    s = match &s {
                        Shape::Obj(f) => f.iter().find(|x| x.0 == k).map(|x| x.1.clone()).unwrap_or(Shape::Null),
                        _ => Shape::Null,
                    };
                }
                Shape::Arr(a) => match self.u.weighted(&[6, 3, if write { 1 } else { 3 }]) {
                    0 if !a.is_empty() => {
                        let i = self.u.below(a.len());
                        self.op("index");
                        if self.u.ratio(1, 4) {
                            t.push_str(&format!("{}[{}]", dot(&t), i as i64 - a.len() as i64));
                        } else {
                            t.push_str(&format!("{}[{}]", dot(&t), i));
                        }
                        s = a[i].clone();
                    }
                    1 | 0 => {
                        self.op("iterate");
                        t.push_str(&format!("{}[]", dot(&t)));
                        s = elem_of_list(&a);
                        one = false;
                    }
                    _ => {
                        // out-of-range read: null
                        self.op("index");
                        t.push_str(&format!("{}[{}]", dot(&t), a.len() + self.u.range(0, 2)));
                        s = Shape::Null;
                    }
                },
                Shape::ArrOf(e) => {
                    if self.u.ratio(2, 3) {
                        self.op("iterate");
                        t.push_str(&format!("{}[]", dot(&t)));
                        s = *e;
                        one = false;
                    } else {
                        self.op("index");
                        t.push_str(&format!("{}[{}]", dot(&t), self.u.range(0, 2)));
                        s = Shape::Any; // element or null
                    }
                }
                _ => break,
            }
        }
        if t.is_empty() {
            return e1(".", inp.clone());
        }
        E { t, s, one, err: false }
    }

    /// an expression of kind `want` (number / string / boolean / array / object) from `inp`
    fn typed(&mut self, inp: &Shape, want: &str, d: u32) -> E {
        // 1. a variable of that kind
        let vs: Vec<(String, Shape)> = self.vars.iter().filter(|v| v.1.kind() == want).cloned().collect();
        if !vs.is_empty() && self.u.ratio(1, 4) {
            self.nodes += 1;
            let (n, s) = self.u.pick(&vs).clone();
            return e1(n, s);
        }
        // 2. the input itself / a path into it
        if inp.kind() == want && self.u.ratio(1, 2) {
            self.nodes += 1;
            return e1(".", inp.clone());
        }
        if d > 0 && (inp.is_arr() || inp.is_obj()) && self.u.ratio(2, 3) {
            for _ in 0..3 {
                let save = (self.nodes, self.ops.clone());
                let p = self.path(inp, 2, false);
                if p.s.kind() == want {
                    return p;
                }
                self.nodes = save.0;
                self.ops = save.1;
            }
        }
        // 3. conversions
        if d > 0 && self.u.ratio(1, 2) {
            match want {
                "number" => {
                    if matches!(inp, Shape::Null | Shape::Num | Shape::Str | Shape::Arr(_) | Shape::ArrOf(_) | Shape::Obj(_)) {
                        self.op("length");
                        return e1("length", Shape::Num);
                    }
                }
                "string" => {
                    let b = *self.u.pick(&["tostring", "tojson", "type", "@json", "@text"]);
                    self.op(b);
                    return e1(b, Shape::Str);
                }
                "boolean" => return self.cond(inp, d - 1),
                "array" => {
                    if inp.is_obj() {
                        let b = *self.u.pick(&["keys", "keys_unsorted", "to_entries"]);
                        self.op(b);
                        let es = if b == "to_entries" { Shape::ArrOf(Box::new(Shape::Obj(vec![("key".into(), Shape::Str), ("value".into(), inp.elem())]))) } else { Shape::ArrOf(Box::new(Shape::Str)) };
                        return e1(b, es);
                    }
                    let x = self.expr(inp, d - 1);
                    self.op("collect");
                    let s = if x.one { Shape::Arr(vec![x.s.clone()]) } else { Shape::ArrOf(Box::new(x.s.clone())) };
                    return E { t: format!("[{}]", x.t), s, one: true, err: x.err };
                }
                "object" => {
                    let x = self.expr(inp, d - 1);
                    if x.one {
                        self.op("object");
                        return E { t: format!("{{a: {}}}", x.t), s: Shape::Obj(vec![("a".into(), x.s.clone())]), one: true, err: x.err };
                    }
                }
                _ => {}
            }
        }
        // 4. literal
        match want {
            "number" => self.lit_num(),
            "string" => self.lit_str(),
            "boolean" => {
                self.nodes += 1;
                e1(if self.u.bool() { "true" } else { "false" }, Shape::Bool)
            }
            "array" => {
                let a = self.lit_num();
                let b = self.lit_num();
                let c = self.lit_num();
                e1(format!("[{}, {}, {}]", a.t, b.t, c.t), Shape::Arr(vec![Shape::Num; 3]))
            }
            "object" => {
                let a = self.lit_num();
                let b = self.lit_str();
                e1(format!("{{a: {}, b: {}}}", a.t, b.t), Shape::Obj(vec![("a".into(), Shape::Num), ("b".into(), Shape::Str)]))
            }
            _ => {
                self.nodes += 1;
                e1("null", Shape::Null)
            }
        }
    }

    /// a boolean-valued, single-output, total condition on `inp`
    pub fn cond(&mut self, inp: &Shape, d: u32) -> E {
        let c = self.u.weighted(&[6, 3, 2, 2, 2, 2, 1, 2]);
        match c {
            0 => {
                // comparison of two same-kind values (or anything: jq's order is total)
                let kind = *self.u.pick(&["number", "number", "string", "boolean", "array"]);
                let a = self.typed(inp, kind, d.saturating_sub(1));
                let b = if self.u.ratio(1, 6) { self.lit() } else { self.typed(inp, kind, 0) };
                let o = *self.u.pick(&["==", "!=", "<", "<=", ">", ">="]);
                self.op(match o {
                    "==" | "!=" => "eq",
                    _ => "order",
                });
                E { t: format!("({} {} {})", a.t, o, b.t), s: Shape::Bool, one: a.one && b.one, err: a.err || b.err }
            }
            1 => {
                let k = *self.u.pick(&["number", "string", "array", "object", "null", "boolean"]);
                self.op("type");
                self.op("eq");
                e1(format!("(type == {})", jq_str(k)), Shape::Bool)
            }
            2 if d > 0 => {
                let a = self.cond(inp, d - 1);
                let b = self.cond(inp, d - 1);
                let o = *self.u.pick(&["and", "or"]);
                self.op(o);
                E { t: format!("({} {} {})", a.t, o, b.t), s: Shape::Bool, one: a.one && b.one, err: a.err || b.err }
            }
            3 if d > 0 => {
                let a = self.cond(inp, d - 1);
                self.op("not");
                E { t: format!("({} | not)", a.t), s: Shape::Bool, one: a.one, err: a.err }
            }
            4 => match inp {
                Shape::Obj(f) => {
                    let k = if !f.is_empty() && self.u.ratio(2, 3) { self.u.pick(f).0.clone() } else { "zz".to_string() };
                    self.op("has");
                    e1(format!("has({})", jq_str(&k)), Shape::Bool)
                }
                Shape::Arr(_) | Shape::ArrOf(_) => {
                    self.op("has");
                    e1(format!("has({})", self.u.range(0, 4)), Shape::Bool)
                }
                Shape::Str => {
                    let b = *self.u.pick(&["startswith", "endswith", "contains"]);
                    self.op(b);
                    let l = self.lit_str();
                    e1(format!("{}({})", b, l.t), Shape::Bool)
                }
                _ => {
                    self.op("eq");
                    e1("(. == null)", Shape::Bool)
                }
            },
            5 => match inp {
                Shape::Null | Shape::Num | Shape::Str | Shape::Arr(_) | Shape::ArrOf(_) | Shape::Obj(_) => {
                    self.op("length");
                    self.op("order");
                    e1(format!("(length > {})", self.u.range(0, 3)), Shape::Bool)
                }
                _ => {
                    self.op("not");
                    e1("not", Shape::Bool)
                }
            },
            6 if inp.is_arr() || inp.is_obj() => {
                let b = *self.u.pick(&["any", "all"]);
                self.op(b);
                if d > 0 && self.u.ratio(1, 2) {
                    let c = self.cond(&inp.elem(), d - 1);
                    if c.one && !c.err {
                        return e1(format!("{}({})", b, c.t), Shape::Bool);
                    }
                }
                e1(b, Shape::Bool)
            }
            _ => {
                self.nodes += 1;
                e1(if self.u.ratio(3, 4) { "true" } else { "false" }, Shape::Bool)
            }
        }
    }

    /// a stream (usually several outputs) with a known element shape
    fn stream(&mut self, inp: &Shape, d: u32) -> E {
        match self.u.weighted(&[5, 3, 3, 1]) {
            0 if inp.is_arr() || inp.is_obj() => {
                self.op("iterate");
                E { t: ".[]".into(), s: inp.elem(), one: false, err: false }
            }
            1 | 0 => {
                self.op("range");
                let t = match self.u.below(3) {
                    0 => format!("range({})", self.u.range(0, 5)),
                    1 => {
                        let a = self.u.range_i64(-2, 3);
                        format!("range({}; {})", a, a + self.u.range_i64(0, 5))
                    }
                    _ => {
                        let st = *self.u.pick(&[1i64, 2, 3, -1, -2]);
                        let a = self.u.range_i64(-3, 6);
                        let b = a + st.signum() * self.u.range_i64(0, 7);
                        format!("range({}; {}; {})", a, b, st)
                    }
                };
                E { t, s: Shape::Num, one: false, err: false }
            }
            2 => {
                let n = self.u.range(2, 3);
                let xs: Vec<E> = (0..n).map(|_| self.expr(inp, d.saturating_sub(1))).collect();
                self.op("comma");
                let s = xs.iter().skip(1).fold(xs[0].s.clone(), |a, x| a.join(&x.s));
                E { t: format!("({})", xs.iter().map(|x| x.t.clone()).collect::<Vec<_>>().join(", ")), s, one: false, err: xs.iter().any(|x| x.err) }
            }
            _ => {
                let x = self.expr(inp, d.saturating_sub(1));
                E { one: false, ..x }
            }
        }
    }

    /// builtins defined on the given input shape; returns None when nothing applies
    fn builtin(&mut self, inp: &Shape, d: u32) -> Option<E> {
        let dd = d.saturating_sub(1);
        Some(match inp {
            Shape::Num => match self.u.below(12) {
                0 => {
                    // sqrt is back in the profile: sqrt-not-correctly-rounded was repaired (50092a0)
                    let b = *self.u.pick(&["floor", "ceil", "round", "trunc", "fabs", "(fabs | sqrt)"]);
                    self.op(b);
                    e1(b, Shape::Num)
                }
                1 => {
                    let b = *self.u.pick(&["tostring", "tojson", "@text", "@json"]);
                    self.op(b);
                    e1(b, Shape::Str)
                }
                2 => {
                    self.op("tostring");
                    self.op("tonumber");
                    e1("(tostring | tonumber)", Shape::Num)
                }
                3 => {
                    self.op("until");
                    let k = self.u.range_i64(1, 40);
                    let s = self.u.range_i64(1, 9);
                    e1(format!("(if . > 1000 or . < -1000 then 0 else . end | until(. >= {}; . + {}))", k, s), Shape::Num)
                }
                4 => {
                    self.op("while");
                    let k = self.u.range_i64(1, 30);
                    let s = self.u.range_i64(2, 9);
                    e1(format!("[if . < -100 then 0 else . end | while(. < {}; . + {})]", k, s), Shape::ArrOf(Box::new(Shape::Num)))
                }
                5 => {
                    self.op("repeat");
                    self.op("limit");
                    e1(format!("[limit({}; repeat(. * 2))]", self.u.range(1, 5)), Shape::ArrOf(Box::new(Shape::Num)))
                }
                6 => {
                    self.op("recurse");
                    let k = self.u.range_i64(1, 12);
                    e1(format!("[recurse(if . < {} and . > -50 then . + 3 else empty end)]", k), Shape::ArrOf(Box::new(Shape::Num)))
                }
                7 => {
                    self.op("recurse");
                    let k = self.u.range_i64(1, 12);
                    e1(format!("[recurse(. + 2; . < {} and . > -50)]", k), Shape::ArrOf(Box::new(Shape::Num)))
                }
                8 => {
                    self.op("length");
                    e1("length", Shape::Num)
                }
                9 => {
                    self.op("neg");
                    e1("(-(.))", Shape::Num)
                }
                10 => {
                    self.op("isnan");
                    e1("isnan", Shape::Bool)
                }
                _ => return None,
            },
            Shape::Str => match self.u.below(17) {
                0 => {
                    let b = *self.u.pick(&["length", "utf8bytelength"]);
                    self.op(b);
                    e1(b, Shape::Num)
                }
                1 => {
                    let b = *self.u.pick(&["ascii_downcase", "ascii_upcase"]);
                    self.op(b);
                    e1(b, Shape::Str)
                }
                2 => {
                    self.op("explode");
                    e1("explode", Shape::ArrOf(Box::new(Shape::Num)))
                }
                3 => {
                    let b = *self.u.pick(&["ltrimstr", "rtrimstr"]);
                    self.op(b);
                    let l = self.lit_str();
                    e1(format!("{}({})", b, l.t), Shape::Str)
                }
                4 => {
                    let b = *self.u.pick(&["startswith", "endswith", "contains", "inside"]);
                    self.op(b);
                    let l = self.lit_str();
                    e1(format!("{}({})", b, l.t), Shape::Bool)
                }
                5 => {
                    self.op("split");
                    let sep = *self.u.pick(&[",", " ", "a", "b", "/", "ab"]);
                    e1(format!("split({})", jq_str(sep)), Shape::ArrOf(Box::new(Shape::Str))) // "" is back in the domain: split-of-empty-string was repaired (55e0ae2)
                }
                6 => {
                    // ASCII-only subject and needle: offsets are bytes in 1.6, code points in 1.7
                    let b = *self.u.pick(&["index", "rindex", "indices"]);
                    self.op(b);
                    self.op("explode");
                    let n = *self.u.pick(&["a", "b", "o", "ab", " ", ","]);
                    let s = if b == "indices" { Shape::ArrOf(Box::new(Shape::Num)) } else { Shape::Any };
                    e1(format!("(if (explode | map(select(. > 127)) | length) == 0 then . else \"abcab\" end | {}({}))", b, jq_str(n)), s)
                }
                7 => {
                    self.op("slice");
                    let a = self.u.range_i64(-3, 3);
                    let t = match self.u.below(3) {
                        0 => format!(".[{}:]", a),
                        1 => format!(".[:{}]", a),
                        _ => format!(".[{}:{}]", a, a + self.u.range_i64(0, 4)),
                    };
                    e1(t, Shape::Str)
                }
                8 => {
                    self.op("tonumber");
                    // value dependent: "12" parses, "abc" raises
                    E { t: "tonumber".into(), s: Shape::Num, one: true, err: true }
                }
                9 => {
                    self.op("tojson");
                    self.op("fromjson");
                    e1("(tojson | fromjson)", Shape::Str)
                }
                10 => {
                    let b = *self.u.pick(&["@base64", "@sh", "@json", "@text", "tojson", "tostring"]);
                    self.op(b);
                    e1(b, Shape::Str)
                }
                11 => {
                    self.op("string-repeat");
                    e1(format!("(. * {})", self.u.range(1, 3)), Shape::Str)
                }
                12 => {
                    self.op("add");
                    let l = self.lit_str();
                    e1(format!("(. + {})", l.t), Shape::Str)
                }
                13 => {
                    self.op("string-divide");
                    let sep = *self.u.pick(&[",", " ", "a"]);
                    e1(format!("(if . == \"\" then \"a\" else . end | . / {})", jq_str(sep)), Shape::ArrOf(Box::new(Shape::Str)))
                }
                14 => {
                    self.op("interpolation");
                    e1("\"<\\(.)>\"", Shape::Str)
                }
                15 => {
                    self.op("ascii_downcase");
                    self.op("explode");
                    e1("(explode | length)", Shape::Num)
                }
                _ => return None,
            },
            Shape::Null | Shape::Bool => match self.u.below(5) {
                0 => {
                    self.op("not");
                    e1("not", Shape::Bool)
                }
                1 => {
                    self.op("alternative");
                    let l = self.lit();
                    e1(format!("(. // {})", l.t), Shape::Any)
                }
                2 if matches!(inp, Shape::Null) => {
                    self.op("add");
                    let l = self.lit();
                    e1(format!("(. + {})", l.t), l.s)
                }
                3 => {
                    let b = *self.u.pick(&["tostring", "tojson", "type"]);
                    self.op(b);
                    e1(b, Shape::Str)
                }
                _ => return None,
            },
            Shape::Arr(_) | Shape::ArrOf(_) => {
                let es = inp.elem();
                match self.u.below(30) {
                    0 => {
                        self.op("length");
                        e1("length", Shape::Num)
                    }
                    1 | 2 => {
                        let f = self.expr(&es, dd);
                        self.op("map");
                        E { t: format!("map({})", f.t), s: Shape::ArrOf(Box::new(f.s.clone())), one: true, err: f.err }
                    }
                    3 => {
                        let c = self.cond(&es, dd);
                        self.op("map");
                        self.op("select");
                        E { t: format!("map(select({}))", c.t), s: Shape::ArrOf(Box::new(es)), one: true, err: c.err }
                    }
                    4 => {
                        self.op("add");
                        let s = match (&es, inp) {
                            (Shape::Num, Shape::Arr(a)) if !a.is_empty() => Shape::Num,
                            (Shape::Str, Shape::Arr(a)) if !a.is_empty() => Shape::Str,
                            _ => Shape::Any,
                        };
                        // mixed kinds cannot be added: only homogeneous or unknown-but-collected
                        if matches!(es, Shape::Num | Shape::Str | Shape::Null | Shape::Arr(_) | Shape::ArrOf(_) | Shape::Obj(_)) {
                            e1("add", s)
                        } else {
                            E { t: "add".into(), s: Shape::Any, one: true, err: true }
                        }
                    }
                    5 => {
                        let b = *self.u.pick(&["sort", "unique", "reverse"]);
                        self.op(b);
                        e1(b, if b == "unique" { Shape::ArrOf(Box::new(es)) } else { inp.clone() })
                    }
                    6 => {
                        let b = *self.u.pick(&["sort_by", "group_by", "unique_by"]);
                        let f = self.expr(&es, dd);
                        if f.err {
                            return None;
                        }
                        self.op(b);
                        let s = if b == "group_by" { Shape::ArrOf(Box::new(Shape::ArrOf(Box::new(es)))) } else { Shape::ArrOf(Box::new(es)) };
                        e1(format!("{}({})", b, f.t), s)
                    }
                    7 => {
                        let b = *self.u.pick(&["min", "max"]);
                        self.op(b);
                        e1(b, Shape::Any)
                    }
                    8 => {
                        self.op("flatten");
                        // bare `flatten` excluded while the finding flatten-only-one-level is open
                        let t = format!("flatten({})", self.u.range(0, 3));
                        e1(t, Shape::ArrOf(Box::new(Shape::Any)))
                    }
                    9 => {
                        let b = *self.u.pick(&["first", "last"]);
                        self.op(b);
                        // 0-arity first/last are .[0] / .[-1]
                        e1(b, Shape::Any)
                    }
                    10 => {
                        let b = *self.u.pick(&["any", "all"]);
                        self.op(b);
                        e1(b, Shape::Bool)
                    }
                    11 if inp.scalar_elems() => {
                        self.op("join");
                        let sep = *self.u.pick(&[",", "", "-", " / "]);
                        e1(format!("join({})", jq_str(sep)), Shape::Str)
                    }
                    12 if inp.scalar_elems() => {
                        let b = *self.u.pick(&["@csv", "@tsv", "@sh", "@json", "@text"]);
                        self.op(b);
                        e1(b, Shape::Str)
                    }
                    13 => {
                        let b = *self.u.pick(&["contains", "inside"]);
                        self.op(b);
                        let x = self.typed(inp, "array", 0);
                        E { t: format!("{}({})", b, x.t), s: Shape::Bool, one: x.one, err: true }
                    }
                    14 => {
                        let b = *self.u.pick(&["index", "rindex", "indices"]);
                        self.op(b);
                        let x = self.lit_num();
                        e1(format!("{}({})", b, x.t), Shape::Any)
                    }
                    15 => {
                        self.op("slice");
                        let a = self.u.range_i64(-3, 3);
                        let t = match self.u.below(3) {
                            0 => format!(".[{}:]", a),
                            1 => format!(".[:{}]", a),
                            _ => format!(".[{}:{}]", a, a + self.u.range_i64(0, 4)),
                        };
                        e1(t, Shape::ArrOf(Box::new(es)))
                    }
                    16 => {
                        let b = *self.u.pick(&["tostream", "paths", "..", "recurse", "recurse(.[]?)", ".[]?"]);
                        self.op(match b {
                            ".." | "recurse" | "recurse(.[]?)" => "recurse",
                            ".[]?" => "iterate",
                            x => x,
                        });
                        e1(format!("[{}]", b), Shape::ArrOf(Box::new(Shape::Any)))
                    }
                    17 => {
                        self.op("fromstream");
                        self.op("tostream");
                        e1("fromstream(tostream)", inp.clone())
                    }
                    18 => {
                        self.op("to_entries");
                        e1("to_entries", Shape::ArrOf(Box::new(Shape::Obj(vec![("key".into(), Shape::Num), ("value".into(), es)]))))
                    }
                    19 => {
                        self.op("sort");
                        self.op("bsearch");
                        let x = if matches!(es, Shape::Str) { self.lit_str() } else { self.lit_num() };
                        e1(format!("(sort | bsearch({}))", x.t), Shape::Num)
                    }
                    20 if matches!(&es, Shape::Obj(f) if !f.is_empty()) => {
                        let k = match &es {
                            Shape::Obj(f) => self.u.pick(f).clone(),
                            _ => unreachable!(),
                        };
                        if !k.1.is_scalar_known() {
                            return None;
                        }
                        self.op("INDEX");
                        e1(format!("INDEX({})", field(&k.0)), Shape::Any)
                    }
                    21 => {
                        let i = self.u.range(0, 3);
                        let v = self.expr(inp, dd);
                        if !v.one {
                            return None;
                        }
                        self.op("setpath");
                        E { t: format!("setpath([{}]; {})", i, v.t), s: Shape::ArrOf(Box::new(Shape::Any)), one: true, err: v.err }
                    }
                    22 => {
                        self.op("delpaths");
                        e1(format!("delpaths([[{}], [{}]])", self.u.range(0, 3), self.u.range_i64(-2, 3)), Shape::ArrOf(Box::new(es)))
                    }
                    23 => {
                        self.op("del");
                        let t = match self.u.below(3) {
                            0 => format!("del(.[{}])", self.u.range_i64(-2, 3)),
                            1 => format!("del(.[{}, {}])", self.u.range(0, 3), self.u.range(0, 3)),
                            _ => format!("del(.[{}:{}])", self.u.range(0, 2), self.u.range(1, 4)),
                        };
                        e1(t, Shape::ArrOf(Box::new(es)))
                    }
                    24 => {
                        self.op("getpath");
                        let p = self.path(inp, 2, false);
                        if !p.one {
                            return None;
                        }
                        self.op("path");
                        e1(format!("getpath(path({}))", p.t), p.s)
                    }
                    25 => {
                        self.op("has");
                        e1(format!("has({})", self.u.range(0, 4)), Shape::Bool)
                    }
                    26 if matches!(es, Shape::Num) => {
                        self.op("add");
                        self.op("length");
                        e1("(if length == 0 then null else add / length end)", Shape::Any)
                    }
                    _ => return None,
                }
            }
            Shape::Obj(f) => {
                let es = inp.elem();
                match self.u.below(22) {
                    0 => {
                        let b = *self.u.pick(&["keys", "keys_unsorted"]);
                        self.op(b);
                        e1(b, Shape::Arr(vec![Shape::Str; f.len()]))
                    }
                    1 => {
                        self.op("length");
                        e1("length", Shape::Num)
                    }
                    2 => {
                        self.op("to_entries");
                        e1("to_entries", Shape::ArrOf(Box::new(Shape::Obj(vec![("key".into(), Shape::Str), ("value".into(), es)]))))
                    }
                    3 => {
                        self.op("to_entries");
                        self.op("from_entries");
                        e1("(to_entries | from_entries)", inp.clone())
                    }
                    4 => {
                        self.op("with_entries");
                        let t = match self.u.below(4) {
                            0 => "with_entries(.key |= \"p_\" + .)".to_string(),
                            1 => "with_entries(select(.value != null))".to_string(),
                            2 => "with_entries(.value |= [.])".to_string(),
                            _ => "with_entries({key: (.key | ascii_upcase), value: .value})".to_string(),
                        };
                        e1(t, Shape::Any)
                    }
                    5 => {
                        let f2 = self.expr(&es, dd);
                        self.op("map");
                        E { t: format!("map({})", f2.t), s: Shape::ArrOf(Box::new(f2.s.clone())), one: true, err: f2.err }
                    }
                    6 => {
                        self.op("add");
                        E { t: "add".into(), s: Shape::Any, one: true, err: !matches!(es, Shape::Num | Shape::Str | Shape::Null) }
                    }
                    7 if !f.is_empty() => {
                        self.op("del");
                        let k = self.u.pick(f).0.clone();
                        let rest: Vec<(String, Shape)> = f.iter().filter(|x| x.0 != k).cloned().collect();
                        e1(format!("del({})", field(&k)), Shape::Obj(rest))
                    }
                    8 => {
                        self.op("delpaths");
                        let k = if !f.is_empty() { self.u.pick(f).0.clone() } else { "a".into() };
                        e1(format!("delpaths([[{}], [\"zz\"]])", jq_str(&k)), Shape::Any)
                    }
                    9 => {
                        let b = *self.u.pick(&["tostream", "paths", "..", "recurse", "paths(type == \"number\")", "paths(scalars)", ".. | scalars"]);
                        self.op(match b {
                            ".." | "recurse" | ".. | scalars" => "recurse",
                            "tostream" => "tostream",
                            _ => "paths",
                        });
                        e1(format!("[{}]", b), Shape::ArrOf(Box::new(Shape::Any)))
                    }
                    10 => {
                        self.op("fromstream");
                        self.op("tostream");
                        e1("fromstream(tostream)", inp.clone())
                    }
                    11 => {
                        let k = if !f.is_empty() && self.u.ratio(1, 2) { self.u.pick(f).0.clone() } else { (*self.u.pick(KEYS)).to_string() };
                        let v = self.expr(inp, dd);
                        if !v.one {
                            return None;
                        }
                        self.op("setpath");
                        E { t: format!("setpath([{}]; {})", jq_str(&k), v.t), s: Shape::Any, one: true, err: v.err }
                    }
                    12 => {
                        self.op("getpath");
                        let k = if !f.is_empty() { self.u.pick(f).0.clone() } else { "a".into() };
                        E { t: format!("getpath([{}, \"zz\"])", jq_str(&k)), s: Shape::Any, one: true, err: true }
                    }
                    13 => {
                        let b = *self.u.pick(&["any", "all"]);
                        self.op(b);
                        e1(b, Shape::Bool)
                    }
                    14 => {
                        let k = if !f.is_empty() && self.u.ratio(2, 3) { self.u.pick(f).0.clone() } else { "zz".into() };
                        self.op("has");
                        e1(format!("has({})", jq_str(&k)), Shape::Bool)
                    }
                    15 => {
                        self.op("merge");
                        let o = self.typed(inp, "object", dd);
                        let o2 = *self.u.pick(&["+", "*"]);
                        E { t: format!("(. {} {})", o2, o.t), s: Shape::Any, one: o.one, err: o.err }
                    }
                    16 => {
                        self.op("contains");
                        let o = self.typed(inp, "object", 0);
                        E { t: format!("contains({})", o.t), s: Shape::Bool, one: o.one, err: true }
                    }
                    17 if !f.is_empty() => {
                        self.op("in");
                        let k = self.u.pick(f).0.clone();
                        e1(format!("(. as $o | {} | in($o))", jq_str(&k)), Shape::Bool)
                    }
                    18 => {
                        self.op("getpath");
                        self.op("path");
                        let p = self.path(inp, 2, false);
                        if !p.one {
                            // getpath(f) with a multi-output f takes the first output only:
                            // documented (jq-language.md, multi-output in non-fanout positions)
                            return None;
                        }
                        e1(format!("[getpath(path({}))]", p.t), Shape::ArrOf(Box::new(p.s)))
                    }
                    19 => {
                        self.op("path");
                        let p = self.path(inp, 3, false);
                        e1(format!("[path({})]", p.t), Shape::ArrOf(Box::new(Shape::Any)))
                    }
                    _ => return None,
                }
            }
            Shape::Any => match self.u.below(8) {
                0 => {
                    let b = *self.u.pick(&["type", "tojson", "tostring", "@json", "@text"]);
                    self.op(b);
                    e1(b, Shape::Str)
                }
                1 => {
                    self.op("collect");
                    e1("[.]", Shape::Arr(vec![Shape::Any]))
                }
                2 => {
                    let b = *self.u.pick(&["..", "recurse", "paths", "tostream", ".[]?", ".a?", ".[0]?", "scalars"]);
                    self.op(match b {
                        ".." | "recurse" => "recurse",
                        ".[]?" => "iterate",
                        ".a?" => "field",
                        ".[0]?" => "index",
                        x => x,
                    });
                    e1(format!("[{}]", b), Shape::ArrOf(Box::new(Shape::Any)))
                }
                3 => {
                    self.op("not");
                    e1("not", Shape::Bool)
                }
                4 => {
                    self.op("alternative");
                    let l = self.lit();
                    e1(format!("(. // {})", l.t), Shape::Any)
                }
                5 => {
                    self.op("tojson");
                    self.op("fromjson");
                    e1("(tojson | fromjson)", Shape::Any)
                }
                6 => {
                    self.op("try");
                    self.op("length");
                    e1("([try length catch \"nolen\"] | .[])", Shape::Any)
                }
                _ => return None,
            },
        })
    }

    /// deliberate type error: an operator applied to a kind it is not defined on; the
    /// message families are those of the recorded error-probe corpus
    fn type_error(&mut self, inp: &Shape) -> Option<E> {
        let atoms: &[&str] = match inp {
            Shape::Num => &[".foo", ".[0]", ".[]", "keys", "(. + \"a\")", "(. - \"a\")", "({} - .)", "([] - .)", "has(\"a\")", "sort", "(. * {})", "(\"a\" / .)", "to_entries", "explode", "ascii_downcase", "join(\",\")", "startswith(\"a\")", "ltrimstr(\"a\") | .x", "tojson | .[0]", "add", "flatten", "utf8bytelength", "fromjson", "(. % \"a\")", "unique", "min", "has(0)", "contains(\"a\")", "split(\",\")"],
            Shape::Str => &[".foo", ".[0]", ".[]", "keys", "(. + 1)", "(. - \"a\")", "(. - 1)", "has(\"a\")", "sort", "({} + .)", "([] + .)", "(. * \"b\")", "(. / 0)", "to_entries", "add", "flatten", "floor | .x", "(. % 2)", "unique", "has(0)", "contains(1)", "join(\",\")", "setpath([\"a\"]; 1)", "setpath([0]; 1)", "del(.a)", "(.a = 1)", "(.[0] = 1)", "map(.)", "group_by(.)", "sort_by(.)", "max"],
            Shape::Bool => &[".foo", ".[0]", ".[]", "keys", "length", "(. + 1)", "(. - 1)", "has(\"a\")", "sort", "(. * 2)", "(1 / .)", "to_entries", "explode", "tonumber", "add", "utf8bytelength", "ascii_upcase", "startswith(\"a\")", "contains(1)", "split(\",\")", "join(\",\")", "fromjson"],
            Shape::Null => &[".[]", "keys", "has(\"a\")", "sort", "(1 - .)", "(. * 2)", "(. / 2)", "explode", "tonumber", "utf8bytelength", "startswith(\"a\")", "to_entries", "(. % 2)"],
            Shape::Arr(_) | Shape::ArrOf(_) => &[".foo", ".[\"a\"]", "(. + 1)", "(. - 1)", "(. + \"a\")", "(. + {})", "(. * 2)", "(. / 2)", "has(\"a\")", "explode", "tonumber", "ascii_downcase", "startswith(\"a\")", "utf8bytelength", "ltrimstr(1) | .foo", "(. % 2)", "split(\",\")", "fromjson", "contains(\"a\")", "({} + .)", ".[\"a\"]?, .foo", "setpath([\"a\"]; 1)", "(.a = 1)", "del(.a)", "has(\"0\")"],
            Shape::Obj(_) => &[".[0]", "(. + 1)", "(. - {})", "(. + [])", "(. * 2)", "(. / {})", "has(0)", "sort", "explode", "tonumber", "ascii_downcase", "utf8bytelength", "unique", "startswith(\"a\")", "join(\",\") | .[0]", "(. % 2)", "split(\",\")", "fromjson", "contains(1)", "setpath([0]; 1)", "(.[0] = 1)", "del(.[0])", ".[1:2]", "floor", "sqrt", "min | .[0]", "{(.): 1}"],
            Shape::Any => return None,
        };
        let a = *self.u.pick(atoms);
        self.op("type-error");
        self.deliberate += 1;
        Some(E { t: format!("({})", a), s: Shape::Any, one: false, err: true })
    }

    fn obj_construct(&mut self, inp: &Shape, d: u32) -> E {
        let n = self.u.range(1, 3);
        let mut parts = vec![];
        let mut fields: Vec<(String, Shape)> = vec![];
        let mut known = true;
        let mut one = true;
        let mut err = false;
        for _ in 0..n {
            match self.u.weighted(&[60, 12, 1, 12, 1, 8]) {
                // shorthand {k} == {k: .k}
                1 if matches!(inp, Shape::Obj(f) if f.iter().any(|x| is_ident(&x.0))) => {
                    if let Shape::Obj(f) = inp {
                        let c: Vec<&(String, Shape)> = f.iter().filter(|x| is_ident(&x.0)).collect();
                        let (k, s) = (*self.u.pick(&c)).clone();
                        parts.push(k.clone());
                        fields.retain(|x| x.0 != k);
                        fields.push((k, s));
                    }
                }
                // {$v}
                2 if !self.vars.is_empty() => {
                    let (vn, vs) = self.u.pick(&self.vars).clone();
                    self.op("obj-var-shorthand");
                    parts.push(vn.clone());
                    let k = vn.trim_start_matches('$').to_string();
                    fields.retain(|x| x.0 != k);
                    fields.push((k, vs));
                }
                // computed key (single output, string)
                3 => {
                    let k = self.typed(inp, "string", 0);
                    let v = self.expr(inp, d.saturating_sub(1));
                    if k.one && !k.err {
                        parts.push(format!("({}): {}", k.t, paren(&v.t)));
                        known = false;
                        one &= v.one;
                        err |= v.err;
                    }
                }
                // interpolated key
                4 => {
                    let v = self.expr(inp, d.saturating_sub(1));
                    self.op("interp-key");
                    parts.push(format!("\"k\\(1 + 1)\": {}", paren(&v.t)));
                    fields.retain(|x| x.0 != "k2");
                    fields.push(("k2".into(), v.s.clone()));
                    one &= v.one;
                    err |= v.err;
                }
                // quoted key
                5 => {
                    let k = *self.u.pick(ODD_KEYS);
                    let v = self.expr(inp, d.saturating_sub(1));
                    parts.push(format!("{}: {}", jq_str(k), paren(&v.t)));
                    fields.retain(|x| x.0 != k);
                    fields.push((k.to_string(), v.s.clone()));
                    one &= v.one;
                    err |= v.err;
                }
                _ => {
                    let k = *self.u.pick(KEYS);
                    let v = self.expr(inp, d.saturating_sub(1));
                    parts.push(format!("{}: {}", k, paren(&v.t)));
                    fields.retain(|x| x.0 != k);
                    fields.push((k.to_string(), v.s.clone()));
                    one &= v.one;
                    err |= v.err;
                }
            }
        }
        self.op("object");
        E { t: format!("{{{}}}", parts.join(", ")), s: if known { Shape::Obj(fields) } else { Shape::Any }, one, err }
    }

    fn arith(&mut self, inp: &Shape, d: u32) -> E {
        let dd = d.saturating_sub(1);
        match self.u.weighted(&[10, 3, 2, 2, 1]) {
            0 => {
                let a = self.typed(inp, "number", dd);
                let o = *self.u.pick(&["+", "-", "*", "/", "%", "+", "-", "*"]);
                let b = match o {
                    "/" | "%" => {
                        self.nodes += 1;
                        // non-zero literal divisor, rarely the literal 0 (stable message)
                        // jq 1.6 folds constant operands at compile time (`1 / 0`: compile error, `(0 | .) / 0`: NaN):
                        // a zero divisor only under a dividend that reads the input or a variable
                        let constant_dividend = !a.t.contains('.') && !a.t.contains('$');
                        let k = if !constant_dividend && self.u.ratio(1, 12) { 0 } else { *self.u.pick(&[1i64, 2, 3, 4, 5, 7, 10]) };
                        if k != 0 && self.u.ratio(1, 4) {
                            e1(format!("(-{})", k), Shape::Num)
                        } else {
                            E { t: format!("{}", k), s: Shape::Num, one: true, err: k == 0 }
                        }
                    }
                    _ => self.typed(inp, "number", 0),
                };
                self.op(match o {
                    "+" => "add",
                    "-" => "sub",
                    "*" => "mul",
                    "/" => "div",
                    _ => "mod",
                });
                // jq folds `literal / 0` at compile time ("Division by zero?"): keep the dividend non-constant
                let at = if b.t == "0" { format!("({} | .)", a.t) } else { a.t.clone() };
                E { t: format!("({} {} {})", at, o, b.t), s: Shape::Num, one: a.one && b.one, err: a.err || b.err }
            }
            1 => {
                let a = self.typed(inp, "string", dd);
                let b = self.typed(inp, "string", 0);
                self.op("add");
                E { t: format!("({} + {})", a.t, b.t), s: Shape::Str, one: a.one && b.one, err: a.err || b.err }
            }
            2 => {
                let a = self.typed(inp, "array", dd);
                let b = self.typed(inp, "array", 0);
                let o = *self.u.pick(&["+", "-"]);
                self.op(if o == "+" { "add" } else { "sub" });
                E { t: format!("({} {} {})", a.t, o, b.t), s: Shape::ArrOf(Box::new(a.s.elem().join(&b.s.elem()))), one: a.one && b.one, err: a.err || b.err }
            }
            3 => {
                let a = self.typed(inp, "object", dd);
                let b = self.typed(inp, "object", 0);
                let o = *self.u.pick(&["+", "*"]);
                self.op("merge");
                E { t: format!("({} {} {})", a.t, o, b.t), s: Shape::Any, one: a.one && b.one, err: a.err || b.err }
            }
            _ => {
                let b = self.expr(inp, dd);
                self.op("add");
                E { t: format!("(null + {})", paren(&b.t)), s: b.s.clone(), one: b.one, err: b.err }
            }
        }
    }

    fn assignment(&mut self, inp: &Shape, d: u32) -> Option<E> {
        if !(inp.is_arr() || inp.is_obj() || matches!(inp, Shape::Null)) {
            return None;
        }
        let dd = d.saturating_sub(1);
        let (p, fresh_key) = if inp.is_obj() && self.u.ratio(1, 4) {
            (e1(format!(".{}", self.u.pick(&["zz", "new", "a"])), Shape::Null), true)
        } else {
            (self.path(inp, 2, true), false)
        };
        if p.t == "." {
            return None;
        }
        let _ = fresh_key;
        let which = self.u.weighted(&[4, 4, 3, 1]);
        Some(match which {
            0 => {
                let v = self.expr(inp, dd);
                if !v.one {
                    return None;
                }
                self.op("assign");
                E { t: format!("({} = {})", p.t, paren(&v.t)), s: Shape::Any, one: true, err: v.err }
            }
            1 => {
                let f = self.expr(&p.s, dd);
                if !f.one {
                    return None;
                }
                self.op("update");
                E { t: format!("({} |= {})", p.t, paren(&f.t)), s: Shape::Any, one: true, err: f.err }
            }
            2 => {
                let (o, v) = match &p.s {
                    Shape::Num => (*self.u.pick(&["+=", "-=", "*="]), self.lit_num()),
                    Shape::Str => ("+=", self.lit_str()),
                    Shape::Null => ("+=", self.lit()),
                    Shape::Arr(_) | Shape::ArrOf(_) => ("+=", e1("[1]", Shape::Any)),
                    _ => return None,
                };
                self.op("arith-update");
                E { t: format!("({} {} {})", p.t, o, v.t), s: Shape::Any, one: true, err: false }
            }
            _ => {
                let v = self.lit();
                self.op("alt-update");
                E { t: format!("({} //= {})", p.t, v.t), s: Shape::Any, one: true, err: false }
            }
        })
    }

    fn binding(&mut self, inp: &Shape, d: u32) -> E {
        let dd = d.saturating_sub(1);
        let a = self.expr(inp, dd);
        let depth0 = self.vars.len();
        let pat = match &a.s {
            Shape::Arr(xs) if xs.len() >= 2 && self.u.ratio(1, 2) => {
                let (v1, v2) = (self.var(), self.var());
                self.vars.push((v1.clone(), xs[0].clone()));
                self.vars.push((v2.clone(), xs[1].clone()));
                self.op("destructure");
                format!("[{}, {}]", v1, v2)
            }
            Shape::Obj(f) if !f.is_empty() && self.u.ratio(1, 2) => {
                let (k, ks) = self.u.pick(f).clone();
                let v1 = self.var();
                self.vars.push((v1.clone(), ks));
                self.op("destructure");
                if is_ident(&k) {
                    format!("{{{}: {}}}", k, v1)
                } else {
                    format!("{{{}: {}}}", jq_str(&k), v1)
                }
            }
            s => {
                let v1 = self.var();
                self.vars.push((v1.clone(), s.clone()));
                v1
            }
        };
        let b = self.expr(inp, dd);
        self.vars.truncate(depth0);
        self.op("as");
        E { t: format!("({} as {} | {})", paren(&a.t), pat, b.t), s: b.s, one: a.one && b.one, err: a.err || b.err }
    }

    fn fold(&mut self, inp: &Shape, d: u32) -> E {
        let dd = d.saturating_sub(1);
        let s = self.stream(inp, dd);
        let v = self.var();
        self.vars.push((v.clone(), s.s.clone()));
        let which = self.u.weighted(&[3, 3, 2, 2, 3]);
        let r = match which {
            0 => {
                let term = match &s.s {
                    Shape::Num => v.clone(),
                    Shape::Null | Shape::Str | Shape::Arr(_) | Shape::ArrOf(_) | Shape::Obj(_) => format!("({} | length)", v),
                    _ => "1".to_string(),
                };
                self.op("reduce");
                E { t: format!("reduce {} as {} (0; . + {})", s.t, v, term), s: Shape::Num, one: true, err: s.err }
            }
            1 => {
                let f = self.expr(&s.s, dd);
                self.op("reduce");
                E { t: format!("reduce {} as {} ([]; . + [{} | {}])", s.t, v, v, f.t), s: Shape::ArrOf(Box::new(f.s.clone())), one: true, err: s.err || f.err }
            }
            2 => {
                self.op("reduce");
                E { t: format!("reduce {} as {} ({{}}; . + {{({} | tojson): {}}})", s.t, v, v, v), s: Shape::Any, one: true, err: s.err }
            }
            3 => {
                self.op("reduce");
                E { t: format!("reduce {} as {} (null; {})", s.t, v, v), s: Shape::Any, one: true, err: s.err }
            }
            _ => {
                self.op("foreach");
                let t = match self.u.below(3) {
                    0 => format!("foreach {} as {} (0; . + 1; [., {}])", s.t, v, v),
                    1 => format!("foreach {} as {} (0; . + 1)", s.t, v),
                    _ => format!("foreach {} as {} ([]; . + [{}]; length)", s.t, v, v),
                };
                E { t, s: Shape::Any, one: false, err: s.err }
            }
        };
        self.vars.pop();
        E { t: format!("({})", r.t), ..r }
    }

    fn def(&mut self, inp: &Shape, d: u32) -> E {
        let dd = d.saturating_sub(1);
        self.fresh += 1;
        let f = format!("f{}", self.fresh);
        self.op("def");
        match self.u.below(5) {
            0 => {
                let b = self.expr(inp, dd);
                E { t: format!("(def {}: {}; {})", f, b.t, f), ..b }
            }
            1 => {
                let b = self.expr(inp, dd);
                E { t: format!("(def {}: {}; [{}, {}])", f, b.t, f, f), s: Shape::ArrOf(Box::new(b.s.clone())), one: true, err: b.err }
            }
            2 => {
                let a = self.expr(inp, dd);
                E { t: format!("(def {}(g): [g, g]; {}({}))", f, f, a.t), s: Shape::ArrOf(Box::new(a.s.clone())), one: true, err: a.err }
            }
            3 => {
                let a = self.typed(inp, "number", dd);
                E { t: format!("(def {}($p): $p + 1; {}({}))", f, f, a.t), s: Shape::Num, one: a.one, err: a.err }
            }
            _ => {
                let n = self.u.range(0, 6);
                e1(format!("(def {}: if . <= 1 then 1 else . * (. - 1 | {}) end; {} | {})", f, f, n, f), Shape::Num)
            }
        }
    }

    /// the main recursive production
    pub fn expr(&mut self, inp: &Shape, d: u32) -> E {
        if d == 0 {
            return match self.u.weighted(&[4, 3, 5, 2, 2]) {
                0 => {
                    self.nodes += 1;
                    e1(".", inp.clone())
                }
                1 => self.lit(),
                2 if inp.is_arr() || inp.is_obj() => self.path(inp, 2, false),
                3 if !self.vars.is_empty() => {
                    self.nodes += 1;
                    let (n, s) = self.u.pick(&self.vars).clone();
                    e1(n, s)
                }
                _ => match self.builtin(inp, 0) {
                    Some(e) => e,
                    None => {
                        self.nodes += 1;
                        e1(".", inp.clone())
                    }
                },
            };
        }
        let dd = d - 1;
        let w: [u32; 23] = [12, 6, 6, 5, 6, 8, 4, 4, 4, 4, 3, 4, 4, 14, 2, 3, 2, 3, 2, 2, 2, 3, 1];
        match self.u.weighted(&w) {
            0 => {
                let a = self.expr(inp, dd);
                let b = self.expr(&a.s, dd);
                self.op("pipe");
                E { t: format!("({} | {})", a.t, b.t), s: b.s, one: a.one && b.one, err: a.err || b.err }
            }
            1 => {
                let a = self.expr(inp, dd);
                let b = self.expr(inp, dd);
                self.op("comma");
                E { t: format!("({}, {})", a.t, b.t), s: a.s.join(&b.s), one: false, err: a.err || b.err }
            }
            2 => {
                let a = if self.u.ratio(1, 2) { self.stream(inp, dd) } else { self.expr(inp, dd) };
                self.op("collect");
                let s = if a.one { Shape::Arr(vec![a.s.clone()]) } else { Shape::ArrOf(Box::new(a.s.clone())) };
                E { t: format!("[{}]", a.t), s, one: true, err: a.err }
            }
            3 => self.obj_construct(inp, d),
            4 => {
                let c = self.cond(inp, dd);
                let a = self.expr(inp, dd);
                let b = self.expr(inp, dd);
                self.op("if");
                if self.u.ratio(1, 5) {
                    let c2 = self.cond(inp, dd);
                    let m = self.expr(inp, 0);
                    self.op("elif");
                    return E { t: format!("(if {} then {} elif {} then {} else {} end)", c.t, a.t, c2.t, m.t, b.t), s: a.s.join(&b.s).join(&m.s), one: c.one && c2.one && a.one && b.one && m.one, err: c.err || c2.err || a.err || b.err || m.err };
                }
                E { t: format!("(if {} then {} else {} end)", c.t, a.t, b.t), s: a.s.join(&b.s), one: c.one && a.one && b.one, err: c.err || a.err || b.err }
            }
            5 => self.arith(inp, d),
            6 => self.cond(inp, d),
            7 => {
                let a = self.expr(inp, dd);
                let b = self.expr(inp, dd);
                self.op("alternative");
                E { t: format!("({} // {})", paren(&a.t), paren(&b.t)), s: a.s.join(&b.s), one: false, err: a.err || b.err }
            }
            8 => {
                // try / ?
                let body = if self.u.ratio(1, 2) {
                    match self.type_error(inp) {
                        Some(e) => e,
                        None => self.expr(inp, dd),
                    }
                } else {
                    self.expr(inp, dd)
                };
                self.op("try");
                match self.u.weighted(&[3, 2, 2, 2]) {
                    0 => {
                        self.catch_dot = true;
                        E { t: format!("([try {} catch .] | .[])", paren(&body.t)), s: Shape::Any, one: false, err: false }
                    }
                    1 => E { t: format!("([try {} catch \"caught\"] | .[])", paren(&body.t)), s: Shape::Any, one: false, err: false },
                    2 => E { // collected: jq 1.6's `?`/try also swallows errors and breaks raised downstream of its outputs
                        t: format!("([({})?] | .[])", body.t), s: body.s, one: false, err: false },
                    _ => E { t: format!("([try {} catch type] | .[])", paren(&body.t)), s: Shape::Any, one: false, err: false },
                }
            }
            9 => self.binding(inp, d),
            10 => self.fold(inp, d),
            11 => {
                let c = self.cond(inp, dd);
                self.op("select");
                E { t: format!("select({})", c.t), s: inp.clone(), one: false, err: c.err }
            }
            12 => {
                let a = self.stream(inp, dd);
                match self.u.below(4) {
                    0 => {
                        self.op("first");
                        E { t: format!("first({})", a.t), s: a.s, one: false, err: a.err }
                    }
                    1 => {
                        self.op("limit");
                        E { t: format!("limit({}; {})", self.u.range(1, 4), a.t), s: a.s, one: false, err: a.err }
                    }
                    2 => {
                        self.op("last");
                        E { // never an empty stream: open finding last-of-empty-stream (1.7.1: null, succinctly: nothing)
                            t: format!("last(0, {})", a.t), s: Shape::Any, one: true, err: a.err }
                    }
                    _ => {
                        self.op("limit");
                        self.op("collect");
                        E { t: format!("[limit({}; {})]", self.u.range(1, 4), a.t), s: Shape::ArrOf(Box::new(a.s)), one: true, err: a.err }
                    }
                }
            }
            13 => {
                // builtin on the input, or on a sub-expression
                if self.u.ratio(1, 2) {
                    if let Some(e) = self.builtin(inp, d) {
                        return e;
                    }
                }
                let a = self.expr(inp, dd);
                match self.builtin(&a.s, dd) {
                    Some(b) => {
                        self.op("pipe");
                        E { t: format!("({} | {})", a.t, b.t), s: b.s, one: a.one && b.one, err: a.err || b.err }
                    }
                    None => a,
                }
            }
            14 => match self.type_error(inp) {
                Some(e) => e,
                None => self.expr(inp, dd),
            },
            15 => match self.assignment(inp, d) {
                Some(e) => e,
                None => self.expr(inp, dd),
            },
            16 => self.def(inp, d),
            17 => {
                // string interpolation (single-output parts)
                let a = self.expr(inp, dd);
                if !a.one {
                    return a;
                }
                self.op("interpolation");
                let f = if self.u.ratio(1, 20) { *self.u.pick(&["@json ", "@text ", "@base64 "]) } else { "" };
                if !f.is_empty() {
                    self.op("format-interp");
                }
                // @html/@base64 interpolation stringifies its argument; keep it a string
                let arg = if f == "@html " || f == "@base64 " { format!("({} | tostring)", a.t) } else { a.t.clone() };
                E { t: format!("{}\"x\\({})y\"", f, arg), s: Shape::Str, one: true, err: a.err }
            }
            18 => {
                self.op("error");
                let p = match self.u.below(3) {
                    0 => "error(\"boom\")".to_string(),
                    1 => "error({code: 1})".to_string(),
                    _ => "(\"msg\" | error)".to_string(),
                };
                E { t: p, s: Shape::Any, one: false, err: true }
            }
            19 => {
                self.fresh += 1;
                let l = format!("$l{}", self.fresh);
                let a = self.stream(inp, dd);
                self.op("label");
                match self.u.below(2) {
                    0 => E { t: format!("(label {} | ({}, break {}, 99))", l, a.t, l), s: a.s, one: false, err: a.err },
                    _ => {
                        let c = self.cond(&a.s, 0);
                        E { t: format!("[label {} | {} | if {} then break {} else . end]", l, a.t, c.t, l), s: Shape::ArrOf(Box::new(a.s)), one: true, err: a.err || c.err }
                    }
                }
            }
            20 => {
                self.op("empty");
                E { t: "empty".into(), s: Shape::Any, one: false, err: false }
            }
            22 => {
                // postfix directly on a constructed term (jq grammar: Term '[' Exp ']', Term FIELD …)
                let a = self.expr(inp, dd);
                self.op("postfix-term");
                match self.u.below(5) {
                    0 => E { t: format!("[{}][0]", a.t), s: Shape::Any, one: true, err: a.err },
                    1 => E { t: format!("[{}][]", a.t), s: a.s, one: false, err: a.err },
                    2 => E { t: format!("{{a: {}}}.a", paren(&a.t)), s: a.s, one: a.one, err: a.err },
                    3 => E { t: format!("[{}][1:]", a.t), s: Shape::ArrOf(Box::new(a.s)), one: true, err: a.err },
                    _ => e1("\"abc\"[1:]", Shape::Str),
                }
            }
            _ => {
                let p = self.path(inp, 3, false);
                if self.u.ratio(1, 4) && p.t != "." {
                    self.op("optional");
                    return E { t: format!("([{}?] | .[])", p.t), s: p.s, one: false, err: false };
                }
                p
            }
        }
    }
}

/// Is `t` a single bracketed term `( … )`, `[ … ]` or `{ … }` (the first bracket closes at
/// the very end)? String literals and their `\( … )` interpolations are scanned properly.
fn single_bracketed(t: &str) -> bool {
    let b = t.as_bytes();
    if b.is_empty() || !matches!(b[0], b'(' | b'[' | b'{') {
        return false;
    }
    // mode stack: true = inside a string literal, false = code; each code frame has a depth
    let mut stack: Vec<(bool, i32)> = vec![(false, 0)];
    let mut i = 0;
    while i < b.len() {
        let c = b[i];
        let top = stack.len() - 1;
        if stack[top].0 {
            if c == b'\\' && i + 1 < b.len() {
                if b[i + 1] == b'(' {
                    stack.push((false, 1));
                }
                i += 2;
                continue;
            }
            if c == b'"' {
                stack.pop();
            }
        } else {
            match c {
                b'"' => stack.push((true, 0)),
                b'(' | b'[' | b'{' => stack[top].1 += 1,
                b')' | b']' | b'}' => {
                    stack[top].1 -= 1;
                    if stack[top].1 == 0 {
                        if top == 0 {
                            return i + 1 == b.len();
                        }
                        stack.pop(); // end of an interpolation
                    }
                }
                _ => {}
            }
        }
        i += 1;
    }
    false
}

fn paren(t: &str) -> String {
    let atomic = !t.is_empty() && t.chars().all(|c| c.is_ascii_alphanumeric() || c == '_' || c == '.' || c == '$');
    if atomic || single_bracketed(t) {
        t.to_string()
    } else {
        format!("({})", t)
    }
}

pub struct Program {
    pub text: String,
    pub ops: Vec<String>,
    pub nodes: usize,
    pub catch_dot: bool,
    pub deliberate: usize,
    pub may_err: bool,
}

/// One program for documents of shape `shape`.
pub fn gen_program(u: &mut Src, shape: &Shape) -> Program {
    let depth = u.weighted(&[1, 4, 6, 4]) as u32 + 1;
    let mut g = Gen::new(u);
    let e = g.expr(shape, depth);
    let mut text = e.t.clone();
    // top level: sometimes drop the outer parentheses of a pipe/comma so that the
    // unparenthesised grammar is exercised too
    if text.starts_with('(') && single_bracketed(&text) && g.u.ratio(1, 2) && !text.contains(" as ") && !text.contains(" = ") && !text.contains("= ") && !text.contains("//") {
        text = text[1..text.len() - 1].to_string();
    }
    Program { text, ops: g.ops.iter().map(|s| s.to_string()).collect(), nodes: g.nodes, catch_dot: g.catch_dot, deliberate: g.deliberate, may_err: e.err }
}
