//! G-bits: word vectors with density classes (DESIGN §3).
use crate::engine::Src;

pub const LEN_BOUNDARIES: &[usize] = &[0, 1, 7, 8, 9, 63, 64, 65, 127, 128, 129, 511, 512, 513, 1023, 1024, 1025];

#[derive(Clone, Copy, Debug, PartialEq)]
pub enum Density {
    Zero,
    One,
    Single,
    Sparse,
    Bursty,
    Thinned,
    Dense,
    Periodic,
    Mixed,
}

pub fn density(u: &mut Src) -> Density {
    *u.pick(&[
        Density::Dense,
        Density::Sparse,
        Density::Bursty,
        Density::Thinned,
        Density::Periodic,
        Density::Mixed,
        Density::Mixed,
        Density::Zero,
        Density::One,
        Density::Single,
    ])
}

fn fill_region(u: &mut Src, w: &mut [u64], d: Density) {
    let n = w.len();
    if n == 0 {
        return;
    }
    match d {
        Density::Zero => {}
        Density::One => w.iter_mut().for_each(|x| *x = u64::MAX),
        Density::Single => {
            let i = u.below(n);
            w[i] = 1u64 << u.below(64);
        }
        Density::Sparse => {
            // one bit every 1..64 words: select scans skip whole 8-word blocks
            let mut i = u.below(n.min(64));
            while i < n {
                w[i] = 1u64 << u.below(64);
                i += u.range(1, 64);
            }
        }
        Density::Bursty => {
            let mut i = 0usize;
            while i < n {
                let burst = u.range(1, 6);
                for _ in 0..burst {
                    if i < n {
                        w[i] = u.u64();
                        i += 1;
                    }
                }
                i += u.range(8, 300);
            }
        }
        Density::Thinned => {
            for x in w.iter_mut() {
                *x = u.u64() & u.u64() & u.u64();
            }
        }
        Density::Dense => {
            for x in w.iter_mut() {
                *x = u.u64();
            }
        }
        Density::Periodic => {
            let p = u.u64();
            let rot = u.below(8) as u32;
            for (i, x) in w.iter_mut().enumerate() {
                *x = p.rotate_left(rot * i as u32);
            }
        }
        Density::Mixed => unreachable!(),
    }
}

/// `n` words of the given density class (Mixed = regions of different classes).
pub fn words_of(u: &mut Src, n: usize, d: Density) -> Vec<u64> {
    let mut w = vec![0u64; n];
    if d == Density::Mixed {
        let mut i = 0;
        while i < n {
            let l = u.range(1, (n - i).min(200));
            let mut dd = density(u);
            if dd == Density::Mixed {
                dd = Density::Dense;
            }
            fill_region(u, &mut w[i..i + l], dd);
            i += l;
        }
    } else {
        fill_region(u, &mut w, d);
    }
    w
}

/// (words, density) with a word count biased to block boundaries.
pub fn words(u: &mut Src, max_words: usize) -> (Vec<u64>, Density) {
    let n = u.len_biased(max_words, &[1, 2, 7, 8, 9, 15, 16, 17, 64, 128, 512]);
    let d = density(u);
    (words_of(u, n, d), d)
}

/// A bit length for `nwords` words: boundaries, full, or far below capacity.
pub fn bit_len(u: &mut Src, nwords: usize) -> usize {
    let cap = nwords * 64;
    if cap == 0 {
        return 0;
    }
    match u.below(8) {
        0 => cap,
        1 => cap - u.below(cap.min(64) + 1).min(cap),
        2 => u.len_biased(cap, LEN_BOUNDARIES),
        3 => {
            // surplus words: len far below capacity
            u.range(0, cap / 4)
        }
        4 => (u.range(0, nwords) * 64).min(cap),
        _ => u.range(0, cap),
    }
}

/// Reference model: positions of the 1-bits among the first `len` bits.
pub fn ones_positions(words: &[u64], len: usize) -> Vec<usize> {
    let mut v = Vec::new();
    for i in 0..len {
        if (words[i / 64] >> (i % 64)) & 1 == 1 {
            v.push(i);
        }
    }
    v
}

pub fn bit(words: &[u64], i: usize) -> bool {
    (words[i / 64] >> (i % 64)) & 1 == 1
}
