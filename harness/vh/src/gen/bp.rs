//! G-bp: parenthesis bit sequences (1 = open, 0 = close), balanced and not,
//! plus the linear-time reference tables used by C04 (DESIGN §4 C04).
//!
//! Big sequences are expanded from little entropy: every segment draws a few
//! parameters (kind, length, salt, bias) and its bits are a fixed function of
//! those parameters (`mix64(salt ^ i)`), so a 300 000-bit vector costs a few
//! dozen entropy bytes and shrinks by dropping/zeroing segments.
use crate::engine::{mix64, Src};

#[derive(Clone, Debug, Default)]
pub struct BitBuf {
    pub words: Vec<u64>,
    pub len: usize,
}

impl BitBuf {
    pub fn push(&mut self, b: bool) {
        if self.len % 64 == 0 {
            self.words.push(0);
        }
        if b {
            *self.words.last_mut().unwrap() |= 1u64 << (self.len % 64);
        }
        self.len += 1;
    }
    pub fn push_run(&mut self, b: bool, n: usize) {
        for _ in 0..n {
            self.push(b);
        }
    }
    pub fn get(&self, i: usize) -> bool {
        (self.words[i / 64] >> (i % 64)) & 1 == 1
    }
    /// keep the first `n` bits (storage stays exactly ceil(n/64) words, tail cleared)
    pub fn truncate(&mut self, n: usize) {
        if n >= self.len {
            return;
        }
        self.len = n;
        self.words.truncate(n.div_ceil(64));
        if n % 64 != 0 {
            let l = self.words.len();
            self.words[l - 1] &= (1u64 << (n % 64)) - 1;
        }
    }
}

#[derive(Clone, Copy, Debug, PartialEq)]
pub enum Shape {
    Empty,
    BalancedWalk,
    Deep,
    WideFlat,
    Comb,
    MonotoneRuns,
    RawRandom,
    NegativePrefix,
    OpenTail,
    AllOpen,
    AllClose,
    Mixture,
}

/// balanced random walk with `pairs` pairs; `p256` = open probability (x/256)
/// while both moves are possible
fn seg_balanced(b: &mut BitBuf, pairs: usize, salt: u64, p256: u64) {
    let mut opens_left = pairs;
    let mut excess = 0usize;
    let mut i = 0u64;
    while opens_left > 0 || excess > 0 {
        let open = if excess == 0 {
            true
        } else if opens_left == 0 {
            false
        } else {
            mix64(salt ^ i) % 256 < p256
        };
        i += 1;
        if open {
            b.push(true);
            opens_left -= 1;
            excess += 1;
        } else {
            b.push(false);
            excess -= 1;
        }
    }
}

/// `depth` opens (with a small balanced subtree hung every `every` levels when
/// every > 0) then the matching closes
fn seg_deep(b: &mut BitBuf, depth: usize, every: usize, salt: u64) {
    for d in 0..depth {
        b.push(true);
        if every > 0 && d % every == every - 1 {
            seg_balanced(b, 1 + (mix64(salt ^ d as u64) % 4) as usize, salt ^ d as u64, 128);
        }
    }
    for d in 0..depth {
        b.push(false);
        if every > 0 && d % (every + 3) == 0 {
            b.push(true);
            b.push(false);
        }
    }
}

fn seg_flat(b: &mut BitBuf, n: usize, wrap: bool) {
    if wrap {
        b.push(true);
    }
    for _ in 0..n {
        b.push(true);
        b.push(false);
    }
    if wrap {
        b.push(false);
    }
}

/// "((()()()...)" style: a spine whose every level has `k` leaf children
fn seg_comb(b: &mut BitBuf, levels: usize, k: usize) {
    for _ in 0..levels {
        b.push(true);
        for _ in 0..k {
            b.push(true);
            b.push(false);
        }
    }
    b.push_run(false, levels);
}

fn seg_runs(b: &mut BitBuf, n: usize, salt: u64, max_run: usize) {
    let mut open = salt & 1 == 1;
    let mut i = 0u64;
    let end = b.len + n;
    while b.len < end {
        let l = (1 + (mix64(salt ^ i) as usize) % max_run.max(1)).min(end - b.len);
        b.push_run(open, l);
        open = !open;
        i += 1;
    }
}

fn seg_raw(b: &mut BitBuf, n: usize, salt: u64, p256: u64) {
    for i in 0..n as u64 {
        b.push(mix64(salt ^ i) % 256 < p256);
    }
}

fn one_segment(u: &mut Src, b: &mut BitBuf, budget: usize, fill: bool) -> Shape {
    let budget = budget.max(2);
    // `fill`: large sequences must actually use their budget
    let lo = |d: usize| if fill { (budget / d).max(1) * 3 / 4 } else { 1 }.max(1);
    let salt = u.u64();
    match u.weighted(&[6, 3, 2, 2, 3, 3, 2, 2, 1, 1]) {
        0 => {
            let pairs = u.range(lo(2), budget / 2);
            let p = *u.pick(&[128u64, 128, 100, 150, 180, 60]);
            seg_balanced(b, pairs, salt, p);
            Shape::BalancedWalk
        }
        1 => {
            let depth = u.range(lo(2), budget / 2);
            let every = *u.pick(&[0usize, 0, 7, 64, 500]);
            seg_deep(b, depth, every, salt);
            Shape::Deep
        }
        2 => {
            seg_flat(b, u.range(lo(2), budget / 2), u.bool());
            Shape::WideFlat
        }
        3 => {
            let k = u.range(1, 40);
            let levels = u.range(lo(2 * k + 2), (budget / (2 * k + 2)).max(1));
            seg_comb(b, levels, k);
            Shape::Comb
        }
        4 => {
            seg_runs(b, u.range(lo(1), budget), salt, *u.pick(&[3usize, 40, 70, 700, 5000]));
            Shape::MonotoneRuns
        }
        5 => {
            seg_raw(b, u.range(lo(1), budget), salt, *u.pick(&[128u64, 128, 110, 146, 30, 226]));
            Shape::RawRandom
        }
        6 => {
            b.push_run(false, u.range(1, (budget / 4).max(1)));
            seg_balanced(b, u.range(1, (budget / 4).max(1)), salt, 128);
            Shape::NegativePrefix
        }
        7 => {
            seg_balanced(b, u.range(1, (budget / 4).max(1)), salt, 128);
            b.push_run(true, u.range(1, (budget / 4).max(1)));
            Shape::OpenTail
        }
        8 => {
            b.push_run(true, u.range(lo(1), budget));
            Shape::AllOpen
        }
        _ => {
            b.push_run(false, u.range(lo(1), budget));
            Shape::AllClose
        }
    }
}

/// A parenthesis sequence of at most `max_bits` bits (exact storage, no strays).
pub fn sequence(u: &mut Src, max_bits: usize) -> (BitBuf, Shape) {
    sequence_in(u, 1, max_bits)
}

/// As `sequence`, with the length aimed at `min_bits..=max_bits` (the result can
/// still be a little shorter than `min_bits` when a segment builder undershoots).
pub fn sequence_in(u: &mut Src, min_bits: usize, max_bits: usize) -> (BitBuf, Shape) {
    let mut b = BitBuf::default();
    let small = min_bits <= 1;
    if max_bits == 0 || (small && u.ratio(1, 60)) {
        return (b, Shape::Empty);
    }
    let target = match u.below(8) {
        0 if small => u.range(1, max_bits.min(70)),
        1 if small => u.range(1, max_bits.min(700)),
        2 => {
            // around a word / 512-bit / 2048-bit (L1) / 65536-bit (L2) boundary
            let base = if small {
                *u.pick(&[64usize, 128, 512, 1024, 2048, 4096, 65536, 131072])
            } else {
                65536 * u.range(min_bits.div_ceil(65536), (max_bits / 65536).max(1))
            };
            let d = u.below(7) as isize - 3;
            ((base as isize + d).max(1) as usize).min(max_bits)
        }
        _ => u.range(min_bits, max_bits),
    };
    let nseg = match u.below(4) {
        0 | 1 => 1,
        2 => 2,
        _ => u.range(2, 6),
    };
    let wrap = u.ratio(1, 3); // an enclosing pair spanning everything
    if wrap {
        b.push(true);
    }
    let mut shape = Shape::Mixture;
    for s in 0..nseg {
        if b.len >= target {
            break;
        }
        let budget = (target - b.len) / (nseg - s);
        let sh = one_segment(u, &mut b, budget, !small);
        if nseg == 1 {
            shape = sh;
        }
    }
    if wrap {
        b.push(false);
    }
    // the segment builders may overshoot slightly; cutting makes unmatched opens, which is fine
    if b.len > max_bits {
        b.truncate(max_bits);
    }
    match u.below(6) {
        0 => {
            let n = u.range(min_bits.min(b.len), b.len.max(1));
            b.truncate(n);
        }
        1 => {
            let n = b.len.saturating_sub(u.range(1, 3)).max(1);
            b.truncate(n);
        }
        _ => {}
    }
    (b, shape)
}

/// A nest of `depth` levels (depth drawn in lo..=hi), optionally with subtrees
/// hung off the spine and material before/after it.
pub fn deep_sequence(u: &mut Src, lo: usize, hi: usize) -> (BitBuf, Shape) {
    let mut b = BitBuf::default();
    let salt = u.u64();
    if u.bool() {
        let n = u.range(0, 3000);
        seg_raw(&mut b, n, salt ^ 0x55, 128);
    }
    let depth = u.range(lo, hi);
    let every = *u.pick(&[0usize, 0, 64, 500, 5000]);
    seg_deep(&mut b, depth, every, salt);
    if u.bool() {
        let pairs = u.range(1, 2000);
        seg_balanced(&mut b, pairs, salt ^ 0xAA, 128);
    }
    if u.ratio(1, 4) {
        let n = u.range(b.len / 2, b.len);
        b.truncate(n.max(1));
    }
    (b, Shape::Deep)
}

// ------------------------------------------------------------------ reference tables

pub const NONE: u32 = u32::MAX;

/// Linear-time reference answers for a bit sequence, from one left-to-right
/// pass with an explicit stack of unmatched opens. For unbalanced input a close
/// met with an empty stack is unmatched; opens left on the stack are unmatched.
/// (Equivalent to the excess-scan definitions; C04 cross-checks that on sampled
/// positions with literal scans.)
pub struct Tables {
    pub len: usize,
    /// for an open: its matching close; for a close: its matching open; NONE if unmatched
    pub mate: Vec<u32>,
    /// for an open: the nearest enclosing open (top of the stack when it was pushed)
    pub parent: Vec<u32>,
    /// ones[i] = number of 1-bits in [0, i)
    pub ones: Vec<u32>,
    pub pos1: Vec<u32>,
    pub pos0: Vec<u32>,
    pub max_depth: i64,
    pub min_excess: i64,
    pub pair_spans_word: bool,
    pub pair_spans_l1: bool,
    pub pair_spans_l2: bool,
    /// opens whose pair (or unmatched tail) spans a 2048-bit boundary: innermost and outermost at each boundary
    pub spanning: Vec<u32>,
}

pub fn tables(words: &[u64], len: usize) -> Tables {
    let bit = |i: usize| (words[i / 64] >> (i % 64)) & 1 == 1;
    let mut mate = vec![NONE; len];
    let mut parent = vec![NONE; len];
    let mut ones = Vec::with_capacity(len + 1);
    let mut pos1 = Vec::new();
    let mut pos0 = Vec::new();
    let mut stack: Vec<u32> = Vec::new();
    let mut spanning = Vec::new();
    let mut acc = 0u32;
    let mut e: i64 = 0;
    let (mut max_depth, mut min_excess) = (0i64, 0i64);
    let (mut sw, mut s1, mut s2) = (false, false, false);
    ones.push(0);
    for i in 0..len {
        if i % 2048 == 0 && i > 0 {
            if let (Some(&top), Some(&bot)) = (stack.last(), stack.first()) {
                spanning.push(top);
                spanning.push(bot);
            }
        }
        if bit(i) {
            parent[i] = stack.last().copied().unwrap_or(NONE);
            stack.push(i as u32);
            pos1.push(i as u32);
            acc += 1;
            e += 1;
        } else {
            if let Some(o) = stack.pop() {
                mate[i] = o;
                mate[o as usize] = i as u32;
                let o = o as usize;
                sw |= o / 64 != i / 64;
                s1 |= o / 2048 != i / 2048;
                s2 |= o / 65536 != i / 65536;
            }
            pos0.push(i as u32);
            e -= 1;
        }
        max_depth = max_depth.max(e);
        min_excess = min_excess.min(e);
        ones.push(acc);
    }
    spanning.sort_unstable();
    spanning.dedup();
    Tables { len, mate, parent, ones, pos1, pos0, max_depth, min_excess, pair_spans_word: sw, pair_spans_l1: s1, pair_spans_l2: s2, spanning }
}

// literal scan definitions (used to cross-check the tables on sampled positions)

pub fn scan_find_close(words: &[u64], len: usize, p: usize) -> Option<usize> {
    let bit = |i: usize| (words[i / 64] >> (i % 64)) & 1 == 1;
    if p >= len || !bit(p) {
        return None;
    }
    let mut e: i64 = 1;
    for q in p + 1..len {
        if bit(q) {
            e += 1;
        } else {
            e -= 1;
            if e == 0 {
                return Some(q);
            }
        }
    }
    None
}

pub fn scan_find_open(words: &[u64], len: usize, p: usize) -> Option<usize> {
    let bit = |i: usize| (words[i / 64] >> (i % 64)) & 1 == 1;
    if p >= len || bit(p) {
        return None;
    }
    let mut e: i64 = -1;
    for q in (0..p).rev() {
        if bit(q) {
            e += 1;
            if e == 0 {
                return Some(q);
            }
        } else {
            e -= 1;
        }
    }
    None
}

pub fn scan_enclose(words: &[u64], len: usize, p: usize) -> Option<usize> {
    let bit = |i: usize| (words[i / 64] >> (i % 64)) & 1 == 1;
    if p >= len || !bit(p) {
        return None;
    }
    let mut e: i64 = 0;
    for q in (0..p).rev() {
        if bit(q) {
            e += 1;
            if e == 1 {
                return Some(q);
            }
        } else {
            e -= 1;
        }
    }
    None
}
