#!/usr/bin/env python3
"""Development-time cross-check of the G-yaml generator (gen/yaml.rs) against PyYAML.

Usage:
    VH_YAML_DUMP=/tmp/ydump VH_YAML_DUMP_N=20000 VERIF_ONLY=generator-selfcheck \
        VERIF_ROOT=$W $W/target/default/release/vh run C14 quick
    python3 yaml_selfcheck.py /tmp/ydump

Every <i>.yaml is loaded twice:
  * yaml.BaseLoader  - all scalars stay strings: structure, key order, string content, and
    the *spelling* of non-string scalars are compared with the typed model <i>.json;
  * yaml.SafeLoader  - YAML 1.1 typing: model strings must load as str, ints as int,
    bools as bool, nulls as None. (1.1 types a superset of what the 1.2 core schema types;
    the generator quotes everything that any version would resolve to a non-string, so the
    two must agree on generated text.)
PyYAML is a YAML 1.1 implementation; what it cannot check is switched off by
YOpts::py_compat() (NEL/LS/PS raw, tabs as separation, tabs inside plain scalars).
"""
import json, os, re, sys, collections
import yaml

NULLS = {"", "~", "null", "Null", "NULL"}
TRUES = {"true", "True", "TRUE"}
FALSES = {"false", "False", "FALSE"}
INT = re.compile(r"^[-+]?(0|[1-9][0-9]*)$")


def cmp_base(m, v, path):
    (t, x), = m.items()
    if t == "null":
        return None if isinstance(v, str) and v in NULLS else f"{path}: null vs {v!r}"
    if t == "bool":
        ok = isinstance(v, str) and v in (TRUES if x else FALSES)
        return None if ok else f"{path}: bool {x} vs {v!r}"
    if t == "int":
        ok = isinstance(v, str) and INT.match(v) and int(v) == int(x)
        return None if ok else f"{path}: int {x} vs {v!r}"
    if t == "str":
        return None if isinstance(v, str) and v == x else f"{path}: str {x!r} vs {v!r}"
    if t == "seq":
        if not isinstance(v, list) or len(v) != len(x):
            return f"{path}: seq len {len(x)} vs {v!r}"
        for i, (a, b) in enumerate(zip(x, v)):
            r = cmp_base(a, b, f"{path}[{i}]")
            if r:
                return r
        return None
    if t == "map":
        if not isinstance(v, dict):
            return f"{path}: map vs {v!r}"
        ks = [e[0] for e in x]
        if list(v.keys()) != ks:
            return f"{path}: keys {ks!r} vs {list(v.keys())!r}"
        for k, a in x:
            r = cmp_base(a, v[k], f"{path}.{k!r}")
            if r:
                return r
        return None
    return f"{path}: bad model {m!r}"


def cmp_safe(m, v, path):
    (t, x), = m.items()
    if t == "null":
        return None if v is None else f"{path}: null vs {v!r}"
    if t == "bool":
        return None if isinstance(v, bool) and v == x else f"{path}: bool {x} vs {v!r}"
    if t == "int":
        return None if type(v) is int and v == int(x) else f"{path}: int {x} vs {v!r}"
    if t == "str":
        return None if type(v) is str and v == x else f"{path}: str {x!r} vs {v!r} ({type(v).__name__})"
    if t == "seq":
        if not isinstance(v, list) or len(v) != len(x):
            return f"{path}: seq len {len(x)} vs {v!r}"
        for i, (a, b) in enumerate(zip(x, v)):
            r = cmp_safe(a, b, f"{path}[{i}]")
            if r:
                return r
        return None
    if t == "map":
        if not isinstance(v, dict):
            return f"{path}: map vs {v!r}"
        ks = [e[0] for e in x]
        if list(v.keys()) != ks:
            return f"{path}: keys {ks!r} vs {list(v.keys())!r}"
        for k, a in x:
            r = cmp_safe(a, v[k], f"{path}.{k!r}")
            if r:
                return r
        return None
    return f"{path}: bad model {m!r}"


def main(d):
    n = 0
    bad = 0
    feats = collections.Counter()
    kinds = collections.Counter()
    i = 0
    while os.path.exists(f"{d}/{i}.yaml"):
        text = open(f"{d}/{i}.yaml", "rb").read().decode("utf-8")
        model = json.load(open(f"{d}/{i}.json"))
        docs = model["docs"]
        for f in model["stats"]:
            feats[f] += 1
        feats["break-" + model["break"]] += 1
        n += 1
        for name, loader, cmp in (("base", yaml.BaseLoader, cmp_base), ("safe", yaml.SafeLoader, cmp_safe)):
            try:
                got = list(yaml.load_all(text, Loader=loader))
            except Exception as e:  # noqa
                msg = str(e).split("\n")[0]
                bad += 1
                kinds[f"{name}: exception {type(e).__name__}: {msg[:60]}"] += 1
                if bad <= 40:
                    print(f"--- {i}.yaml [{name}] EXC {e}\n{text!r}\n")
                break
            err = None
            if len(got) != len(docs):
                err = f"doc count {len(docs)} vs {len(got)}"
            else:
                for k, (m, v) in enumerate(zip(docs, got)):
                    err = cmp(m, v, f"doc{k}")
                    if err:
                        break
            if err:
                bad += 1
                kinds[f"{name}: mismatch"] += 1
                if bad <= 40:
                    print(f"--- {i}.yaml [{name}] {err}\n{text!r}\n")
                break
        i += 1
    print(f"streams={n} disagreements={bad}")
    for k, v in kinds.most_common():
        print(f"  {v:6d} {k}")
    print("features seen (streams):")
    for k, v in sorted(feats.items()):
        print(f"  {k:24s} {v}")
    return 1 if bad else 0


if __name__ == "__main__":
    sys.exit(main(sys.argv[1]))
