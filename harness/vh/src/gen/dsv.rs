//! G-dsv: DSV texts rich in the three special bytes, configurations with distinct
//! special bytes, and the harness splitter model (DESIGN §4 C20 / C21).
use crate::engine::Src;

#[derive(Clone, Copy, Debug, PartialEq, Eq)]
pub struct Cfg {
    pub delimiter: u8,
    pub quote: u8,
    pub newline: u8,
}

pub const POOL: &[u8] = &[b',', b';', b'|', b'\t', b' ', b'"', b'\'', b'\\', b'\n', b'\r', 0x00, b'a', 0x80, 0xFF];

/// Number of ordered triples of distinct pool bytes.
pub fn pool_triples() -> usize {
    POOL.len() * (POOL.len() - 1) * (POOL.len() - 2)
}

/// The k-th ordered triple of distinct pool bytes (k < pool_triples()).
pub fn pool_triple(k: usize) -> Cfg {
    let n = POOL.len();
    let a = k / ((n - 1) * (n - 2));
    let r = k % ((n - 1) * (n - 2));
    let mut b = r / (n - 2);
    let mut c = r % (n - 2);
    if b >= a {
        b += 1;
    }
    // c indexes the pool without a and b
    let (lo, hi) = if a < b { (a, b) } else { (b, a) };
    if c >= lo {
        c += 1;
    }
    if c >= hi {
        c += 1;
    }
    Cfg { delimiter: POOL[a], quote: POOL[b], newline: POOL[c] }
}

pub fn cfg(u: &mut Src) -> (Cfg, &'static str) {
    match u.weighted(&[3, 5, 2]) {
        0 => {
            let d = *u.pick(&[b',', b'\t', b'|', b';']);
            (Cfg { delimiter: d, quote: b'"', newline: b'\n' }, "cfg-standard")
        }
        1 => (pool_triple(u.below(pool_triples())), "cfg-pool-triple"),
        _ => {
            let d = u.byte();
            let mut q = u.byte();
            while q == d {
                q = q.wrapping_add(1);
            }
            let mut n = u.byte();
            while n == d || n == q {
                n = n.wrapping_add(1);
            }
            (Cfg { delimiter: d, quote: q, newline: n }, "cfg-random-triple")
        }
    }
}

#[derive(Clone, Copy, Debug, PartialEq, Eq)]
pub enum TextKind {
    Structured,
    Soup,
    QuoteHeavy,
    LongQuoted,
    Sparse,
    Empty,
}

fn ordinary(u: &mut Src, c: Cfg) -> u8 {
    // a byte that is none of the three specials
    let mut b = match u.below(4) {
        0 => *u.pick(&[b'a', b'b', b'x', b'1', b' ', b'\r', b'\n', b',', b'"', b'\'', b'\t', 0x00, 0x80, 0xff]),
        1 => u.byte(),
        _ => b'a' + u.below(26) as u8,
    };
    while b == c.delimiter || b == c.quote || b == c.newline {
        b = b.wrapping_add(1);
    }
    b
}

/// Push filler so that the next byte lands at offset ≡ `want` (mod 64).
fn align_to(u: &mut Src, v: &mut Vec<u8>, c: Cfg, want: usize, specials_inside: bool, max: usize) {
    let mut guard = 0;
    while v.len() % 64 != want && v.len() < max && guard < 64 {
        let b = if specials_inside && u.ratio(1, 5) { *u.pick(&[c.delimiter, c.newline]) } else { ordinary(u, c) };
        v.push(b);
        guard += 1;
    }
}

pub fn text(u: &mut Src, c: Cfg, max: usize) -> (Vec<u8>, TextKind) {
    let kind = [TextKind::Structured, TextKind::Soup, TextKind::QuoteHeavy, TextKind::LongQuoted, TextKind::Sparse, TextKind::Empty]
        [u.weighted(&[8, 5, 3, 5, 2, 1])];
    let mut v: Vec<u8> = Vec::new();
    match kind {
        TextKind::Empty => {
            // empty or a single special byte
            if u.bool() {
                v.push(*u.pick(&[c.delimiter, c.quote, c.newline, b'a']));
            }
        }
        TextKind::Structured => {
            let rows = u.len_biased(40, &[1, 2, 3]);
            let last_has_newline = u.ratio(2, 3);
            for r in 0..rows {
                let fields = match u.below(6) {
                    0 => 1,
                    1 | 2 => u.range(1, 4),
                    _ => u.range(1, 12),
                };
                for f in 0..fields {
                    if f > 0 {
                        v.push(c.delimiter);
                    }
                    match u.below(10) {
                        0 | 1 | 2 => {} // empty field
                        3 | 4 | 5 => {
                            for _ in 0..u.range(1, 8) {
                                v.push(ordinary(u, c));
                            }
                        }
                        6 | 7 | 8 => {
                            // quoted field with embedded delimiters / separators / doubled quotes
                            v.push(c.quote);
                            let n = if u.ratio(1, 6) { u.range(60, 200) } else { u.range(0, 10) };
                            for _ in 0..n {
                                match u.below(8) {
                                    0 | 1 => v.push(c.delimiter),
                                    2 => v.push(c.newline),
                                    3 => {
                                        v.push(c.quote);
                                        v.push(c.quote);
                                    }
                                    _ => v.push(ordinary(u, c)),
                                }
                            }
                            v.push(c.quote);
                        }
                        _ => {
                            // quote in the middle of a field: a"b,c"d
                            v.push(ordinary(u, c));
                            v.push(c.quote);
                            for _ in 0..u.range(0, 5) {
                                let b = if u.bool() { c.delimiter } else { ordinary(u, c) };
                                v.push(b);
                            }
                            v.push(c.quote);
                            v.push(ordinary(u, c));
                        }
                    }
                    if v.len() >= max {
                        break;
                    }
                }
                if r + 1 < rows || last_has_newline {
                    v.push(c.newline);
                }
                if v.len() >= max {
                    break;
                }
            }
            // tail variants: trailing delimiter at EOF, dangling open quote, extra blank rows
            match u.below(12) {
                0 => v.push(c.delimiter),
                1 => {
                    v.push(c.quote);
                    for _ in 0..u.range(0, 6) {
                        let b = *u.pick(&[c.delimiter, c.newline, b'z']);
                        v.push(b);
                    }
                }
                2 => {
                    v.push(c.newline);
                    v.push(c.newline);
                }
                _ => {}
            }
        }
        TextKind::Soup => {
            let n = u.len_biased(max, &[63, 64, 65, 127, 128, 129]);
            let wd = 1 + u.below(6) as u32;
            let wq = u.below(4) as u32;
            let wn = 1 + u.below(4) as u32;
            for _ in 0..n {
                let b = match u.weighted(&[wd, wq, wn, 8]) {
                    0 => c.delimiter,
                    1 => c.quote,
                    2 => c.newline,
                    _ => ordinary(u, c),
                };
                v.push(b);
            }
        }
        TextKind::QuoteHeavy => {
            // runs of 1..5 quotes planted at offsets ≡ 63, 0, 1 (mod 64), specials everywhere
            let n = u.len_biased(max, &[63, 64, 65, 127, 128, 129, 191, 192, 193]);
            while v.len() < n {
                let want = *u.pick(&[63usize, 0, 1, 62, 31, 32]);
                align_to(u, &mut v, c, want, true, n);
                let run = 1 + u.below(5);
                for _ in 0..run {
                    v.push(c.quote);
                }
                for _ in 0..u.below(6) {
                    let b = *u.pick(&[c.delimiter, c.newline, b'q']);
                    v.push(b);
                }
            }
        }
        TextKind::LongQuoted => {
            // quoted regions of 64..400 bytes full of delimiters/separators, crossing chunk boundaries
            let n = u.len_biased(max, &[128, 129, 191, 192, 193, 256, 511, 512, 513]).max(70);
            while v.len() < n {
                for _ in 0..u.below(20) {
                    let b = match u.below(5) {
                        0 => c.delimiter,
                        1 => c.newline,
                        _ => ordinary(u, c),
                    };
                    v.push(b);
                }
                if u.ratio(1, 2) {
                    let want = *u.pick(&[63usize, 0, 1, 62, 2]);
                    align_to(u, &mut v, c, want, false, usize::MAX);
                }
                v.push(c.quote);
                let inner = u.range(64, 400);
                for _ in 0..inner {
                    let b = match u.below(6) {
                        0 | 1 => c.delimiter,
                        2 => c.newline,
                        _ => ordinary(u, c),
                    };
                    v.push(b);
                }
                if u.ratio(1, 3) {
                    let want = *u.pick(&[63usize, 0, 1]);
                    align_to(u, &mut v, c, want, true, usize::MAX);
                }
                if u.ratio(9, 10) {
                    v.push(c.quote);
                }
                if u.ratio(1, 4) {
                    // escaped quote pair right after the closing position
                    v.push(c.quote);
                    v.push(c.quote);
                }
                v.push(*u.pick(&[c.delimiter, c.newline]));
            }
        }
        TextKind::Sparse => {
            // long fields/rows: whole 64-byte words without any marker (issue #196 territory)
            let n = u.len_biased(max, &[128, 192, 256, 320]);
            while v.len() < n {
                let run = u.range(60, 200);
                let fill = ordinary(u, c);
                for _ in 0..run {
                    v.push(fill);
                }
                v.push(*u.pick(&[c.delimiter, c.newline, c.newline]));
            }
            if u.bool() {
                v.pop();
            }
        }
    }
    if v.len() > max && kind != TextKind::LongQuoted {
        v.truncate(max);
    }
    (v, kind)
}

// ------------------------------------------------------------------ model

#[derive(Clone, Debug, Default)]
pub struct Model {
    /// rows -> field spans [start, end)
    pub rows: Vec<Vec<(usize, usize)>>,
    /// positions of delimiters and separators outside quotes
    pub markers: Vec<usize>,
    /// positions of separators outside quotes
    pub newlines: Vec<usize>,
    /// even number of quote bytes
    pub balanced: bool,
    /// the last byte is a delimiter outside quotes (and therefore not followed by a separator)
    pub ends_in_unquoted_delimiter: bool,
    /// the last byte is a separator outside quotes
    pub ends_in_unquoted_newline: bool,
}

/// Quote-aware splitter: the quote byte toggles a flag; a separator outside quotes
/// ends a row (a final separator starts no extra row; empty text has no rows);
/// within a row a delimiter outside quotes ends a field; fields are raw spans.
pub fn model(text: &[u8], c: Cfg) -> Model {
    let mut m = Model::default();
    let mut in_quote = false;
    let mut row: Vec<(usize, usize)> = vec![];
    let mut field_start = 0usize;
    let mut last_kind = 0u8; // 1 = unquoted delimiter, 2 = unquoted newline
    for (i, &b) in text.iter().enumerate() {
        last_kind = 0;
        if b == c.quote {
            in_quote = !in_quote;
            continue;
        }
        if in_quote {
            continue;
        }
        if b == c.newline {
            m.markers.push(i);
            m.newlines.push(i);
            row.push((field_start, i));
            m.rows.push(core::mem::take(&mut row));
            field_start = i + 1;
            last_kind = 2;
        } else if b == c.delimiter {
            m.markers.push(i);
            row.push((field_start, i));
            field_start = i + 1;
            last_kind = 1;
        }
    }
    // the piece after the last separator is a row unless it is empty
    let after_last_newline = m.newlines.last().map(|&p| p + 1).unwrap_or(0);
    if after_last_newline < text.len() {
        row.push((field_start, text.len()));
        m.rows.push(row);
    }
    m.balanced = !in_quote;
    m.ends_in_unquoted_delimiter = last_kind == 1;
    m.ends_in_unquoted_newline = last_kind == 2;
    m
}
