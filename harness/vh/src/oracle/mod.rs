pub mod jsonpda;
pub mod jsonval;
pub mod jqeval;
