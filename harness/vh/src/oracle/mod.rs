pub mod jsonpda;
pub mod jsonval;
