//! In-process jq evaluation helper: parse a jq program, evaluate it against one JSON
//! text with one of the repository's two evaluators, and hand the outputs back as
//! harness-side `J` values (each output is printed with `OwnedValue::to_json` — jq
//! mode's printer — and read back with O-jsonval).
//!
//! * `Route::Generic` — `jq::eval_generic::eval_with_cursor` on
//!   `JsonIndex::build(text).root(text)`: the evaluator the `succinctly jq` CLI uses
//!   (`jq_runner.rs::evaluate_bytes_lazy` / `evaluate_input`), program parsed with
//!   `jq::parse_program` exactly as the CLI does (no modules, no `$ARGS`).
//! * `Route::Library` — `jq::eval::<Vec<u64>, JqSemantics>` on the same cursor: the
//!   library's full evaluator (`src/jq/eval.rs`).
//!
//! Nothing here is an oracle: it is the system under test behind a uniform face.
//! Callers must keep values shallower than `jq::MAX_VALUE_TREE_DEPTH` /
//! `eval_generic::MAX_NESTING_DEPTH` (256) — materialisation past that is a documented
//! panic.
use crate::gen::json::J;
use crate::oracle::jsonval;
use succinctly::jq::{self, eval_generic, Control, JqSemantics, OwnedValue};
use succinctly::json::JsonIndex;

#[derive(Clone, Copy, Debug, PartialEq)]
pub enum Route {
    /// `eval_generic::eval_with_cursor` (CLI evaluator)
    Generic,
    /// `jq::eval::<Vec<u64>, JqSemantics>` (library evaluator)
    Library,
}

impl Route {
    pub fn name(self) -> &'static str {
        match self {
            Route::Generic => "generic",
            Route::Library => "library",
        }
    }
}

#[derive(Clone, Debug, Default)]
pub struct Outcome {
    /// outputs produced (also the prefix produced before an error / break / halt)
    pub outputs: Vec<J>,
    /// the text each output printed as (jq-mode `to_json`)
    pub texts: Vec<String>,
    /// how evaluation ended when it did not end normally:
    /// `parse: …`, `error: <message>`, `break: <label>`, `halt: <code>`,
    /// `unreadable-output: …` (the printed output is not one JSON text),
    /// `panic: <stage>: <file>: <message>` (stage = `parse` | `eval`; the panic was caught
    /// here so that the caller can classify it; file has the checkout prefix and line stripped)
    pub error: Option<String>,
}

impl Outcome {
    pub fn is_panic(&self) -> bool {
        self.error.as_deref().map_or(false, |e| e.starts_with("panic: "))
    }
    pub fn is_parse_error(&self) -> bool {
        self.error.as_deref().map_or(false, |e| e.starts_with("parse: "))
    }
    /// The evaluator said it does not implement the construct (only ever used to
    /// *skip* the library route, never to excuse the CLI route).
    pub fn is_unsupported(&self) -> bool {
        self.error.as_deref().map_or(false, |e| {
            let l = e.to_ascii_lowercase();
            l.contains("not supported") || l.contains("unsupported") || l.contains("not implemented") || l.contains("not defined") || l.contains("unknown function")
        })
    }
}

fn control_text(c: &Control) -> String {
    match c {
        Control::Error(e) => format!("error: {}", e),
        Control::Break(l) => format!("break: {}", l),
        Control::Halt(n) => format!("halt: {}", n),
    }
}

fn finish(vals: Vec<OwnedValue>, mut error: Option<String>) -> Outcome {
    let mut out = Outcome::default();
    for v in &vals {
        let t = v.to_json();
        match jsonval::parse_one(t.as_bytes()) {
            Ok(j) => out.outputs.push(j),
            Err(e) => {
                if error.is_none() {
                    error = Some(format!("unreadable-output: {} at {} in {:?}", e.msg, e.offset, truncate(&t)));
                }
            }
        }
        out.texts.push(t);
    }
    out.error = error;
    out
}

fn truncate(s: &str) -> String {
    if s.len() <= 300 {
        s.to_string()
    } else {
        let mut e = 300;
        while !s.is_char_boundary(e) {
            e -= 1;
        }
        format!("{}…(+{} bytes)", &s[..e], s.len() - e)
    }
}

/// Evaluate `prog` on the JSON text `text` (one value) and report everything.
pub fn run(route: Route, prog: &str, text: &[u8]) -> Outcome {
    let program = match crate::engine::catch(|| jq::parse_program(prog)) {
        Ok(Ok(p)) => p,
        Ok(Err(e)) => return Outcome { error: Some(format!("parse: {}", e)), ..Outcome::default() },
        Err((loc, msg)) => return Outcome { error: Some(format!("panic: parse: {}: {}", crate::engine::panic_sig(&loc), msg)), ..Outcome::default() },
    };
    match crate::engine::catch(|| run_parsed(route, &program, text)) {
        Ok(o) => o,
        Err((loc, msg)) => Outcome { error: Some(format!("panic: eval: {}: {}", crate::engine::panic_sig(&loc), msg)), ..Outcome::default() },
    }
}

fn run_parsed(route: Route, program: &jq::Program, text: &[u8]) -> Outcome {
    let expr = &program.expr;
    let index = JsonIndex::build(text);
    let cursor = index.root(text);
    match route {
        Route::Generic => {
            use eval_generic::GenericResult as G;
            let r = eval_generic::eval_with_cursor(expr, cursor);
            let err = match &r {
                G::Error(e) => Some(format!("error: {}", e)),
                G::Break(l) => Some(format!("break: {}", l)),
                G::Halt(n) => Some(format!("halt: {}", n)),
                G::Partial(_, c) => Some(control_text(c)),
                _ => None,
            };
            // a lazy map chain can still fail while it is materialised
            let (vals, err) = match r {
                G::LazySeq(seq) => match seq.materialize_atomic() {
                    Ok(v) => (vec![v], None),
                    Err(c) => (vec![], Some(control_text(&c))),
                },
                other => (other.collect_owned(), err),
            };
            finish(vals, err)
        }
        Route::Library => {
            use jq::QueryResult as Q;
            let r: Q<Vec<u64>> = jq::eval::<Vec<u64>, JqSemantics>(expr, cursor);
            let err = match &r {
                Q::Error(e) => Some(format!("error: {}", e)),
                Q::Break(l) => Some(format!("break: {}", l)),
                Q::Halt(n) => Some(format!("halt: {}", n)),
                Q::Partial(_, c) => Some(control_text(c)),
                _ => None,
            };
            finish(r.collect_owned(), err)
        }
    }
}

/// Outputs of `prog` on `text`, or the reason there are none to trust.
pub fn outputs(route: Route, prog: &str, text: &[u8]) -> Result<Vec<J>, String> {
    let o = run(route, prog, text);
    match o.error {
        None => Ok(o.outputs),
        Some(e) => Err(e),
    }
}

/// Exactly one output, or an error string (`outputs: n` when the count is not 1).
pub fn one(route: Route, prog: &str, text: &[u8]) -> Result<J, String> {
    let mut v = outputs(route, prog, text)?;
    if v.len() == 1 {
        Ok(v.pop().unwrap())
    } else {
        Err(format!("outputs: {}", v.len()))
    }
}

/// A JSON string literal for `s` that is also a jq string literal: only `"`, `\` and
/// C0 controls are escaped (`\"`, `\\`, `\uXXXX`), so no `\(`-interpolation can arise.
/// Non-ASCII characters are written raw.
pub fn jq_string(s: &str) -> String {
    jq_string_with(s, false)
}

/// Like `jq_string` but pure ASCII: everything outside 0x20..0x7e is `\uXXXX`
/// (surrogate pairs above the BMP).
pub fn jq_string_ascii(s: &str) -> String {
    jq_string_with(s, true)
}

fn jq_string_with(s: &str, ascii: bool) -> String {
    let mut o = String::with_capacity(s.len() + 2);
    o.push('"');
    for c in s.chars() {
        match c {
            '"' => o.push_str("\\\""),
            '\\' => o.push_str("\\\\"),
            c if (c as u32) < 0x20 || (ascii && (c as u32) >= 0x7f) => {
                let mut units = [0u16; 2];
                for x in c.encode_utf16(&mut units).iter() {
                    o.push_str(&format!("\\u{:04x}", x));
                }
            }
            c => o.push(c),
        }
    }
    o.push('"');
    o
}
