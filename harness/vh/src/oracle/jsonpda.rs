//! O-jsonpda: byte-at-a-time push-down recogniser for "one RFC 8259 JSON text, valid
//! UTF-8, no trailing content, container nesting <= max_depth, \u escapes that decode to
//! Unicode scalar values (no unpaired surrogates — the repository documents and
//! test-pins that reading)". Independent of the repository's validator: a flat state
//! machine over bytes, not recursive descent.
//!
//! For any input it reports Accept, or `viable_len` = the length of the longest prefix
//! that can still be extended to a valid document (== input length when the input is a
//! proper prefix of some valid text).

#[derive(Clone, Copy, Debug, PartialEq)]
pub enum Verdict {
    Accept,
    /// longest viable prefix length (index of the first byte that makes the prefix dead,
    /// or `len` when only more input could complete the document)
    Reject { viable_len: usize },
}

#[derive(Clone, Copy, Debug, PartialEq)]
enum S {
    Value,      // a value must start (after ws); used at top level, after ':' and after ','
    ArrFirst,   // after '[': value or ']'
    ObjFirst,   // after '{': key or '}'
    ObjKey,     // after ',' in an object: key
    Colon,      // after a key
    AfterValue, // after a complete value
    Str,
    StrEsc,
    StrU { n: u8, acc: u16, low_expected: bool },
    StrLowBackslash, // after a high surrogate escape: '\' required
    StrLowU,         // then 'u'
    StrUtf8 { rem: u8, lo: u8, hi: u8 },
    NumMinus,
    NumZero,
    NumInt,
    NumDot,
    NumFrac,
    NumE,
    NumESign,
    NumExp,
    Lit { which: u8, idx: u8 },
}

const LITS: [&[u8]; 3] = [b"true", b"false", b"null"];

pub struct Pda {
    s: S,
    stack: Vec<u8>, // b'[' or b'{'
    key: bool,      // current string is an object key
    max_depth: usize,
    pub max_depth_seen: usize,
}

fn is_ws(b: u8) -> bool {
    matches!(b, b' ' | b'\n' | b'\r' | b'\t')
}

impl Pda {
    pub fn new(max_depth: usize) -> Self {
        Pda { s: S::Value, stack: vec![], key: false, max_depth, max_depth_seen: 0 }
    }

    fn start_value(&mut self, b: u8) -> bool {
        match b {
            b'{' | b'[' => {
                if self.stack.len() >= self.max_depth {
                    return false;
                }
                self.stack.push(b);
                self.max_depth_seen = self.max_depth_seen.max(self.stack.len());
                self.s = if b == b'{' { S::ObjFirst } else { S::ArrFirst };
                true
            }
            b'"' => {
                self.key = false;
                self.s = S::Str;
                true
            }
            b'-' => {
                self.s = S::NumMinus;
                true
            }
            b'0' => {
                self.s = S::NumZero;
                true
            }
            b'1'..=b'9' => {
                self.s = S::NumInt;
                true
            }
            b't' => {
                self.s = S::Lit { which: 0, idx: 1 };
                true
            }
            b'f' => {
                self.s = S::Lit { which: 1, idx: 1 };
                true
            }
            b'n' => {
                self.s = S::Lit { which: 2, idx: 1 };
                true
            }
            _ => false,
        }
    }

    fn end_string(&mut self) {
        self.s = if self.key { S::Colon } else { S::AfterValue };
    }

    /// Feed one byte; false = the prefix including this byte is dead.
    pub fn step(&mut self, b: u8) -> bool {
        match self.s {
            S::Value => {
                if is_ws(b) {
                    true
                } else {
                    self.start_value(b)
                }
            }
            S::ArrFirst => {
                if is_ws(b) {
                    true
                } else if b == b']' {
                    self.stack.pop();
                    self.s = S::AfterValue;
                    true
                } else {
                    self.start_value(b)
                }
            }
            S::ObjFirst | S::ObjKey => {
                if is_ws(b) {
                    true
                } else if b == b'}' && self.s == S::ObjFirst {
                    self.stack.pop();
                    self.s = S::AfterValue;
                    true
                } else if b == b'"' {
                    self.key = true;
                    self.s = S::Str;
                    true
                } else {
                    false
                }
            }
            S::Colon => {
                if is_ws(b) {
                    true
                } else if b == b':' {
                    self.s = S::Value;
                    true
                } else {
                    false
                }
            }
            S::AfterValue => {
                if is_ws(b) {
                    return true;
                }
                match (self.stack.last().copied(), b) {
                    (Some(b'['), b',') => {
                        self.s = S::Value;
                        true
                    }
                    (Some(b'['), b']') | (Some(b'{'), b'}') => {
                        self.stack.pop();
                        self.s = S::AfterValue;
                        true
                    }
                    (Some(b'{'), b',') => {
                        self.s = S::ObjKey;
                        true
                    }
                    _ => false,
                }
            }
            S::Str => match b {
                b'"' => {
                    self.end_string();
                    true
                }
                b'\\' => {
                    self.s = S::StrEsc;
                    true
                }
                0..=0x1f => false,
                0x20..=0x7f => true,
                0xC2..=0xDF => {
                    self.s = S::StrUtf8 { rem: 1, lo: 0x80, hi: 0xBF };
                    true
                }
                0xE0 => {
                    self.s = S::StrUtf8 { rem: 2, lo: 0xA0, hi: 0xBF };
                    true
                }
                0xE1..=0xEC | 0xEE..=0xEF => {
                    self.s = S::StrUtf8 { rem: 2, lo: 0x80, hi: 0xBF };
                    true
                }
                0xED => {
                    self.s = S::StrUtf8 { rem: 2, lo: 0x80, hi: 0x9F };
                    true
                }
                0xF0 => {
                    self.s = S::StrUtf8 { rem: 3, lo: 0x90, hi: 0xBF };
                    true
                }
                0xF1..=0xF3 => {
                    self.s = S::StrUtf8 { rem: 3, lo: 0x80, hi: 0xBF };
                    true
                }
                0xF4 => {
                    self.s = S::StrUtf8 { rem: 3, lo: 0x80, hi: 0x8F };
                    true
                }
                _ => false,
            },
            S::StrUtf8 { rem, lo, hi } => {
                if b < lo || b > hi {
                    return false;
                }
                self.s = if rem == 1 { S::Str } else { S::StrUtf8 { rem: rem - 1, lo: 0x80, hi: 0xBF } };
                true
            }
            S::StrEsc => match b {
                b'"' | b'\\' | b'/' | b'b' | b'f' | b'n' | b'r' | b't' => {
                    self.s = S::Str;
                    true
                }
                b'u' => {
                    self.s = S::StrU { n: 0, acc: 0, low_expected: false };
                    true
                }
                _ => false,
            },
            S::StrU { n, acc, low_expected } => {
                let d = match (b as char).to_digit(16) {
                    Some(d) => d as u16,
                    None => return false,
                };
                let acc = (acc << 4) | d;
                let n = n + 1;
                if low_expected {
                    // must complete to DC00..=DFFF
                    if (n == 1 && d != 0xD) || (n == 2 && !(0xC..=0xF).contains(&d)) {
                        return false;
                    }
                } else if n == 2 && (acc >> 4) == 0xD && (0xC..=0xF).contains(&d) {
                    // lone low surrogate DCxx..DFxx
                    return false;
                }
                if n < 4 {
                    self.s = S::StrU { n, acc, low_expected };
                } else if !low_expected && (0xD800..0xDC00).contains(&acc) {
                    self.s = S::StrLowBackslash;
                } else {
                    self.s = S::Str;
                }
                true
            }
            S::StrLowBackslash => {
                if b == b'\\' {
                    self.s = S::StrLowU;
                    true
                } else {
                    false
                }
            }
            S::StrLowU => {
                if b == b'u' {
                    self.s = S::StrU { n: 0, acc: 0, low_expected: true };
                    true
                } else {
                    false
                }
            }
            S::NumMinus => match b {
                b'0' => {
                    self.s = S::NumZero;
                    true
                }
                b'1'..=b'9' => {
                    self.s = S::NumInt;
                    true
                }
                _ => false,
            },
            S::NumZero | S::NumInt | S::NumFrac | S::NumExp => {
                let cont = match (self.s, b) {
                    (S::NumInt, b'0'..=b'9') => Some(S::NumInt),
                    (S::NumZero | S::NumInt, b'.') => Some(S::NumDot),
                    (S::NumZero | S::NumInt | S::NumFrac, b'e' | b'E') => Some(S::NumE),
                    (S::NumFrac, b'0'..=b'9') => Some(S::NumFrac),
                    (S::NumExp, b'0'..=b'9') => Some(S::NumExp),
                    _ => None,
                };
                match cont {
                    Some(s) => {
                        self.s = s;
                        true
                    }
                    None => {
                        // the number is complete; this byte follows a value
                        self.s = S::AfterValue;
                        self.step(b)
                    }
                }
            }
            S::NumDot => {
                if b.is_ascii_digit() {
                    self.s = S::NumFrac;
                    true
                } else {
                    false
                }
            }
            S::NumE => match b {
                b'+' | b'-' => {
                    self.s = S::NumESign;
                    true
                }
                b'0'..=b'9' => {
                    self.s = S::NumExp;
                    true
                }
                _ => false,
            },
            S::NumESign => {
                if b.is_ascii_digit() {
                    self.s = S::NumExp;
                    true
                } else {
                    false
                }
            }
            S::Lit { which, idx } => {
                let l = LITS[which as usize];
                if l[idx as usize] == b {
                    if idx as usize + 1 == l.len() {
                        self.s = S::AfterValue;
                    } else {
                        self.s = S::Lit { which, idx: idx + 1 };
                    }
                    true
                } else {
                    false
                }
            }
        }
    }

    pub fn accepting(&self) -> bool {
        self.stack.is_empty() && matches!(self.s, S::AfterValue | S::NumZero | S::NumInt | S::NumFrac | S::NumExp)
    }
}

pub fn run(input: &[u8], max_depth: usize) -> (Verdict, usize) {
    let mut p = Pda::new(max_depth);
    for (i, &b) in input.iter().enumerate() {
        if !p.step(b) {
            return (Verdict::Reject { viable_len: i }, p.max_depth_seen);
        }
    }
    if p.accepting() {
        (Verdict::Accept, p.max_depth_seen)
    } else {
        (Verdict::Reject { viable_len: input.len() }, p.max_depth_seen)
    }
}

pub fn accepts(input: &[u8], max_depth: usize) -> bool {
    run(input, max_depth).0 == Verdict::Accept
}
