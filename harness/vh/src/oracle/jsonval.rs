//! O-jsonval: strict RFC 8259 value parser written for the harness (iterative, no
//! depth limit), plus jq's duplicate-key collapse and total order. Used to read back
//! every CLI / library JSON output. Trusted base: Rust `str::parse::<f64>` and `char`.
use crate::gen::json::{Num, J};
use std::cmp::Ordering;

#[derive(Debug, Clone)]
pub struct ParseError {
    pub offset: usize,
    pub msg: String,
}

struct P<'a> {
    b: &'a [u8],
    i: usize,
}

impl<'a> P<'a> {
    fn err<T>(&self, m: &str) -> Result<T, ParseError> {
        Err(ParseError { offset: self.i, msg: m.to_string() })
    }
    fn ws(&mut self) {
        while self.i < self.b.len() && matches!(self.b[self.i], b' ' | b'\n' | b'\r' | b'\t') {
            self.i += 1;
        }
    }
    fn hex4(&mut self) -> Result<u32, ParseError> {
        if self.i + 4 > self.b.len() {
            return self.err("short \\u escape");
        }
        let mut v = 0u32;
        for k in 0..4 {
            let d = (self.b[self.i + k] as char).to_digit(16);
            match d {
                Some(d) => v = v * 16 + d,
                None => return self.err("bad hex digit"),
            }
        }
        self.i += 4;
        Ok(v)
    }
    fn string(&mut self) -> Result<String, ParseError> {
        // at opening quote
        self.i += 1;
        let mut out: Vec<u8> = Vec::new();
        loop {
            if self.i >= self.b.len() {
                return self.err("unterminated string");
            }
            let c = self.b[self.i];
            match c {
                b'"' => {
                    self.i += 1;
                    break;
                }
                b'\\' => {
                    self.i += 1;
                    if self.i >= self.b.len() {
                        return self.err("unterminated escape");
                    }
                    let e = self.b[self.i];
                    self.i += 1;
                    match e {
                        b'"' => out.push(b'"'),
                        b'\\' => out.push(b'\\'),
                        b'/' => out.push(b'/'),
                        b'b' => out.push(8),
                        b'f' => out.push(12),
                        b'n' => out.push(b'\n'),
                        b'r' => out.push(b'\r'),
                        b't' => out.push(b'\t'),
                        b'u' => {
                            let hi = self.hex4()?;
                            let cp = if (0xD800..0xDC00).contains(&hi) {
                                if self.i + 2 <= self.b.len() && self.b[self.i] == b'\\' && self.b[self.i + 1] == b'u' {
                                    self.i += 2;
                                    let lo = self.hex4()?;
                                    if !(0xDC00..0xE000).contains(&lo) {
                                        return self.err("unpaired high surrogate");
                                    }
                                    0x10000 + ((hi - 0xD800) << 10) + (lo - 0xDC00)
                                } else {
                                    return self.err("unpaired high surrogate");
                                }
                            } else if (0xDC00..0xE000).contains(&hi) {
                                return self.err("unpaired low surrogate");
                            } else {
                                hi
                            };
                            let ch = char::from_u32(cp).ok_or(ParseError { offset: self.i, msg: "bad code point".into() })?;
                            let mut buf = [0u8; 4];
                            out.extend_from_slice(ch.encode_utf8(&mut buf).as_bytes());
                        }
                        _ => return self.err("bad escape"),
                    }
                }
                0..=0x1f => return self.err("control character in string"),
                _ => {
                    out.push(c);
                    self.i += 1;
                }
            }
        }
        String::from_utf8(out).map_err(|_| ParseError { offset: self.i, msg: "invalid UTF-8 in string".into() })
    }
    fn number(&mut self) -> Result<Num, ParseError> {
        let s = self.i;
        let b = self.b;
        let mut i = self.i;
        if i < b.len() && b[i] == b'-' {
            i += 1;
        }
        if i >= b.len() {
            self.i = i;
            return self.err("number: digits expected");
        }
        if b[i] == b'0' {
            i += 1;
        } else if b[i].is_ascii_digit() {
            while i < b.len() && b[i].is_ascii_digit() {
                i += 1;
            }
        } else {
            self.i = i;
            return self.err("number: digit expected");
        }
        if i < b.len() && b[i] == b'.' {
            i += 1;
            let f = i;
            while i < b.len() && b[i].is_ascii_digit() {
                i += 1;
            }
            if i == f {
                self.i = i;
                return self.err("number: fraction digits expected");
            }
        }
        if i < b.len() && (b[i] == b'e' || b[i] == b'E') {
            i += 1;
            if i < b.len() && (b[i] == b'+' || b[i] == b'-') {
                i += 1;
            }
            let f = i;
            while i < b.len() && b[i].is_ascii_digit() {
                i += 1;
            }
            if i == f {
                self.i = i;
                return self.err("number: exponent digits expected");
            }
        }
        self.i = i;
        let text = std::str::from_utf8(&b[s..i]).unwrap().to_string();
        let value: f64 = text.parse().map_err(|_| ParseError { offset: s, msg: "number parse".into() })?;
        let int = if text.bytes().all(|c| c.is_ascii_digit() || c == b'-') { text.parse::<i64>().ok() } else { None };
        Ok(Num { text, value, int })
    }
}

enum Frame {
    Arr(Vec<J>),
    Obj(Vec<(String, J)>, Option<String>),
}

/// Parse exactly one JSON value starting at `*pos` (leading whitespace allowed);
/// `*pos` is left just after the value.
pub fn parse_value_at(b: &[u8], pos: &mut usize) -> Result<J, ParseError> {
    let mut p = P { b, i: *pos };
    let mut stack: Vec<Frame> = vec![];
    let result: J;
    'outer: loop {
        // parse a value
        p.ws();
        if p.i >= b.len() {
            return p.err("value expected, found end of input");
        }
        let mut val: J = match b[p.i] {
            b'{' => {
                p.i += 1;
                p.ws();
                if p.i < b.len() && b[p.i] == b'}' {
                    p.i += 1;
                    J::Obj(vec![])
                } else {
                    if p.i >= b.len() || b[p.i] != b'"' {
                        return p.err("object key expected");
                    }
                    let k = p.string()?;
                    p.ws();
                    if p.i >= b.len() || b[p.i] != b':' {
                        return p.err("':' expected");
                    }
                    p.i += 1;
                    stack.push(Frame::Obj(vec![], Some(k)));
                    continue 'outer;
                }
            }
            b'[' => {
                p.i += 1;
                p.ws();
                if p.i < b.len() && b[p.i] == b']' {
                    p.i += 1;
                    J::Arr(vec![])
                } else {
                    stack.push(Frame::Arr(vec![]));
                    continue 'outer;
                }
            }
            b'"' => J::Str(p.string()?),
            b't' if b[p.i..].starts_with(b"true") => {
                p.i += 4;
                J::Bool(true)
            }
            b'f' if b[p.i..].starts_with(b"false") => {
                p.i += 5;
                J::Bool(false)
            }
            b'n' if b[p.i..].starts_with(b"null") => {
                p.i += 4;
                J::Null
            }
            b'-' | b'0'..=b'9' => J::Num(p.number()?),
            _ => return p.err("unexpected byte at value position"),
        };
        // attach to enclosing frames
        loop {
            match stack.last_mut() {
                None => {
                    result = val;
                    break 'outer;
                }
                Some(Frame::Arr(a)) => {
                    a.push(std::mem::replace(&mut val, J::Null));
                    p.ws();
                    if p.i >= b.len() {
                        return p.err("',' or ']' expected, found end of input");
                    }
                    match b[p.i] {
                        b',' => {
                            p.i += 1;
                            continue 'outer;
                        }
                        b']' => {
                            p.i += 1;
                            if let Some(Frame::Arr(a)) = stack.pop() {
                                val = J::Arr(a);
                            }
                        }
                        _ => return p.err("',' or ']' expected"),
                    }
                }
                Some(Frame::Obj(f, k)) => {
                    f.push((k.take().unwrap(), std::mem::replace(&mut val, J::Null)));
                    p.ws();
                    if p.i >= b.len() {
                        return p.err("',' or '}' expected, found end of input");
                    }
                    match b[p.i] {
                        b',' => {
                            p.i += 1;
                            p.ws();
                            if p.i >= b.len() || b[p.i] != b'"' {
                                return p.err("object key expected");
                            }
                            let nk = p.string()?;
                            p.ws();
                            if p.i >= b.len() || b[p.i] != b':' {
                                return p.err("':' expected");
                            }
                            p.i += 1;
                            if let Some(Frame::Obj(_, k)) = stack.last_mut() {
                                *k = Some(nk);
                            }
                            continue 'outer;
                        }
                        b'}' => {
                            p.i += 1;
                            if let Some(Frame::Obj(f, _)) = stack.pop() {
                                val = J::Obj(f);
                            }
                        }
                        _ => return p.err("',' or '}' expected"),
                    }
                }
            }
        }
    }
    *pos = p.i;
    Ok(result)
}

/// Exactly one JSON text (surrounding whitespace allowed, nothing else).
pub fn parse_one(b: &[u8]) -> Result<J, ParseError> {
    let mut pos = 0;
    let v = parse_value_at(b, &mut pos)?;
    let mut p = P { b, i: pos };
    p.ws();
    if p.i != b.len() {
        return p.err("trailing content");
    }
    Ok(v)
}

/// A whitespace-separated stream of JSON values (what `jq -c` prints).
pub fn parse_stream(b: &[u8]) -> Result<Vec<J>, ParseError> {
    let mut out = vec![];
    let mut pos = 0;
    loop {
        let mut p = P { b, i: pos };
        p.ws();
        if p.i >= b.len() {
            return Ok(out);
        }
        pos = p.i;
        out.push(parse_value_at(b, &mut pos)?);
    }
}

/// jq's duplicate-key collapse: first position, last value (recursively).
pub fn collapse_dups(j: &J) -> J {
    match j {
        J::Arr(a) => J::Arr(a.iter().map(collapse_dups).collect()),
        J::Obj(f) => {
            let mut out: Vec<(String, J)> = vec![];
            for (k, v) in f {
                let cv = collapse_dups(v);
                if let Some(e) = out.iter_mut().find(|e| e.0 == *k) {
                    e.1 = cv;
                } else {
                    out.push((k.clone(), cv));
                }
            }
            J::Obj(out)
        }
        x => x.clone(),
    }
}

/// Recursively sort object keys by UTF-8 bytes / code points (what `-S` and `keys` do).
pub fn sort_keys(j: &J) -> J {
    match j {
        J::Arr(a) => J::Arr(a.iter().map(sort_keys).collect()),
        J::Obj(f) => {
            let mut out: Vec<(String, J)> = f.iter().map(|(k, v)| (k.clone(), sort_keys(v))).collect();
            out.sort_by(|a, b| a.0.as_bytes().cmp(b.0.as_bytes()));
            J::Obj(out)
        }
        x => x.clone(),
    }
}

fn rank(j: &J) -> u8 {
    match j {
        J::Null => 0,
        J::Bool(false) => 1,
        J::Bool(true) => 2,
        J::Num(_) => 3,
        J::Str(_) => 4,
        J::Arr(_) => 5,
        J::Obj(_) => 6,
    }
}

/// jq's total order: null < false < true < numbers < strings < arrays < objects;
/// strings by code point (= UTF-8 byte order); arrays lexicographic; objects first by
/// their sorted key lists, then by values in key order.
pub fn jq_cmp(a: &J, b: &J) -> Ordering {
    let (ra, rb) = (rank(a), rank(b));
    if ra != rb {
        return ra.cmp(&rb);
    }
    match (a, b) {
        (J::Num(x), J::Num(y)) => x.value.partial_cmp(&y.value).unwrap_or(Ordering::Equal),
        (J::Str(x), J::Str(y)) => x.as_bytes().cmp(y.as_bytes()),
        (J::Arr(x), J::Arr(y)) => {
            for (p, q) in x.iter().zip(y.iter()) {
                let c = jq_cmp(p, q);
                if c != Ordering::Equal {
                    return c;
                }
            }
            x.len().cmp(&y.len())
        }
        (J::Obj(x), J::Obj(y)) => {
            let mut kx: Vec<&String> = x.iter().map(|e| &e.0).collect();
            let mut ky: Vec<&String> = y.iter().map(|e| &e.0).collect();
            kx.sort_by(|a, b| a.as_bytes().cmp(b.as_bytes()));
            ky.sort_by(|a, b| a.as_bytes().cmp(b.as_bytes()));
            let c = kx.iter().map(|s| s.as_bytes()).cmp(ky.iter().map(|s| s.as_bytes()));
            if c != Ordering::Equal {
                return c;
            }
            for k in kx {
                let vx = &x.iter().rev().find(|e| e.0 == *k).unwrap().1;
                let vy = &y.iter().rev().find(|e| e.0 == *k).unwrap().1;
                let c = jq_cmp(vx, vy);
                if c != Ordering::Equal {
                    return c;
                }
            }
            Ordering::Equal
        }
        _ => Ordering::Equal,
    }
}

/// Model lookup by a jq path (array of strings / non-negative integers).
pub fn getpath<'a>(j: &'a J, path: &[J]) -> Option<&'a J> {
    let mut v = j;
    for seg in path {
        v = match (v, seg) {
            (J::Obj(f), J::Str(k)) => &f.iter().rev().find(|e| e.0 == *k)?.1,
            (J::Arr(a), J::Num(n)) => {
                let i = n.int?;
                if i < 0 {
                    return None;
                }
                a.get(i as usize)?
            }
            _ => return None,
        };
    }
    Some(v)
}
