//! Generator / oracle self-validation (development aid, not a registered check):
//! G-json render -> O-jsonval parse == model; O-jsonpda accepts; every span parses to the
//! model's sub-value; structural list = brackets/commas/colons outside strings.
use crate::engine::*;
use crate::gen::json::*;
use crate::oracle::{jsonpda, jsonval};
use serde_json::json;

pub fn run(cx: &mut Ctx) {
    cx.check(
        "gjson-roundtrip",
        "self",
        Budget { quick: 40_000, thorough: 400_000, max_len: 4096 },
        |u, st| {
            let o = GenOpts { max_depth: u.range(0, 8), max_nodes: u.range(1, 80), ..GenOpts::default() };
            let j = gen_value(u, &o);
            let ro = render_opts(u);
            let r = render(&j, u, ro);
            st.describe(|| json!({"text": show_bytes(&r.text)}));
            let back = match jsonval::parse_one(&r.text) {
                Ok(b) => b,
                Err(e) => fail!("self/parse", {"err": format!("{:?}", e), "text": show_bytes(&r.text)}),
            };
            if !j_eq(&j, &back) {
                fail!("self/value", {"text": show_bytes(&r.text)});
            }
            let (v, _) = jsonpda::run(&r.text, 128);
            if v != jsonpda::Verdict::Accept && j.depth() <= 128 {
                fail!("self/pda", {"text": show_bytes(&r.text), "v": format!("{:?}", v)});
            }
            for (i, sp) in r.spans.iter().enumerate() {
                let sub = match jsonval::parse_one(&r.text[sp.start..sp.end]) {
                    Ok(b) => b,
                    Err(e) => fail!("self/span-parse", {"err": format!("{:?}", e), "span": format!("{:?}", sp), "text": show_bytes(&r.text)}),
                };
                if sp.role == Role::Value {
                    if !j_eq(&sub, value_at(&j, &r, i)) {
                        fail!("self/span-value", {"span": format!("{:?}", sp), "text": show_bytes(&r.text)});
                    }
                } else {
                    let vi = sp.value_of_key.expect("key has value");
                    if r.spans[vi].parent != sp.parent || r.spans[vi].ordinal != sp.ordinal {
                        fail!("self/key-link", {"span": format!("{:?}", sp)});
                    }
                }
            }
            // structurals by naive scan
            let mut s = vec![];
            let mut in_str = false;
            let mut k = 0;
            while k < r.text.len() {
                let b = r.text[k];
                if in_str {
                    if b == b'\\' {
                        k += 1;
                    } else if b == b'"' {
                        in_str = false;
                    }
                } else if b == b'"' {
                    in_str = true;
                } else if matches!(b, b'{' | b'}' | b'[' | b']' | b',' | b':') {
                    s.push(k);
                }
                k += 1;
            }
            if s != r.structurals {
                fail!("self/structurals", {"text": show_bytes(&r.text)});
            }
            st.class(&format!("ws-{:?}", ro.ws));
            st.class_if(r.n_surrogate_pairs > 0, "surrogate-pairs");
            st.class_if(j.has_dup_keys(), "dup-keys");
            st.class(&format!("depth-{}", j.depth().min(9)));
            st.nontrivial(hash_bytes(&r.text));
            st.size(r.text.len());
            st.sample("any", || json!(show_bytes(&r.text)));
            // mutated text: PDA accept <=> jsonval parse ok (two independent harness oracles)
            let mut m = r.text.clone();
            if !m.is_empty() {
                for _ in 0..u.range(1, 2) {
                    let i = u.below(m.len());
                    match u.below(3) {
                        0 => m[i] = u.byte(),
                        1 => {
                            m.remove(i);
                        }
                        _ => m.insert(i, *u.pick(b"{}[],:\"\\ 0-e.u")),
                    }
                    if m.is_empty() {
                        break;
                    }
                }
            }
            let a = jsonpda::accepts(&m, 100000);
            let b = jsonval::parse_one(&m).is_ok();
            st.class_if(a, "mutant-accepted");
            st.class_if(!a, "mutant-rejected");
            if a != b {
                fail!("self/pda-vs-jsonval", {"text": show_bytes(&m), "pda": a, "jsonval": b});
            }
            Ok(())
        },
    );
}

#[allow(unconditional_recursion)]
fn recurse(n: u64) -> u64 {
    let a = [n; 64];
    std::hint::black_box(&a);
    recurse(n + 1) + a[3]
}

/// Exercise the E3 machinery: VH_ISO_TEST = pass | panic | overflow | hang | alloc
pub fn run_iso(cx: &mut Ctx) {
    let kind = std::env::var("VH_ISO_TEST").unwrap_or_else(|_| "pass".into());
    cx.check_isolated(
        "iso",
        "self",
        Budget { quick: 4000, thorough: 4000, max_len: 64 },
        crate::isolate::IsoOpts { watchdog_s: 2, chunk: 500, ..Default::default() },
        move |u, st| {
            let x = u.u16();
            st.class("case");
            st.nontrivial(x as u64);
            st.describe(|| json!({"x": x}));
            if x % 1000 == 7 {
                match kind.as_str() {
                    "panic" => panic!("boom {}", x),
                    "overflow" => {
                        std::hint::black_box(recurse(x as u64));
                    }
                    "hang" => loop {
                        std::thread::sleep(std::time::Duration::from_millis(50));
                    },
                    "alloc" => {
                        let v: Vec<u8> = Vec::with_capacity(1usize << 45);
                        std::hint::black_box(&v);
                    }
                    "fail" => fail!("self/iso-fail", {"x": x}),
                    _ => {}
                }
            }
            Ok(())
        },
    );
}
