use vh::{engine, merge, selftest};

use vh::engine::{Ctx, Tier};

use vh::props::registry;

fn usage() -> ! {
    eprintln!("usage: vh run <id> <quick|thorough> | vh merge <id> <tier> <part.json>... | vh list");
    std::process::exit(2)
}

fn main() {
    let args: Vec<String> = std::env::args().collect();
    if args.len() < 2 {
        usage();
    }
    engine::install_panic_hook();
    match args[1].as_str() {
        "list" => {
            for (id, _, _) in registry() {
                println!("{}", id);
            }
        }
        "run" => {
            if args.len() < 4 {
                usage();
            }
            let tier = match std::env::var("VERIF_TIER").ok().as_deref().unwrap_or(args[3].as_str()) {
                "quick" => Tier::Quick,
                "thorough" => Tier::Thorough,
                _ => usage(),
            };
            let reg = registry();
            let Some((id, run, rule)) = reg.iter().find(|r| r.0 == args[2]) else {
                eprintln!("unknown property {}", args[2]);
                std::process::exit(2)
            };
            let mut cx = Ctx::new(id, tier);
            run(&mut cx);
            std::process::exit(cx.finish(rule));
        }
        "replay" => {
            if args.len() < 3 {
                usage();
            }
            let txt = std::fs::read_to_string(&args[2]).unwrap_or_else(|e| {
                eprintln!("cannot read {}: {}", args[2], e);
                std::process::exit(2)
            });
            let v: serde_json::Value = serde_json::from_str(&txt).unwrap_or_else(|e| {
                eprintln!("bad replay file: {}", e);
                std::process::exit(2)
            });
            let pid = v["property"].as_str().unwrap_or("").to_string();
            let reg = registry();
            let Some((id, run, rule)) = reg.iter().find(|r| r.0 == pid) else {
                eprintln!("unknown property {}", pid);
                std::process::exit(2)
            };
            let tier = if v["tier"] == "thorough" { Tier::Thorough } else { Tier::Quick };
            let mut cx = Ctx::new(id, tier);
            std::env::set_var("VH_EVIDENCE_OUT", format!("{}/out/replay-evidence-{}.json", engine::verif_root(), id));
            if v["kind"] == "entropy" {
                cx.replay_entropy = Some((
                    v["subcheck"].as_str().unwrap_or("").to_string(),
                    engine::unhex(v["entropy_hex"].as_str().unwrap_or("")),
                ));
                cx.replays.clear();
            } else {
                // structured replay: the property module runs it from cx.replays
                cx.replays = vec![(args[2].clone(), v.clone())];
                cx.replay_entropy = Some(("<none>".into(), vec![]));
            }
            run(&mut cx);
            std::process::exit(cx.finish(rule));
        }
        "selftest" => {
            std::env::set_var("VH_EVIDENCE_OUT", format!("{}/out/selftest.json", engine::verif_root()));
            let mut cx = Ctx::new("SELF", Tier::Quick);
            if std::env::var("VH_ISO_TEST").is_ok() {
                selftest::run_iso(&mut cx);
            } else {
                selftest::run(&mut cx);
            }
            std::process::exit(cx.finish("self"));
        }
        "merge" => {
            if args.len() < 5 {
                usage();
            }
            std::process::exit(merge::merge(&args[2], &args[3], &args[4..]));
        }
        _ => usage(),
    }
}
