use vh::{engine, merge, props, selftest};

use vh::engine::{Ctx, Tier};

type Runner = fn(&mut Ctx);

fn registry() -> Vec<(&'static str, Runner, &'static str)> {
    vec![
        ("C01", props::c01::run as Runner, props::c01::RULE),
        ("C02", props::c02::run as Runner, props::c02::RULE),
        ("C03", props::c03::run as Runner, props::c03::RULE),
        ("C04", props::c04::run as Runner, props::c04::RULE),
        ("C05", props::c05::run as Runner, props::c05::RULE),
        ("C06", props::c06::run as Runner, props::c06::RULE),
        ("C07", props::c07::run as Runner, props::c07::RULE),
        ("C08", props::c08::run as Runner, props::c08::RULE),
        ("C09", props::c09::run as Runner, props::c09::RULE),
        ("C10", props::c10::run as Runner, props::c10::RULE),
        ("C11", props::c11::run as Runner, props::c11::RULE),
        ("C12", props::c12::run as Runner, props::c12::RULE),
        ("C13", props::c13::run as Runner, props::c13::RULE),
        ("C14", props::c14::run as Runner, props::c14::RULE),
        ("C15", props::c15::run as Runner, props::c15::RULE),
        ("C16", props::c16::run as Runner, props::c16::RULE),
        ("C17", props::c17::run as Runner, props::c17::RULE),
        ("C18", props::c18::run as Runner, props::c18::RULE),
        ("C19", props::c19::run as Runner, props::c19::RULE),
        ("C20", props::c20::run as Runner, props::c20::RULE),
        ("C21", props::c21::run as Runner, props::c21::RULE),
        ("C22", props::c22::run as Runner, props::c22::RULE),
        ("C23", props::c23::run as Runner, props::c23::RULE),
        ("C24", props::c24::run as Runner, props::c24::RULE),
        ("C25", props::c25::run as Runner, props::c25::RULE),
        ("C26", props::c26::run as Runner, props::c26::RULE),
        ("C27", props::c27::run as Runner, props::c27::RULE),
        ("C28", props::c28::run as Runner, props::c28::RULE),
        ("C29", props::c29::run as Runner, props::c29::RULE),
        ("C30", props::c30::run as Runner, props::c30::RULE),
        ("C31", props::c31::run as Runner, props::c31::RULE),
        ("C32", props::c32::run as Runner, props::c32::RULE),
    ]
}

fn usage() -> ! {
    eprintln!("usage: vh run <id> <quick|thorough> | vh merge <id> <tier> <part.json>... | vh list");
    std::process::exit(2)
}

fn main() {
    let args: Vec<String> = std::env::args().collect();
    if args.len() < 2 {
        usage();
    }
    engine::install_panic_hook();
    match args[1].as_str() {
        "list" => {
            for (id, _, _) in registry() {
                println!("{}", id);
            }
        }
        "run" => {
            if args.len() < 4 {
                usage();
            }
            let tier = match std::env::var("VERIF_TIER").ok().as_deref().unwrap_or(args[3].as_str()) {
                "quick" => Tier::Quick,
                "thorough" => Tier::Thorough,
                _ => usage(),
            };
            let reg = registry();
            let Some((id, run, rule)) = reg.iter().find(|r| r.0 == args[2]) else {
                eprintln!("unknown property {}", args[2]);
                std::process::exit(2)
            };
            let mut cx = Ctx::new(id, tier);
            run(&mut cx);
            std::process::exit(cx.finish(rule));
        }
        "replay" => {
            if args.len() < 3 {
                usage();
            }
            let txt = std::fs::read_to_string(&args[2]).unwrap_or_else(|e| {
                eprintln!("cannot read {}: {}", args[2], e);
                std::process::exit(2)
            });
            let v: serde_json::Value = serde_json::from_str(&txt).unwrap_or_else(|e| {
                eprintln!("bad replay file: {}", e);
                std::process::exit(2)
            });
            let pid = v["property"].as_str().unwrap_or("").to_string();
            let reg = registry();
            let Some((id, run, rule)) = reg.iter().find(|r| r.0 == pid) else {
                eprintln!("unknown property {}", pid);
                std::process::exit(2)
            };
            let tier = if v["tier"] == "thorough" { Tier::Thorough } else { Tier::Quick };
            let mut cx = Ctx::new(id, tier);
            std::env::set_var("VH_EVIDENCE_OUT", format!("{}/out/replay-evidence-{}.json", engine::verif_root(), id));
            if v["kind"] == "entropy" {
                cx.replay_entropy = Some((
                    v["subcheck"].as_str().unwrap_or("").to_string(),
                    engine::unhex(v["entropy_hex"].as_str().unwrap_or("")),
                ));
                cx.replays.clear();
            } else {
                // structured replay: the property module runs it from cx.replays
                cx.replays = vec![(args[2].clone(), v.clone())];
                cx.replay_entropy = Some(("<none>".into(), vec![]));
            }
            run(&mut cx);
            std::process::exit(cx.finish(rule));
        }
        "selftest" => {
            std::env::set_var("VH_EVIDENCE_OUT", format!("{}/out/selftest.json", engine::verif_root()));
            let mut cx = Ctx::new("SELF", Tier::Quick);
            if std::env::var("VH_ISO_TEST").is_ok() {
                selftest::run_iso(&mut cx);
            } else {
                selftest::run(&mut cx);
            }
            std::process::exit(cx.finish("self"));
        }
        "merge" => {
            if args.len() < 5 {
                usage();
            }
            std::process::exit(merge::merge(&args[2], &args[3], &args[4..]));
        }
        _ => usage(),
    }
}
