//! E1: the in-process property engine.
//!
//! Every generated case is a byte string ("entropy") produced by a proptest
//! `Strategy` (`EntropyStrategy`) from a proptest `TestRunner` whose RNG is a
//! ChaCha stream seeded from (VERIF_SEED, property, sub-check, case index).
//! The property's generator decodes the entropy with `arbitrary::Unstructured`
//! (wrapped in `Src`), so the same decoders drive the cargo-fuzz targets.
//! On a failing case proptest's shrink loop drives `EntropyTree::simplify /
//! complicate`, which implement Hypothesis-style passes over the byte string
//! (truncate, delete chunks, zero chunks, lower bytes); the minimal entropy and
//! the rendered case become the replay file.

use arbitrary::Unstructured;
use proptest::strategy::{NewTree, Strategy, ValueTree};
use proptest::test_runner::{
    Config, RngAlgorithm, TestCaseError, TestError, TestRng, TestRunner,
};
use serde_json::{json, Value};
use std::cell::RefCell;
use std::collections::{BTreeMap, HashSet};
use std::panic::{self, AssertUnwindSafe};
use std::sync::atomic::{AtomicBool, AtomicU64, Ordering};
use std::sync::Mutex;
use std::time::Instant;

// ---------------------------------------------------------------- hashing

pub fn mix64(mut z: u64) -> u64 {
    z = z.wrapping_add(0x9E37_79B9_7F4A_7C15);
    z = (z ^ (z >> 30)).wrapping_mul(0xBF58_476D_1CE4_E5B9);
    z = (z ^ (z >> 27)).wrapping_mul(0x94D0_49BB_1331_11EB);
    z ^ (z >> 31)
}

pub fn hash_bytes(b: &[u8]) -> u64 {
    // FNV-1a folded through mix64; only used for distinctness counting / seeds.
    let mut h: u64 = 0xcbf2_9ce4_8422_2325;
    for &x in b {
        h ^= x as u64;
        h = h.wrapping_mul(0x0000_0100_0000_01B3);
    }
    mix64(h ^ (b.len() as u64))
}

pub fn hash_str(s: &str) -> u64 {
    hash_bytes(s.as_bytes())
}

pub fn hash_words(w: &[u64]) -> u64 {
    let mut h = 0x1234_5678_9abc_def0u64 ^ w.len() as u64;
    for &x in w {
        h = mix64(h ^ x);
    }
    h
}

pub fn hex(b: &[u8]) -> String {
    let mut s = String::with_capacity(b.len() * 2);
    for x in b {
        s.push_str(&format!("{:02x}", x));
    }
    s
}

pub fn unhex(s: &str) -> Vec<u8> {
    let b = s.as_bytes();
    let mut out = Vec::with_capacity(b.len() / 2);
    let mut i = 0;
    while i + 1 < b.len() {
        let h = (b[i] as char).to_digit(16).unwrap_or(0) as u8;
        let l = (b[i + 1] as char).to_digit(16).unwrap_or(0) as u8;
        out.push(h << 4 | l);
        i += 2;
    }
    out
}

/// Render bytes for humans: printable ASCII as is, the rest as \xNN.
pub fn show_bytes(b: &[u8]) -> String {
    let mut s = String::new();
    for &c in b.iter().take(400) {
        match c {
            b'\\' => s.push_str("\\\\"),
            b'\n' => s.push_str("\\n"),
            b'\r' => s.push_str("\\r"),
            b'\t' => s.push_str("\\t"),
            0x20..=0x7e => s.push(c as char),
            _ => s.push_str(&format!("\\x{:02x}", c)),
        }
    }
    if b.len() > 400 {
        s.push_str(&format!("...(+{} bytes)", b.len() - 400));
    }
    s
}

// ---------------------------------------------------------------- Src

/// Entropy reader. Thin wrapper over `arbitrary::Unstructured`; when the
/// entropy is exhausted every draw returns its minimum (0 / false / first
/// choice), which is what makes truncation an effective shrink.
pub struct Src<'a> {
    u: Unstructured<'a>,
}

impl<'a> Src<'a> {
    pub fn new(data: &'a [u8]) -> Self {
        Src { u: Unstructured::new(data) }
    }
    pub fn remaining(&self) -> usize {
        self.u.len()
    }
    pub fn is_empty(&self) -> bool {
        self.u.is_empty()
    }
    /// uniform in 0..n (n >= 1)
    pub fn below(&mut self, n: usize) -> usize {
        if n <= 1 {
            return 0;
        }
        self.u.int_in_range(0..=(n - 1)).unwrap_or(0)
    }
    /// uniform in lo..=hi
    pub fn range(&mut self, lo: usize, hi: usize) -> usize {
        if hi <= lo {
            return lo;
        }
        self.u.int_in_range(lo..=hi).unwrap_or(lo)
    }
    pub fn range_u64(&mut self, lo: u64, hi: u64) -> u64 {
        if hi <= lo {
            return lo;
        }
        self.u.int_in_range(lo..=hi).unwrap_or(lo)
    }
    pub fn range_i64(&mut self, lo: i64, hi: i64) -> i64 {
        if hi <= lo {
            return lo;
        }
        self.u.int_in_range(lo..=hi).unwrap_or(lo)
    }
    pub fn byte(&mut self) -> u8 {
        self.u.int_in_range(0u8..=255).unwrap_or(0)
    }
    pub fn u16(&mut self) -> u16 {
        self.u.int_in_range(0u16..=u16::MAX).unwrap_or(0)
    }
    pub fn u32(&mut self) -> u32 {
        self.u.int_in_range(0u32..=u32::MAX).unwrap_or(0)
    }
    pub fn u64(&mut self) -> u64 {
        self.u.int_in_range(0u64..=u64::MAX).unwrap_or(0)
    }
    pub fn bool(&mut self) -> bool {
        self.byte() & 1 == 1
    }
    /// true with probability num/den (false when exhausted)
    pub fn ratio(&mut self, num: u32, den: u32) -> bool {
        if num == 0 {
            return false;
        }
        if num >= den {
            return true;
        }
        // the top `num` of `den` values count as true, so an exhausted source (0) is false
        (self.below(den as usize) as u32) >= den - num
    }
    pub fn pick<'b, T>(&mut self, xs: &'b [T]) -> &'b T {
        &xs[self.below(xs.len())]
    }
    /// index drawn with the given integer weights (first index when exhausted)
    pub fn weighted(&mut self, w: &[u32]) -> usize {
        let total: u32 = w.iter().sum();
        let mut x = self.below(total.max(1) as usize) as u32;
        for (i, &wi) in w.iter().enumerate() {
            if x < wi {
                return i;
            }
            x -= wi;
        }
        0
    }
    pub fn bytes(&mut self, n: usize) -> Vec<u8> {
        let mut v = vec![0u8; n];
        let _ = self.u.fill_buffer(&mut v);
        v
    }
    /// A length with a bias towards small values and the listed boundaries.
    pub fn len_biased(&mut self, max: usize, boundaries: &[usize]) -> usize {
        match self.below(8) {
            0 | 1 => self.range(0, max.min(8)),
            2 | 3 if !boundaries.is_empty() => {
                let b = *self.pick(boundaries);
                let d = self.below(5) as isize - 2;
                ((b as isize + d).max(0) as usize).min(max)
            }
            4 => self.range(0, max.min(64)),
            5 => self.range(0, max.min(600)),
            _ => self.range(0, max),
        }
    }
}

// ---------------------------------------------------------------- Entropy strategy

#[derive(Clone, Debug)]
pub struct EntropyStrategy {
    pub max_len: usize,
}

#[derive(Clone, Debug)]
pub struct Entropy(pub Vec<u8>);

#[derive(Clone, Copy, Debug, PartialEq)]
enum Pass {
    Truncate,
    Delete,
    Zero,
    Lower,
    Done,
}

pub struct EntropyTree {
    best: Vec<u8>, // last value known to fail
    cand: Vec<u8>, // value handed out by current()
    pass: Pass,
    chunk: usize,
    idx: usize,
    lower_step: u8,
    improved_this_cycle: bool,
    started: bool,
}

impl Strategy for EntropyStrategy {
    type Tree = EntropyTree;
    type Value = Entropy;
    fn new_tree(&self, runner: &mut TestRunner) -> NewTree<Self> {
        use proptest::prelude::RngCore;
        let rng = runner.rng();
        // length: mostly the full budget (unused tail is harmless), sometimes
        // short so that exhaustion behaviour (all-minimum draws) is exercised.
        let r = rng.next_u32();
        let len = match r % 16 {
            0 => (rng.next_u32() as usize) % (self.max_len.min(64) + 1),
            1 => (rng.next_u32() as usize) % (self.max_len / 4 + 1),
            _ => self.max_len,
        };
        let mut v = vec![0u8; len];
        rng.fill_bytes(&mut v);
        // Byte-value shaping: runs of small values make "small choice" paths
        // (weights' first alternatives, short lengths) more likely than a
        // uniform stream would; a fraction of cases gets such regions.
        if len > 0 && r & 0x100 != 0 {
            let regions = 1 + (rng.next_u32() % 4) as usize;
            for _ in 0..regions {
                let a = (rng.next_u32() as usize) % len;
                let l = 1 + (rng.next_u32() as usize) % (len - a).min(64);
                let mask = [0x00u8, 0x01, 0x03, 0x0f][(rng.next_u32() % 4) as usize];
                for x in &mut v[a..a + l] {
                    *x &= mask;
                }
            }
        }
        Ok(EntropyTree {
            best: v.clone(),
            cand: v,
            pass: Pass::Truncate,
            chunk: 0,
            idx: 0,
            lower_step: 0,
            improved_this_cycle: false,
            started: false,
        })
    }
}

impl EntropyTree {
    pub fn from_bytes(v: Vec<u8>) -> Self {
        EntropyTree {
            best: v.clone(),
            cand: v,
            pass: Pass::Truncate,
            chunk: 0,
            idx: 0,
            lower_step: 0,
            improved_this_cycle: false,
            started: false,
        }
    }

    /// Produce the next candidate derived from `best`, or None when all passes
    /// ran without improvement.
    fn next_candidate(&mut self) -> Option<Vec<u8>> {
        loop {
            match self.pass {
                Pass::Truncate => {
                    // chunk = amount to cut from the tail: len/2, len/4, ..., 1
                    if self.chunk == 0 {
                        self.chunk = self.best.len() / 2;
                        if self.chunk == 0 {
                            self.chunk = self.best.len().min(1);
                        }
                    }
                    if self.chunk == 0 || self.best.is_empty() {
                        self.pass = Pass::Delete;
                        self.chunk = 64;
                        self.idx = 0;
                        continue;
                    }
                    let cut = self.chunk.min(self.best.len());
                    let c = self.best[..self.best.len() - cut].to_vec();
                    // next time try a smaller cut (if this one is accepted,
                    // accept() resets chunk to retry from len/2)
                    self.chunk = if self.chunk > 1 { self.chunk / 2 } else { usize::MAX };
                    if self.chunk == usize::MAX {
                        self.pass = Pass::Delete;
                        self.chunk = 64;
                        self.idx = 0;
                    }
                    return Some(c);
                }
                Pass::Delete => {
                    if self.chunk == 0 {
                        self.pass = Pass::Zero;
                        self.chunk = 8;
                        self.idx = 0;
                        continue;
                    }
                    if self.idx + self.chunk > self.best.len() {
                        self.chunk /= 2;
                        self.idx = 0;
                        continue;
                    }
                    let mut c = Vec::with_capacity(self.best.len() - self.chunk);
                    c.extend_from_slice(&self.best[..self.idx]);
                    c.extend_from_slice(&self.best[self.idx + self.chunk..]);
                    self.idx += self.chunk; // if accepted, accept() steps idx back
                    return Some(c);
                }
                Pass::Zero => {
                    if self.chunk == 0 {
                        self.pass = Pass::Lower;
                        self.idx = 0;
                        self.lower_step = 0;
                        continue;
                    }
                    if self.idx + self.chunk > self.best.len() {
                        self.chunk /= 2;
                        self.idx = 0;
                        continue;
                    }
                    let i = self.idx;
                    self.idx += self.chunk;
                    if self.best[i..i + self.chunk].iter().all(|&b| b == 0) {
                        continue;
                    }
                    let mut c = self.best.clone();
                    for x in &mut c[i..i + self.chunk] {
                        *x = 0;
                    }
                    return Some(c);
                }
                Pass::Lower => {
                    if self.idx >= self.best.len() {
                        if self.improved_this_cycle {
                            self.improved_this_cycle = false;
                            self.pass = Pass::Truncate;
                            self.chunk = 0;
                            self.idx = 0;
                            continue;
                        }
                        self.pass = Pass::Done;
                        return None;
                    }
                    let b = self.best[self.idx];
                    let step = self.lower_step;
                    self.lower_step += 1;
                    let v = match step {
                        0 if b > 1 => Some(b / 2),
                        1 if b > 0 => Some(b - 1),
                        0 | 1 => None,
                        _ => {
                            self.idx += 1;
                            self.lower_step = 0;
                            continue;
                        }
                    };
                    if let Some(v) = v {
                        let mut c = self.best.clone();
                        c[self.idx] = v;
                        return Some(c);
                    }
                }
                Pass::Done => return None,
            }
        }
    }

    /// The last candidate still failed: it becomes `best`.
    fn accept(&mut self) {
        self.best = self.cand.clone();
        self.improved_this_cycle = true;
        match self.pass {
            Pass::Truncate => {
                self.chunk = 0; // restart truncation from len/2 of the new best
            }
            Pass::Delete => {
                // the deleted region is gone: retry at the same index
                self.idx = self.idx.saturating_sub(self.chunk);
            }
            Pass::Zero => {}
            Pass::Lower => {
                self.lower_step = 0;
            }
            Pass::Done => {}
        }
    }
}

impl ValueTree for EntropyTree {
    type Value = Entropy;
    fn current(&self) -> Entropy {
        Entropy(self.cand.clone())
    }
    fn simplify(&mut self) -> bool {
        // called when current() failed
        if self.started {
            self.accept();
        } else {
            self.started = true;
            self.best = self.cand.clone();
        }
        match self.next_candidate() {
            Some(c) => {
                self.cand = c;
                true
            }
            None => {
                self.cand = self.best.clone();
                false
            }
        }
    }
    fn complicate(&mut self) -> bool {
        // current() passed: drop it, try the next candidate from best
        match self.next_candidate() {
            Some(c) => {
                self.cand = c;
                true
            }
            None => {
                self.cand = self.best.clone();
                false
            }
        }
    }
}

// ---------------------------------------------------------------- Fail / Stats

#[derive(Clone, Debug)]
pub struct Fail {
    /// Specific, stable signature: sub-check / API / normalised shape.
    pub sig: String,
    /// Human-readable account: input, expected, actual.
    pub detail: Value,
}

impl Fail {
    pub fn new(sig: impl Into<String>, detail: Value) -> Self {
        Fail { sig: sig.into(), detail }
    }
}

#[macro_export]
macro_rules! fail {
    ($sig:expr, $($json:tt)+) => {
        return Err($crate::engine::Fail::new($sig, serde_json::json!($($json)+)))
    };
}

#[macro_export]
macro_rules! check_eq {
    ($sig:expr, $exp:expr, $act:expr, $($json:tt)+) => {{
        let e = &$exp;
        let a = &$act;
        if e != a {
            let mut d = serde_json::json!($($json)+);
            if let Some(m) = d.as_object_mut() {
                m.insert("expected".into(), serde_json::Value::String(format!("{:?}", e)));
                m.insert("actual".into(), serde_json::Value::String(format!("{:?}", a)));
            }
            return Err($crate::engine::Fail::new($sig, d));
        }
    }};
}

const MAX_SAMPLES_PER_CLASS: usize = 2;
const MAX_SAMPLES: usize = 10;
const DISTINCT_CAP: usize = 4_000_000;

#[derive(Default)]
pub struct Stats {
    pub recording: bool,
    pub cases: u64,
    pub evals: u64,
    pub classes: BTreeMap<String, u64>,
    pub nontrivial: HashSet<u64>,
    pub nontrivial_overflow: u64,
    pub samples: Vec<(u64, String, Value)>, // (case index, class, rendering)
    pub sample_classes: BTreeMap<String, usize>,
    pub excluded_known: BTreeMap<String, u64>,
    pub discarded: u64,
    pub sizes: Vec<u32>,
    pub digest: u64,
    pub dumps: Vec<(u64, u64)>,
    pub last_dump: Option<String>,
    pub want_desc: bool,
    pub case_desc: Option<Value>,
    pub cur_case: u64,
}

impl Stats {
    /// count `n` oracle evaluations
    pub fn evals(&mut self, n: u64) {
        if self.recording {
            self.evals += n;
        }
    }
    pub fn class(&mut self, name: &str) {
        if self.recording {
            *self.classes.entry(name.to_string()).or_insert(0) += 1;
        }
    }
    pub fn class_if(&mut self, cond: bool, name: &str) {
        if cond {
            self.class(name);
        }
    }
    /// mark the current case as non-trivial; `h` is a hash of the generated input
    pub fn nontrivial(&mut self, h: u64) {
        if self.recording {
            if self.nontrivial.len() < DISTINCT_CAP {
                self.nontrivial.insert(h);
            } else if !self.nontrivial.contains(&h) {
                // cap reached: stop counting (conservative: undercounts)
                self.nontrivial_overflow += 1;
            }
        }
    }
    pub fn size(&mut self, n: usize) {
        if self.recording && (self.cases % 16 == 0 || self.sizes.len() < 64) {
            self.sizes.push(n.min(u32::MAX as usize) as u32);
        }
    }
    /// offer a sample; kept if its class still needs samples
    pub fn sample(&mut self, class: &str, f: impl FnOnce() -> Value) {
        if !self.recording {
            return;
        }
        let n = self.sample_classes.entry(class.to_string()).or_insert(0);
        if *n >= MAX_SAMPLES_PER_CLASS {
            return;
        }
        *n += 1;
        let v = f();
        self.samples.push((self.cur_case, class.to_string(), v));
    }
    /// describe the current case (evaluated only when a replay file is being written)
    pub fn describe(&mut self, f: impl FnOnce() -> Value) {
        if self.want_desc {
            self.case_desc = Some(f());
        }
    }
    /// Cross-configuration dump (E5): the full textual answer of this case in this
    /// process's configuration. Its hash is recorded per case index; the driver diffs the
    /// per-case hashes of all configurations and re-generates the first differing case.
    pub fn dump(&mut self, f: impl FnOnce() -> String) {
        if self.recording || self.want_desc {
            let s = f();
            if self.recording {
                self.dumps.push((self.cur_case, hash_str(&s)));
            }
            if self.want_desc {
                self.last_dump = Some(s);
            }
        }
    }
    /// fold a per-case answer digest (order-independent)
    pub fn digest(&mut self, h: u64) {
        if self.recording {
            self.digest = self.digest.wrapping_add(mix64(h));
        }
    }
    /// a case that hit an open known finding and was excluded from the search
    pub fn known_hit(&mut self, sig: &str) {
        if self.recording {
            *self.excluded_known.entry(sig.to_string()).or_insert(0) += 1;
        }
    }
    pub fn discard(&mut self) {
        if self.recording {
            self.discarded += 1;
        }
    }
    pub fn to_json(&self) -> Value {
        json!({
            "cases": self.cases, "evals": self.evals, "classes": self.classes,
            "nontrivial": self.nontrivial.iter().collect::<Vec<_>>(),
            "nontrivial_overflow": self.nontrivial_overflow,
            "samples": self.samples.iter().map(|(i, c, v)| json!([i, c, v])).collect::<Vec<_>>(),
            "excluded_known": self.excluded_known, "discarded": self.discarded,
            "sizes": self.sizes, "digest": self.digest,
            "dumps": self.dumps.iter().map(|(i, h)| json!([i, h])).collect::<Vec<_>>(),
        })
    }
    pub fn from_json(v: &Value) -> Stats {
        let mut st = Stats::default();
        st.cases = v["cases"].as_u64().unwrap_or(0);
        st.evals = v["evals"].as_u64().unwrap_or(0);
        if let Some(m) = v["classes"].as_object() {
            for (k, x) in m {
                st.classes.insert(k.clone(), x.as_u64().unwrap_or(0));
            }
        }
        if let Some(a) = v["nontrivial"].as_array() {
            st.nontrivial = a.iter().filter_map(|x| x.as_u64()).collect();
        }
        st.nontrivial_overflow = v["nontrivial_overflow"].as_u64().unwrap_or(0);
        if let Some(a) = v["samples"].as_array() {
            for s in a {
                st.samples.push((s[0].as_u64().unwrap_or(0), s[1].as_str().unwrap_or("").to_string(), s[2].clone()));
            }
        }
        if let Some(m) = v["excluded_known"].as_object() {
            for (k, x) in m {
                st.excluded_known.insert(k.clone(), x.as_u64().unwrap_or(0));
            }
        }
        st.discarded = v["discarded"].as_u64().unwrap_or(0);
        if let Some(a) = v["sizes"].as_array() {
            st.sizes = a.iter().filter_map(|x| x.as_u64()).map(|x| x as u32).collect();
        }
        st.digest = v["digest"].as_u64().unwrap_or(0);
        if let Some(a) = v["dumps"].as_array() {
            st.dumps = a.iter().map(|x| (x[0].as_u64().unwrap_or(0), x[1].as_u64().unwrap_or(0))).collect();
        }
        st
    }
    pub fn merge(&mut self, o: Stats) {
        self.cases += o.cases;
        self.evals += o.evals;
        for (k, v) in o.classes {
            *self.classes.entry(k).or_insert(0) += v;
        }
        for h in o.nontrivial {
            if self.nontrivial.len() < DISTINCT_CAP {
                self.nontrivial.insert(h);
            }
        }
        self.nontrivial_overflow += o.nontrivial_overflow;
        self.samples.extend(o.samples);
        for (k, v) in o.excluded_known {
            *self.excluded_known.entry(k).or_insert(0) += v;
        }
        self.discarded += o.discarded;
        self.digest = self.digest.wrapping_add(o.digest);
        self.dumps.extend(o.dumps);
        self.sizes.extend(o.sizes);
    }
}

// ---------------------------------------------------------------- panic capture

thread_local! {
    static LAST_PANIC: RefCell<Option<(String, String)>> = RefCell::new(None);
}

pub fn install_panic_hook() {
    panic::set_hook(Box::new(|info| {
        let loc = info
            .location()
            .map(|l| format!("{}:{}", l.file(), l.line()))
            .unwrap_or_else(|| "?".into());
        let msg = if let Some(s) = info.payload().downcast_ref::<&str>() {
            s.to_string()
        } else if let Some(s) = info.payload().downcast_ref::<String>() {
            s.clone()
        } else {
            "<non-string panic>".into()
        };
        LAST_PANIC.with(|p| *p.borrow_mut() = Some((loc, msg)));
    }));
}

/// Run `f`, turning a panic into (location, message).
pub fn catch<T>(f: impl FnOnce() -> T) -> Result<T, (String, String)> {
    LAST_PANIC.with(|p| *p.borrow_mut() = None);
    match panic::catch_unwind(AssertUnwindSafe(f)) {
        Ok(v) => Ok(v),
        Err(_) => Err(LAST_PANIC
            .with(|p| p.borrow_mut().take())
            .unwrap_or_else(|| ("?".into(), "panic".into()))),
    }
}

/// Strip the checkout prefix and line number so a signature survives edits.
pub fn panic_sig(loc: &str) -> String {
    let l = loc.rsplit_once(':').map(|x| x.0).unwrap_or(loc);
    // keep the path from `src/` on, wherever the checkout lives
    match l.find("/src/") {
        Some(i) if !l.starts_with("vh/") => l[i + 1..].to_string(),
        _ => l.trim_start_matches("/repo/").to_string(),
    }
}

// ---------------------------------------------------------------- Ctx

#[derive(Clone, Copy, PartialEq, Debug)]
pub enum Tier {
    Quick,
    Thorough,
}

#[derive(Clone, Debug)]
pub struct KnownFinding {
    pub property: String,
    pub signature: String,
    pub status: String,
    pub what: String,
    pub replay: Option<String>,
}

pub struct SubReport {
    pub max_len: usize,
    pub sub_seed: u64,
    pub name: String,
    pub rule: String,
    pub stats: Stats,
    pub exhaustive: bool,
    pub wall_s: f64,
}

pub struct Violation {
    pub sub: String,
    pub sig: String,
    pub replay_path: String,
}

pub struct Budget {
    pub quick: u64,
    pub thorough: u64,
    /// entropy bytes per case
    pub max_len: usize,
}

pub struct Ctx {
    pub prop: &'static str,
    pub tier: Tier,
    pub seed: u64,
    pub config: String,
    pub root: String, // /verif
    pub known: Vec<KnownFinding>,
    pub subs: Vec<SubReport>,
    pub violations: Vec<Violation>,
    pub known_lines: Vec<String>,
    pub notes: Vec<String>,
    pub infra_errors: Vec<String>,
    pub threads: usize,
    pub start: Instant,
    /// only run sub-checks whose name contains this (development aid)
    pub only: Option<String>,
    pub assumptions: Vec<String>,
    pub extra: BTreeMap<String, Value>,
    /// `vh replay <file>`: run only this (sub-check, entropy) in strict mode
    pub replay_entropy: Option<(String, Vec<u8>)>,
    pub replays: Vec<(String, Value)>,
    /// set in an E3 worker process: only this sub-check runs
    pub child_sub: Option<String>,
    /// fuzz mode: no progress lines on stdout
    pub quiet: bool,
}

pub fn verif_root() -> String {
    std::env::var("VERIF_ROOT").unwrap_or_else(|_| "/verif".into())
}

impl Ctx {
    pub fn new(prop: &'static str, tier: Tier) -> Ctx {
        let seed = std::env::var("VERIF_SEED")
            .ok()
            .and_then(|s| {
                let s = s.trim();
                if let Some(h) = s.strip_prefix("0x") {
                    u64::from_str_radix(h, 16).ok()
                } else {
                    s.parse::<u64>().ok().or_else(|| s.parse::<i64>().ok().map(|x| x as u64))
                }
            })
            .unwrap_or(0xC0FFEE);
        let root = verif_root();
        let known = load_known(&root, prop);
        let threads = std::env::var("VERIF_THREADS")
            .ok()
            .and_then(|s| s.parse().ok())
            .unwrap_or_else(|| {
                std::thread::available_parallelism().map(|n| n.get()).unwrap_or(4).min(16)
            });
        Ctx {
            prop,
            tier,
            seed,
            config: std::env::var("VH_CONFIG").unwrap_or_else(|_| "default".into()),
            root,
            known,
            subs: vec![],
            violations: vec![],
            known_lines: vec![],
            notes: vec![],
            infra_errors: vec![],
            threads,
            start: Instant::now(),
            only: std::env::var("VERIF_ONLY").ok(),
            assumptions: vec![],
            extra: BTreeMap::new(),
            replay_entropy: None,
            replays: if std::env::var("VH_CHILD_SUB").is_ok() { vec![] } else { load_replays(&verif_root(), prop) },
            child_sub: std::env::var("VH_CHILD_SUB").ok(),
            quiet: false,
        }
    }

    pub fn is_known(&self, sig: &str) -> bool {
        self.known.iter().any(|k| k.status == "known" && k.signature == sig)
    }

    pub fn cases(&self, b: &Budget) -> u64 {
        let n = match self.tier {
            Tier::Quick => b.quick,
            Tier::Thorough => b.thorough,
        };
        // VERIF_SCALE lets development runs shrink/grow budgets; never set by run.sh
        match std::env::var("VERIF_SCALE").ok().and_then(|s| s.parse::<f64>().ok()) {
            Some(f) => ((n as f64) * f).max(1.0) as u64,
            None => n,
        }
    }

    pub fn sub_seed(&self, sub: &str) -> u64 {
        mix64(self.seed ^ hash_str(self.prop).rotate_left(17) ^ hash_str(sub).rotate_left(41))
    }

    pub fn is_child(&self) -> bool {
        self.child_sub.is_some()
    }

    pub fn skip(&self, name: &str) -> bool {
        if let Some(c) = &self.child_sub {
            return c != name;
        }
        match &self.only {
            Some(o) => !name.contains(o.as_str()),
            None => false,
        }
    }

    /// Generated search: `f(src, stats)` decodes one case from the entropy,
    /// evaluates the oracle and returns Err(Fail) on a mismatch.
    pub fn check<F>(&mut self, name: &str, rule: &str, budget: Budget, f: F)
    where
        F: Fn(&mut Src, &mut Stats) -> Result<(), Fail> + Sync,
    {
        if self.skip(name) {
            return;
        }
        if let Some((sub, ent)) = self.replay_entropy.clone() {
            if sub == name {
                match self.run_entropy(&ent, &f) {
                    None => {
                        if !self.quiet {
                            println!("REPLAY-OK property={} subcheck={}", self.prop, name)
                        }
                    }
                    Some(fl) => self.report_failure(name, Some((0, &ent)), fl),
                }
                self.subs.push(SubReport {
                    max_len: 0,
            sub_seed: 0,
            name: name.to_string(),
                    rule: rule.to_string(),
                    stats: Stats { cases: 1, evals: 1, ..Stats::default() },
                    exhaustive: false,
                    wall_s: 0.0,
                });
            }
            return;
        }
        // committed entropy replays for this sub-check run first, strict
        let committed: Vec<(String, Vec<u8>)> = self
            .replays
            .iter()
            .filter(|(_, v)| v["kind"] == "entropy" && v["subcheck"] == name)
            .map(|(n, v)| (n.clone(), unhex(v["entropy_hex"].as_str().unwrap_or(""))))
            .collect();
        for (n, ent) in committed {
            let r = self.run_entropy(&ent, &f);
            self.replay_outcome(&n, r);
        }
        let t0 = Instant::now();
        let total = self.cases(&budget);
        let base = self.sub_seed(name);
        let stop = AtomicBool::new(false);
        let next = AtomicU64::new(0);
        let failures: Mutex<Vec<(u64, Vec<u8>, Fail)>> = Mutex::new(vec![]);
        let merged: Mutex<Stats> = Mutex::new(Stats::default());
        let nthreads = self.threads.max(1).min(total.max(1) as usize);
        let known_sigs: Vec<String> = self
            .known
            .iter()
            .filter(|k| k.status == "known")
            .map(|k| k.signature.clone())
            .collect();
        const CHUNK: u64 = 16;

        std::thread::scope(|s| {
            for _ in 0..nthreads {
                s.spawn(|| {
                    let stats = RefCell::new(Stats { recording: true, ..Stats::default() });
                    let strat = EntropyStrategy { max_len: budget.max_len };
                    loop {
                        if stop.load(Ordering::Relaxed) {
                            break;
                        }
                        let lo = next.fetch_add(CHUNK, Ordering::Relaxed);
                        if lo >= total {
                            break;
                        }
                        let hi = (lo + CHUNK).min(total);
                        for i in lo..hi {
                            if stop.load(Ordering::Relaxed) {
                                break;
                            }
                            let mut runner = runner_for(base, i);
                            let tree = match strat.new_tree(&mut runner) {
                                Ok(t) => t,
                                Err(_) => continue,
                            };
                            {
                                let mut st = stats.borrow_mut();
                                st.cur_case = i;
                                st.cases += 1;
                            }
                            let last_fail: RefCell<Option<Fail>> = RefCell::new(None);
                            let test = |e: Entropy| -> Result<(), TestCaseError> {
                                let r = {
                                    let mut st = stats.borrow_mut();
                                    let mut src = Src::new(&e.0);
                                    let st_ref: &mut Stats = &mut st;
                                    catch(|| f(&mut src, st_ref))
                                };
                                let r = match r {
                                    Ok(r) => r,
                                    Err((loc, msg)) => Err(Fail::new(
                                        format!("panic@{}", panic_sig(&loc)),
                                        json!({"panic": msg, "location": loc}),
                                    )),
                                };
                                match r {
                                    Ok(()) => Ok(()),
                                    Err(fl) => {
                                        if known_sigs.iter().any(|k| *k == fl.sig) {
                                            // open known finding: excluded, search goes on
                                            stats.borrow_mut().known_hit(&fl.sig);
                                            return Ok(());
                                        }
                                        stats.borrow_mut().recording = false;
                                        let sig = fl.sig.clone();
                                        *last_fail.borrow_mut() = Some(fl);
                                        Err(TestCaseError::fail(sig))
                                    }
                                }
                            };
                            let res = runner.run_one(tree, test);
                            if let Err(TestError::Fail(_, ent)) = res {
                                // re-run the minimal value once to get its own Fail
                                stats.borrow_mut().want_desc = true;
                                let _ = test(ent.clone());
                                let mut fl = last_fail
                                    .borrow_mut()
                                    .take()
                                    .unwrap_or_else(|| Fail::new("unknown", json!({})));
                                if let Some(d) = stats.borrow_mut().case_desc.take() {
                                    if let Some(m) = fl.detail.as_object_mut() {
                                        m.entry("case").or_insert(d);
                                    }
                                }
                                stats.borrow_mut().want_desc = false;
                                failures.lock().unwrap().push((i, ent.0, fl));
                                stop.store(true, Ordering::Relaxed);
                                break;
                            }
                        }
                    }
                    let mut st = stats.into_inner();
                    st.recording = true;
                    merged.lock().unwrap().merge(st);
                });
            }
        });

        let mut stats = merged.into_inner().unwrap();
        stats.samples.sort_by(|a, b| a.0.cmp(&b.0));
        let mut fl = failures.into_inner().unwrap();
        fl.sort_by(|a, b| a.0.cmp(&b.0));
        if let Some((idx, ent, f)) = fl.into_iter().next() {
            self.report_failure(name, Some((idx, &ent)), f);
        }
        self.subs.push(SubReport {
            max_len: budget.max_len,
            sub_seed: base,
            name: name.to_string(),
            rule: rule.to_string(),
            stats,
            exhaustive: false,
            wall_s: t0.elapsed().as_secs_f64(),
        });
    }

    /// Enumerated (non-random) families. `f` receives the shard index and the
    /// number of shards and must cover exactly the items assigned to its shard.
    pub fn exhaustive<F>(&mut self, name: &str, rule: &str, complete: bool, f: F)
    where
        F: Fn(usize, usize, &mut Stats) -> Result<(), Fail> + Sync,
    {
        if self.skip(name) || self.replay_entropy.is_some() {
            return;
        }
        let t0 = Instant::now();
        let n = self.threads.max(1);
        let failures: Mutex<Vec<Fail>> = Mutex::new(vec![]);
        let merged: Mutex<Stats> = Mutex::new(Stats::default());
        std::thread::scope(|s| {
            for shard in 0..n {
                let failures = &failures;
                let merged = &merged;
                let f = &f;
                s.spawn(move || {
                    let mut st = Stats { recording: true, ..Stats::default() };
                    let r = catch(|| f(shard, n, &mut st));
                    let r = match r {
                        Ok(r) => r,
                        Err((loc, msg)) => Err(Fail::new(
                            format!("panic@{}", panic_sig(&loc)),
                            json!({"panic": msg, "location": loc}),
                        )),
                    };
                    if let Err(fl) = r {
                        failures.lock().unwrap().push(fl);
                    }
                    merged.lock().unwrap().merge(st);
                });
            }
        });
        let mut stats = merged.into_inner().unwrap();
        stats.cases = stats.cases.max(1);
        let mut fl = failures.into_inner().unwrap();
        fl.sort_by(|a, b| a.sig.cmp(&b.sig));
        // a known-signature failure in one shard must not mask a new one in another
        stats.recording = true;
        let mut reported = false;
        for f in fl.into_iter() {
            if self.is_known(&f.sig) {
                stats.known_hit(&f.sig);
            } else if !reported {
                self.report_failure(name, None, f);
                reported = true;
            }
        }
        self.subs.push(SubReport {
            max_len: 0,
            sub_seed: 0,
            name: name.to_string(),
            rule: rule.to_string(),
            stats,
            exhaustive: complete,
            wall_s: t0.elapsed().as_secs_f64(),
        });
    }

    /// Record a failure found outside `check` (CLI batches, matrix diffs...).
    pub fn report_failure(&mut self, sub: &str, entropy: Option<(u64, &[u8])>, f: Fail) {
        if self.is_known(&f.sig) {
            return;
        }
        let dir = format!("{}/out/{}", self.root, self.prop);
        let _ = std::fs::create_dir_all(&dir);
        let h = hash_str(&format!("{}|{}|{}", sub, f.sig, f.detail));
        let path = format!("{}/{}-{:016x}.json", dir, sanitize(sub), h);
        let mut doc = json!({
            "property": self.prop,
            "subcheck": sub,
            "kind": if entropy.is_some() { "entropy" } else { "detail" },
            "seed": self.seed,
            "tier": format!("{:?}", self.tier).to_lowercase(),
            "config": self.config,
            "signature": f.sig,
            "detail": f.detail,
        });
        if let Some((idx, e)) = entropy {
            doc["case_index"] = json!(idx);
            doc["entropy_hex"] = json!(hex(e));
        }
        let _ = std::fs::write(&path, serde_json::to_string_pretty(&doc).unwrap());
        self.violations.push(Violation { sub: sub.to_string(), sig: f.sig, replay_path: path });
    }

    /// Run one explicit case (a committed replay or an entropy replay) through
    /// the same closure in strict mode. Returns the Fail if it fails.
    pub fn run_entropy<F>(&self, ent: &[u8], f: F) -> Option<Fail>
    where
        F: Fn(&mut Src, &mut Stats) -> Result<(), Fail>,
    {
        let mut st = Stats { want_desc: true, ..Stats::default() };
        let mut src = Src::new(ent);
        let r = catch(|| f(&mut src, &mut st));
        if let Some(d) = st.last_dump.take() {
            // E5 replay: the driver compares these files across configurations
            let path = format!("{}/out/replay-dump.{}.txt", self.root, self.config);
            let _ = std::fs::write(&path, &d);
            println!("REPLAY-DUMP config={} digest={:016x} file={}", self.config, hash_str(&d), path);
        }
        match r {
            Ok(Ok(())) => None,
            Ok(Err(mut fl)) => {
                if let (Some(d), Some(m)) = (st.case_desc.take(), fl.detail.as_object_mut()) {
                    m.entry("case").or_insert(d);
                }
                Some(fl)
            }
            Err((loc, msg)) => Some(Fail::new(
                format!("panic@{}", panic_sig(&loc)),
                json!({"panic": msg, "location": loc}),
            )),
        }
    }

    /// Outcome of a committed structured replay.
    /// `result` = None when the case passes, Some(fail) otherwise.
    pub fn replay_outcome(&mut self, replay_name: &str, result: Option<Fail>) {
        let mut st = Stats { recording: true, ..Stats::default() };
        st.cases = 1;
        st.evals = 1;
        match result {
            None => {}
            Some(f) => {
                if let Some(k) = self.known.iter().find(|k| k.status == "known" && k.signature == f.sig)
                {
                    self.known_lines
                        .push(format!("KNOWN-FINDING: property={} {} [{}]", self.prop, k.what, k.signature));
                } else {
                    self.report_failure(&format!("replay:{}", replay_name), None, f);
                }
            }
        }
        // fold replays into a single pseudo sub-report
        if let Some(s) = self.subs.iter_mut().find(|s| s.name == "replays") {
            s.stats.cases += 1;
            s.stats.evals += 1;
        } else {
            self.subs.push(SubReport {
                max_len: 0,
                sub_seed: 0,
                name: "replays".into(),
                rule: "committed regression inputs, run before the search".into(),
                stats: st,
                exhaustive: false,
                wall_s: 0.0,
            });
        }
    }

    pub fn note(&mut self, s: impl Into<String>) {
        self.notes.push(s.into());
    }
    pub fn infra(&mut self, s: impl Into<String>) {
        self.infra_errors.push(s.into());
    }
    pub fn assume(&mut self, s: &str) {
        self.assumptions.push(s.to_string());
    }

    /// Require that an essential class was reached (generator regression guard).
    pub fn require_class(&mut self, sub: &str, class: &str, min: u64) {
        if self.skip(sub) || self.replay_entropy.is_some() {
            return;
        }
        // development-only budget scaling makes class counts meaningless
        if std::env::var("VERIF_SCALE").is_ok() {
            return;
        }
        let got = self
            .subs
            .iter()
            .find(|s| s.name == sub)
            .and_then(|s| s.stats.classes.get(class).copied())
            .unwrap_or(0);
        // a sub-check that stopped at a violation has incomplete counts
        if got < min && self.violations.is_empty() {
            self.infra(format!(
                "generator regression: class '{}' of '{}' reached {} < {} cases",
                class, sub, got, min
            ));
        }
    }

    /// Write evidence, print verdict lines, return the exit code.
    pub fn finish(self, property_rule: &str) -> i32 {
        let wall = self.start.elapsed().as_secs_f64();
        let mut evaluations: u64 = 0;
        let mut distinct: u64 = 0;
        let mut samples: Vec<Value> = vec![];
        let mut subs_json = serde_json::Map::new();
        let mut all_exhaustive = !self.subs.is_empty();
        let mut excluded: BTreeMap<String, u64> = BTreeMap::new();
        for s in &self.subs {
            evaluations += s.stats.evals.max(s.stats.cases);
            distinct += s.stats.nontrivial.len() as u64;
            if !s.exhaustive && s.name != "replays" {
                all_exhaustive = false;
            }
            let mut taken = 0;
            for (idx, class, v) in &s.stats.samples {
                if taken >= MAX_SAMPLES {
                    break;
                }
                samples.push(json!({"subcheck": s.name, "case": idx, "class": class, "input": v}));
                taken += 1;
            }
            let mut sizes = s.stats.sizes.clone();
            sizes.sort();
            let size_summary = if sizes.is_empty() {
                Value::Null
            } else {
                json!({"min": sizes[0], "median": sizes[sizes.len()/2], "max": sizes[sizes.len()-1]})
            };
            for (k, v) in &s.stats.excluded_known {
                *excluded.entry(k.clone()).or_insert(0) += v;
            }
            subs_json.insert(
                s.name.clone(),
                json!({
                    "rule": s.rule,
                    "cases": s.stats.cases,
                    "evaluations": s.stats.evals.max(s.stats.cases),
                    "distinct_nontrivial": s.stats.nontrivial.len(),
                    "classes": s.stats.classes,
                    "sizes": size_summary,
                    "excluded_known_finding_cases": s.stats.excluded_known,
                    "discarded": s.stats.discarded,
                    "answers_digest": format!("{:016x}", s.stats.digest),
                    "per_case_dump_digests": s.stats.dumps.len(),
                    "max_entropy_len": s.max_len,
                    "sub_seed": format!("{:016x}", s.sub_seed),
                    "exhaustive": s.exhaustive,
                    "wall_s": (s.wall_s * 1000.0).round() / 1000.0,
                }),
            );
        }
        // keep the evidence file readable
        if samples.len() > 40 {
            let step = samples.len() / 40 + 1;
            samples = samples.into_iter().step_by(step).collect();
        }
        let viol_json: Vec<Value> = self
            .violations
            .iter()
            .map(|v| json!({"subcheck": v.sub, "signature": v.sig, "replay": v.replay_path}))
            .collect();
        let mut coverage = json!({
            "evaluations": evaluations,
            "distinct_nontrivial": distinct,
            "rule": property_rule,
            "samples": samples,
            "exhaustive": all_exhaustive,
            "subchecks": Value::Object(subs_json),
            "config": self.config,
            "threads": self.threads,
            "known_findings_reported": self.known_lines,
            "excluded_known_finding_cases": excluded,
            "notes": self.notes,
            "violations_detail": viol_json,
            "infrastructure_errors": self.infra_errors,
        });
        for (k, v) in &self.extra {
            coverage[k.as_str()] = v.clone();
        }
        let ev = json!({
            "property_id": self.prop,
            "tier": if self.tier == Tier::Quick { "quick" } else { "thorough" },
            "seed": self.seed,
            "level": "exploration",
            "coverage": coverage,
            "assumptions": self.assumptions,
            "wall_s": (wall * 1000.0).round() / 1000.0,
            "violations": self.violations.len(),
        });
        let evpath = std::env::var("VH_EVIDENCE_OUT")
            .unwrap_or_else(|_| format!("{}/evidence/{}.json", self.root, self.prop));
        if let Some(parent) = std::path::Path::new(&evpath).parent() {
            let _ = std::fs::create_dir_all(parent);
        }
        for s in &self.subs {
            if !s.stats.dumps.is_empty() {
                let mut d = s.stats.dumps.clone();
                d.sort();
                let mut txt = String::with_capacity(d.len() * 28);
                for (i, h) in d {
                    txt.push_str(&format!("{} {:016x}\n", i, h));
                }
                let _ = std::fs::write(format!("{}.{}.digests", evpath, sanitize(&s.name)), txt);
            }
        }
        if let Err(e) = std::fs::write(&evpath, serde_json::to_string_pretty(&ev).unwrap() + "\n") {
            eprintln!("cannot write evidence {}: {}", evpath, e);
            return 2;
        }
        for l in &self.known_lines {
            println!("{}", l);
        }
        for n in &self.notes {
            eprintln!("note: {}", n);
        }
        let mut seen = HashSet::new();
        for v in &self.violations {
            if seen.insert(v.sig.clone()) {
                println!("VIOLATION property={} replay={}", self.prop, v.replay_path);
                eprintln!("  subcheck={} signature={}", v.sub, v.sig);
            }
        }
        if !self.violations.is_empty() {
            return 1;
        }
        if !self.infra_errors.is_empty() {
            for e in &self.infra_errors {
                eprintln!("INCONCLUSIVE property={} {}", self.prop, e);
            }
            return 2;
        }
        println!(
            "OK property={} tier={:?} config={} evaluations={} distinct_nontrivial={} wall_s={:.1}",
            self.prop, self.tier, self.config, evaluations, distinct, wall
        );
        0
    }
}

pub fn sanitize(s: &str) -> String {
    s.chars().map(|c| if c.is_ascii_alphanumeric() || c == '-' || c == '_' { c } else { '_' }).collect()
}

pub fn runner_for(base: u64, case: u64) -> TestRunner {
    let mut seed = [0u8; 32];
    let mut x = mix64(base ^ mix64(case));
    for ch in seed.chunks_mut(8) {
        x = mix64(x);
        ch.copy_from_slice(&x.to_le_bytes());
    }
    let cfg = Config {
        cases: 1,
        failure_persistence: None,
        max_shrink_iters: shrink_iters(),
        max_shrink_time: 0,
        verbose: 0,
        ..Config::default()
    };
    TestRunner::new_with_rng(cfg, TestRng::from_seed(RngAlgorithm::ChaCha, &seed))
}

fn shrink_iters() -> u32 {
    static V: std::sync::OnceLock<u32> = std::sync::OnceLock::new();
    *V.get_or_init(|| {
        std::env::var("VERIF_SHRINK_ITERS").ok().and_then(|s| s.parse().ok()).unwrap_or(3000)
    })
}

pub fn load_known(root: &str, prop: &str) -> Vec<KnownFinding> {
    static CACHE: Mutex<Option<BTreeMap<String, Vec<KnownFinding>>>> = Mutex::new(None);
    let key = format!("{}|{}", root, prop);
    if let Some(v) = CACHE.lock().unwrap().as_ref().and_then(|m| m.get(&key).cloned()) {
        return v;
    }
    let v = load_known_uncached(root, prop);
    CACHE.lock().unwrap().get_or_insert_with(BTreeMap::new).insert(key, v.clone());
    v
}

fn load_known_uncached(root: &str, prop: &str) -> Vec<KnownFinding> {
    let p = format!("{}/known_findings.json", root);
    let txt = match std::fs::read_to_string(&p) {
        Ok(t) => t,
        Err(_) => return vec![],
    };
    let v: Value = match serde_json::from_str(&txt) {
        Ok(v) => v,
        Err(e) => {
            eprintln!("known_findings.json unreadable: {}", e);
            return vec![];
        }
    };
    let mut out = vec![];
    if let Some(a) = v.get("findings").and_then(|x| x.as_array()).or_else(|| v.as_array()) {
        for k in a {
            let g = |n: &str| k.get(n).and_then(|x| x.as_str()).unwrap_or("").to_string();
            if g("property") == prop {
                out.push(KnownFinding {
                    property: g("property"),
                    signature: g("signature"),
                    status: g("status"),
                    what: g("what"),
                    replay: k.get("replay").and_then(|x| x.as_str()).map(|s| s.to_string()),
                });
            }
        }
    }
    out
}

/// Committed replays for a property: (file name, parsed JSON).
pub fn load_replays(root: &str, prop: &str) -> Vec<(String, Value)> {
    let dir = format!("{}/replays/{}", root, prop);
    let mut out = vec![];
    if let Ok(rd) = std::fs::read_dir(&dir) {
        let mut names: Vec<_> = rd.filter_map(|e| e.ok()).map(|e| e.path()).collect();
        names.sort();
        for p in names {
            if p.extension().and_then(|e| e.to_str()) != Some("json") {
                continue;
            }
            if let Ok(t) = std::fs::read_to_string(&p) {
                if let Ok(v) = serde_json::from_str::<Value>(&t) {
                    out.push((p.file_name().unwrap().to_string_lossy().to_string(), v));
                }
            }
        }
    }
    out
}
