//! Merge per-configuration evidence parts (E5 matrix) into evidence/<id>.json.
use serde_json::{json, Value};

pub fn merge(prop: &str, tier: &str, parts: &[String]) -> i32 {
    let root = crate::engine::verif_root();
    let mut evaluations = 0u64;
    let mut distinct = 0u64;
    let mut samples: Vec<Value> = vec![];
    let mut subchecks = serde_json::Map::new();
    let mut configs = vec![];
    let mut wall = 0f64;
    let mut violations = 0i64;
    let mut seed = 0i64;
    let mut rule = String::new();
    let mut assumptions: Vec<Value> = vec![];
    let mut known: Vec<Value> = vec![];
    let mut notes: Vec<Value> = vec![];
    let mut viol_detail: Vec<Value> = vec![];
    let mut infra: Vec<Value> = vec![];
    let mut exhaustive = true;
    let mut missing = false;
    for p in parts {
        let txt = match std::fs::read_to_string(p) {
            Ok(t) => t,
            Err(e) => {
                eprintln!("merge: cannot read {}: {}", p, e);
                missing = true;
                continue;
            }
        };
        let v: Value = match serde_json::from_str(&txt) {
            Ok(v) => v,
            Err(e) => {
                eprintln!("merge: {} unreadable: {}", p, e);
                missing = true;
                continue;
            }
        };
        let cov = &v["coverage"];
        let cfg = cov["config"].as_str().unwrap_or("?").to_string();
        evaluations += cov["evaluations"].as_u64().unwrap_or(0);
        // the same seeded case stream runs in every configuration: distinct inputs
        // are counted once (max), not summed
        distinct = distinct.max(cov["distinct_nontrivial"].as_u64().unwrap_or(0));
        if samples.is_empty() {
            samples = cov["samples"].as_array().cloned().unwrap_or_default();
        }
        if let Some(m) = cov["subchecks"].as_object() {
            for (k, s) in m {
                subchecks.insert(format!("{}@{}", k, cfg), s.clone());
            }
        }
        exhaustive &= cov["exhaustive"].as_bool().unwrap_or(false);
        configs.push(json!(cfg));
        wall += v["wall_s"].as_f64().unwrap_or(0.0);
        violations += v["violations"].as_i64().unwrap_or(0);
        seed = v["seed"].as_i64().unwrap_or(0);
        if rule.is_empty() {
            rule = cov["rule"].as_str().unwrap_or("").to_string();
        }
        for a in v["assumptions"].as_array().cloned().unwrap_or_default() {
            if !assumptions.contains(&a) {
                assumptions.push(a);
            }
        }
        for a in cov["known_findings_reported"].as_array().cloned().unwrap_or_default() {
            if !known.contains(&a) {
                known.push(a);
            }
        }
        for a in cov["notes"].as_array().cloned().unwrap_or_default() {
            notes.push(json!(format!("[{}] {}", cfg, a.as_str().unwrap_or(""))));
        }
        for a in cov["violations_detail"].as_array().cloned().unwrap_or_default() {
            viol_detail.push(a);
        }
        for a in cov["infrastructure_errors"].as_array().cloned().unwrap_or_default() {
            infra.push(a);
        }
    }
    // E5: per-case dump digests must be identical in every configuration
    let mut digest_subs: Vec<String> = vec![];
    if let Some(first) = parts.first() {
        if let Some(dir) = std::path::Path::new(first).parent() {
            if let Ok(rd) = std::fs::read_dir(dir) {
                let fname = std::path::Path::new(first).file_name().unwrap().to_string_lossy().to_string();
                for e in rd.filter_map(|e| e.ok()) {
                    let n = e.file_name().to_string_lossy().to_string();
                    if let Some(rest) = n.strip_prefix(&format!("{}.", fname)) {
                        if let Some(sub) = rest.strip_suffix(".digests") {
                            digest_subs.push(sub.to_string());
                        }
                    }
                }
            }
        }
    }
    digest_subs.sort();
    let mut cross_checked = 0u64;
    if violations == 0 && !missing {
        for sub in &digest_subs {
            let mut tables: Vec<(String, Vec<(u64, String)>)> = vec![];
            for (p, cfg) in parts.iter().zip(configs.iter()) {
                let txt = std::fs::read_to_string(format!("{}.{}.digests", p, sub)).unwrap_or_default();
                let rows: Vec<(u64, String)> = txt
                    .lines()
                    .filter_map(|l| l.split_once(' ').map(|(a, b)| (a.parse().unwrap_or(u64::MAX), b.to_string())))
                    .collect();
                tables.push((cfg.as_str().unwrap_or("?").to_string(), rows));
            }
            let (c0, t0) = &tables[0];
            for (c, t) in &tables[1..] {
                cross_checked += t.len() as u64;
                let diff = if t.len() != t0.len() {
                    Some(t0.len().min(t.len()) as u64)
                } else {
                    t0.iter().zip(t.iter()).find(|(a, b)| a != b).map(|(a, _)| a.0)
                };
                if let Some(case) = diff {
                    // regenerate the case's entropy from (sub seed, case index)
                    let key = subchecks.keys().find(|k| crate::engine::sanitize(k.split('@').next().unwrap_or("")) == *sub).cloned();
                    let (max_len, seedhex, subname) = key
                        .as_ref()
                        .map(|k| {
                            let s = &subchecks[k];
                            (
                                s["max_entropy_len"].as_u64().unwrap_or(0) as usize,
                                s["sub_seed"].as_str().unwrap_or("0").to_string(),
                                k.split('@').next().unwrap_or("").to_string(),
                            )
                        })
                        .unwrap_or((0, "0".into(), sub.clone()));
                    let base = u64::from_str_radix(&seedhex, 16).unwrap_or(0);
                    let ent = crate::isolate::entropy_for(base, case, max_len);
                    let dir = format!("{}/out/{}", root, prop);
                    let _ = std::fs::create_dir_all(&dir);
                    let path = format!("{}/{}-cross-config-{}.json", dir, sub, case);
                    let doc = json!({
                        "property": prop, "subcheck": subname, "kind": "entropy", "tier": tier, "seed": seed,
                        "signature": format!("{}/{}/cross-config-mismatch", prop, sub),
                        "detail": {"configs": [c0, c], "case_index": case,
                                   "note": "per-case dump digests differ between configurations; ./run.sh replay <this file> prints both dumps"},
                        "case_index": case, "entropy_hex": crate::engine::hex(&ent),
                    });
                    let _ = std::fs::write(&path, serde_json::to_string_pretty(&doc).unwrap());
                    println!("VIOLATION property={} replay={}", prop, path);
                    viol_detail.push(json!({"subcheck": subname, "signature": doc["signature"], "replay": path}));
                    violations += 1;
                    break;
                }
            }
        }
    }
    let ev = json!({
        "property_id": prop,
        "tier": tier,
        "seed": seed,
        "level": "exploration",
        "coverage": {
            "evaluations": evaluations,
            "distinct_nontrivial": distinct,
            "rule": rule,
            "samples": samples,
            "exhaustive": exhaustive,
            "configurations": configs,
            "subchecks": Value::Object(subchecks),
            "known_findings_reported": known,
            "cross_config_case_digests_compared": cross_checked,
            "notes": notes,
            "violations_detail": viol_detail,
            "infrastructure_errors": infra,
        },
        "assumptions": assumptions,
        "wall_s": (wall * 1000.0).round() / 1000.0,
        "violations": violations,
    });
    let path = format!("{}/evidence/{}.json", root, prop);
    let _ = std::fs::create_dir_all(format!("{}/evidence", root));
    if let Err(e) = std::fs::write(&path, serde_json::to_string_pretty(&ev).unwrap() + "\n") {
        eprintln!("merge: cannot write {}: {}", path, e);
        return 2;
    }
    if violations > 0 {
        return 1;
    }
    if missing {
        return 2;
    }
    0
}
