//! Merge per-configuration evidence parts (E5 matrix) into evidence/<id>.json.
use serde_json::{json, Value};

pub fn merge(prop: &str, tier: &str, parts: &[String]) -> i32 {
    let root = crate::engine::verif_root();
    let mut evaluations = 0u64;
    let mut distinct = 0u64;
    let mut samples: Vec<Value> = vec![];
    let mut subchecks = serde_json::Map::new();
    let mut configs = vec![];
    let mut wall = 0f64;
    let mut violations = 0i64;
    let mut seed = 0i64;
    let mut rule = String::new();
    let mut assumptions: Vec<Value> = vec![];
    let mut known: Vec<Value> = vec![];
    let mut notes: Vec<Value> = vec![];
    let mut viol_detail: Vec<Value> = vec![];
    let mut infra: Vec<Value> = vec![];
    let mut exhaustive = true;
    let mut missing = false;
    for p in parts {
        let txt = match std::fs::read_to_string(p) {
            Ok(t) => t,
            Err(e) => {
                eprintln!("merge: cannot read {}: {}", p, e);
                missing = true;
                continue;
            }
        };
        let v: Value = match serde_json::from_str(&txt) {
            Ok(v) => v,
            Err(e) => {
                eprintln!("merge: {} unreadable: {}", p, e);
                missing = true;
                continue;
            }
        };
        let cov = &v["coverage"];
        let cfg = cov["config"].as_str().unwrap_or("?").to_string();
        evaluations += cov["evaluations"].as_u64().unwrap_or(0);
        // the same seeded case stream runs in every configuration: distinct inputs
        // are counted once (max), not summed
        distinct = distinct.max(cov["distinct_nontrivial"].as_u64().unwrap_or(0));
        if samples.is_empty() {
            samples = cov["samples"].as_array().cloned().unwrap_or_default();
        }
        if let Some(m) = cov["subchecks"].as_object() {
            for (k, s) in m {
                subchecks.insert(format!("{}@{}", k, cfg), s.clone());
            }
        }
        exhaustive &= cov["exhaustive"].as_bool().unwrap_or(false);
        configs.push(json!(cfg));
        wall += v["wall_s"].as_f64().unwrap_or(0.0);
        violations += v["violations"].as_i64().unwrap_or(0);
        seed = v["seed"].as_i64().unwrap_or(0);
        if rule.is_empty() {
            rule = cov["rule"].as_str().unwrap_or("").to_string();
        }
        for a in v["assumptions"].as_array().cloned().unwrap_or_default() {
            if !assumptions.contains(&a) {
                assumptions.push(a);
            }
        }
        for a in cov["known_findings_reported"].as_array().cloned().unwrap_or_default() {
            if !known.contains(&a) {
                known.push(a);
            }
        }
        for a in cov["notes"].as_array().cloned().unwrap_or_default() {
            notes.push(json!(format!("[{}] {}", cfg, a.as_str().unwrap_or(""))));
        }
        for a in cov["violations_detail"].as_array().cloned().unwrap_or_default() {
            viol_detail.push(a);
        }
        for a in cov["infrastructure_errors"].as_array().cloned().unwrap_or_default() {
            infra.push(a);
        }
    }
    let ev = json!({
        "property_id": prop,
        "tier": tier,
        "seed": seed,
        "level": "exploration",
        "coverage": {
            "evaluations": evaluations,
            "distinct_nontrivial": distinct,
            "rule": rule,
            "samples": samples,
            "exhaustive": exhaustive,
            "configurations": configs,
            "subchecks": Value::Object(subchecks),
            "known_findings_reported": known,
            "notes": notes,
            "violations_detail": viol_detail,
            "infrastructure_errors": infra,
        },
        "assumptions": assumptions,
        "wall_s": (wall * 1000.0).round() / 1000.0,
        "violations": violations,
    });
    let path = format!("{}/evidence/{}.json", root, prop);
    let _ = std::fs::create_dir_all(format!("{}/evidence", root));
    if let Err(e) = std::fs::write(&path, serde_json::to_string_pretty(&ev).unwrap() + "\n") {
        eprintln!("merge: cannot write {}: {}", path, e);
        return 2;
    }
    if missing {
        return 2;
    }
    0
}
