//! C26 — yq results do not depend on the input's syntax (DESIGN §4 C26). Black-box, engine E2.
//!
//! One case = (data tree with string/int/bool/null leaves, unique keys, no YAML-only
//! device; presentation-agnostic program). The tree is rendered three ways —
//! JSON (G-json renderer: random white space in every gap, every escape form, surrogate
//! pairs), block YAML and flow YAML (G-yaml `block_only()` / `flow_only()`) — and
//!
//! ```text
//! succinctly yq -o json -I0 --from-file prog [-p json|yaml] <file>
//! ```
//!
//! runs on each (the format is given either by `-p` or by the file extension, drawn per case).
//! Oracle (differential, from the statement): identical exit status, identical stdout
//! *values* (O-jsonval: numbers as doubles, object fields in order), identical error text
//! (first line of stderr with the input path masked). Exit 101 / death by signal is a
//! violation; a watchdog timeout discards the case. Byte differences between outputs whose
//! values are equal are counted (`bytes-differ-values-equal`) but not asserted: the
//! statement speaks of values.
//!
//! Sub-checks: `three-syntaxes` (the search; shapes of C26's open findings are not generated
//! while they are listed as `known` — flags derived from known_findings.json) and
//! `open-finding-shapes` (the same search with those shapes generated: every failure must
//! carry a listed signature).
//!
//! Attribution (`check_case`): a failing case is renamed to a finding's signature only if it
//! *passes* once that finding's shape is removed while the tree stays the same — surrogate
//! pair escapes written raw, line breaks after bare JSON scalars reduced to one — or, for the
//! tab finding, if the JSON route reports
//! "tab character used for indentation" and the text has a tab outside its root value.
//!
//! Not part of the presentation-agnostic fragment (see `gen::yqprog::guard_text_reading_builtins`):
//! `length` of a number, `reverse` of a boolean / null / number and `tonumber` of a boolean /
//! null read the scalar's *source spelling* in yq semantics (`+28 | length` is 3, `28 | length`
//! is 2; `True | reverse` is "eurT"), and G-yaml spells the same value in several ways
//! (`+28`, `True`, `~`). The generator applies these builtins to the other types only.
//!
//! Structured replays: `{"input": {"json", "block_yaml", "flow_yaml", "program"}}` (texts, or
//! `*_hex`). Development aid: `VH_C26_SURVEY=<file>` logs every failure and keeps searching.
use crate::cli;
use crate::engine::*;
use crate::gen::json::{self as gj, j_eq, to_compact, J};
use crate::gen::yaml::{self as gy, YOpts, Y};
use crate::gen::yqprog::{self, CoreProg};
use crate::oracle::jsonval;
use serde_json::{json, Value};
use std::sync::atomic::{AtomicU64, Ordering};

pub const RULE: &str = "data trees (string/int/bool/null leaves, unique keys, depth <= 5, G-yaml full string palette) rendered as JSON (random gaps and escapes), block YAML and flow YAML, x presentation-agnostic programs (paths, iteration, pipes, comma, construction, integer arithmetic, comparison, boolean operators, //, if, select, map, keys, length, type, to_entries, has, sort, add, group/unique/min/max, string functions, simple writes) drawn from the tree's own keys, indices and values. Oracle: `yq -o json -I0 prog` gives the same exit status, the same values (O-jsonval) and the same error text on all three renderings. Non-trivial: program with >= 2 nodes on a tree of depth >= 2; distinct by hash(tree, program).";

static TIMEOUTS: AtomicU64 = AtomicU64::new(0);

#[derive(Clone, Debug)]
pub struct Case {
    pub json: Vec<u8>,
    pub block: Vec<u8>,
    pub flow: Vec<u8>,
    pub program: String,
    /// give the format with `-p` (true) or through the file extension (false)
    pub explicit_format: bool,
}

fn trunc(s: &str, n: usize) -> String {
    if s.chars().count() > n {
        format!("{}...", s.chars().take(n).collect::<String>())
    } else {
        s.to_string()
    }
}

fn tmp_named(stem: &str, ext: &str, data: &[u8]) -> std::path::PathBuf {
    let mut p = cli::tmp_file(stem).into_os_string();
    p.push(ext);
    let p = std::path::PathBuf::from(p);
    std::fs::write(&p, data).expect("write temp file");
    p
}

fn spawn(args: &[&str]) -> Option<cli::CliOut> {
    let mut o = cli::run(args, None);
    if o.timed_out {
        o = cli::run(args, None);
    }
    if o.timed_out {
        TIMEOUTS.fetch_add(1, Ordering::Relaxed);
        return None;
    }
    Some(o)
}

struct RouteOut {
    name: &'static str,
    out: cli::CliOut,
    /// first message line of stderr with the input path masked
    err: String,
}

fn run_route(name: &'static str, text: &[u8], json: bool, explicit: bool, prog_path: &str) -> Option<RouteOut> {
    let ext = if explicit { ".dat" } else if json { ".json" } else { ".yaml" };
    let f = tmp_named("c26", ext, text);
    let fs = f.to_string_lossy().to_string();
    let mut args: Vec<&str> = vec!["yq", "-o", "json", "-I0", "--from-file", prog_path];
    if explicit {
        args.push("-p");
        args.push(if json { "json" } else { "yaml" });
    }
    args.push(&fs);
    let out = spawn(&args);
    let _ = std::fs::remove_file(&f);
    let out = out?;
    let stderr = out.stderr_str();
    let line = stderr.lines().find(|l| !l.trim().is_empty()).unwrap_or("").replace(&fs, "<FILE>");
    Some(RouteOut { name, out, err: trunc(&line, 300) })
}

/// Open finding: a JSON text with a tab in the white space *around* its root value (before
/// the first or after the last token) can be rejected with "tab character used for
/// indentation": `[1,2]\n\t`, `"a"\t`, `\t"a"`, `\n\ttrue`. Tabs inside the brackets are fine.
const SIG_JSON_OUTER_TAB: &str = "C26/json-input-rejected/tab-outside-root-value";

/// (start, end) of the root value's text: first and one-past-last non-white-space byte
fn root_extent(json: &[u8]) -> (usize, usize) {
    let ws = |b: &u8| matches!(b, b' ' | b'\t' | b'\n' | b'\r');
    let s = json.iter().position(|b| !ws(b)).unwrap_or(json.len());
    let e = json.iter().rposition(|b| !ws(b)).map(|p| p + 1).unwrap_or(s);
    (s, e)
}

/// a tab before the first or after the last token; with `fix` those tabs become spaces
fn tab_outside_root(json: &mut [u8], fix: bool) -> bool {
    let (s, e) = root_extent(json);
    let mut found = false;
    for i in (0..s).chain(e..json.len()) {
        if json[i] == b'\t' {
            found = true;
            if fix {
                json[i] = b' ';
            }
        }
    }
    found
}

/// Open finding: a number / `true` / `false` / `null` followed by white space with two or
/// more line breaks (a blank line) inside a JSON array or object is read as a string with
/// the folded line break attached (`[1\n\n]` gives `["1\n"]`).
const SIG_JSON_BLANK_LINE: &str = "C26/json-input-misread/bare-scalar-before-blank-line";

/// Gaps after bare (unquoted) JSON tokens that contain two or more line-break bytes.
/// With `fix`, every line-break byte after the first in such a gap becomes a space
/// (the text stays the same JSON value, the same length). Returns whether the shape occurred.
fn bare_scalar_before_blank_line(json: &mut [u8], fix: bool) -> bool {
    let mut found = false;
    let mut i = 0;
    let mut in_str = false;
    while i < json.len() {
        let b = json[i];
        if in_str {
            if b == b'\\' {
                i += 1;
            } else if b == b'"' {
                in_str = false;
            }
            i += 1;
            continue;
        }
        if b == b'"' {
            in_str = true;
            i += 1;
            continue;
        }
        let bare = b.is_ascii_alphanumeric() || matches!(b, b'.' | b'+' | b'-');
        if bare && i + 1 < json.len() && matches!(json[i + 1], b' ' | b'\t' | b'\n' | b'\r') {
            let mut k = i + 1;
            let mut breaks = 0;
            while k < json.len() && matches!(json[k], b' ' | b'\t' | b'\n' | b'\r') {
                if json[k] == b'\n' || json[k] == b'\r' {
                    breaks += 1;
                    if breaks >= 2 {
                        found = true;
                        if fix {
                            json[k] = b' ';
                        }
                    }
                }
                k += 1;
            }
            i = k;
            continue;
        }
        i += 1;
    }
    found
}

/// digits -> N: a stable shape of an error message
fn err_shape(msg: &str) -> String {
    let mut out = String::new();
    let mut last_n = false;
    for c in msg.chars() {
        if c.is_ascii_digit() {
            if !last_n {
                out.push('N');
            }
            last_n = true;
        } else {
            last_n = false;
            out.push(c);
        }
    }
    trunc(&out, 160)
}

#[derive(Debug, PartialEq, Clone, Copy)]
pub enum Outcome {
    /// all three succeeded with `n` equal values
    Values(usize),
    /// all three failed alike
    Errors,
    Discarded,
}

fn first_diff(a: &J, b: &J) -> String {
    match (a, b) {
        (J::Arr(x), J::Arr(y)) => {
            for (u, v) in x.iter().zip(y.iter()) {
                if !j_eq(u, v) {
                    return first_diff(u, v);
                }
            }
            "array-length".into()
        }
        (J::Obj(x), J::Obj(y)) => {
            for ((k1, u), (k2, v)) in x.iter().zip(y.iter()) {
                if k1 != k2 {
                    return "object-key".into();
                }
                if !j_eq(u, v) {
                    return first_diff(u, v);
                }
            }
            "object-length".into()
        }
        _ if a.kind() == b.kind() => format!("{}-value", a.kind()),
        _ => format!("{}-vs-{}", a.kind(), b.kind()),
    }
}

/// Open finding: a `😀`-style surrogate pair escape in a JSON string is not
/// decoded (the string evaluates to null; `yq -o json .` prints malformed JSON).
const SIG_JSON_SURROGATES: &str = "C26/json-input-misread/surrogate-pair-escape";

/// Replace every `\uD8xx\uDCxx` escape pair inside JSON strings by the raw character
/// (same JSON value). Returns whether any was found.
fn surrogate_pairs_to_raw(json: &mut Vec<u8>) -> bool {
    fn hex4(b: &[u8]) -> Option<u32> {
        if b.len() < 4 {
            return None;
        }
        let mut v = 0u32;
        for &c in &b[..4] {
            v = v * 16 + (c as char).to_digit(16)?;
        }
        Some(v)
    }
    let src = json.clone();
    let mut out: Vec<u8> = Vec::with_capacity(src.len());
    let mut found = false;
    let mut in_str = false;
    let mut i = 0;
    while i < src.len() {
        let b = src[i];
        if !in_str {
            in_str = b == b'"';
            out.push(b);
            i += 1;
            continue;
        }
        if b == b'"' {
            in_str = false;
            out.push(b);
            i += 1;
            continue;
        }
        if b == b'\\' && i + 1 < src.len() {
            if src[i + 1] == b'u' {
                if let Some(hi) = hex4(&src[i + 2..]) {
                    if (0xD800..0xDC00).contains(&hi) && src.get(i + 6) == Some(&b'\\') && src.get(i + 7) == Some(&b'u') {
                        if let Some(lo) = hex4(&src[i + 8..]) {
                            if (0xDC00..0xE000).contains(&lo) {
                                let cp = 0x10000 + ((hi - 0xD800) << 10) + (lo - 0xDC00);
                                if let Some(ch) = char::from_u32(cp) {
                                    let mut buf = [0u8; 4];
                                    out.extend_from_slice(ch.encode_utf8(&mut buf).as_bytes());
                                    found = true;
                                    i += 12;
                                    continue;
                                }
                            }
                        }
                    }
                }
            }
            out.push(b);
            out.push(src[i + 1]);
            i += 2;
            continue;
        }
        out.push(b);
        i += 1;
    }
    if found {
        *json = out;
    }
    found
}

/// The oracle plus attribution to the open JSON-input findings: the shapes are removed from
/// the JSON rendering one after the other (each rewrite keeps the JSON value); a failing
/// case that passes as soon as a shape is gone is that finding, whatever the symptom.
pub fn check_case(c: &Case, st: &mut Stats) -> Result<Outcome, Fail> {
    let f = match check_inner(c, st) {
        Err(f) => f,
        ok => return ok,
    };
    if f.sig.starts_with("C26/crash") || f.sig == SIG_JSON_OUTER_TAB {
        return Err(f);
    }
    let mut fixed = c.clone();
    let steps: [(&str, &str, fn(&mut Vec<u8>) -> bool); 2] = [
        (SIG_JSON_SURROGATES, "the same case passes when the surrogate pair escapes of the JSON text are written as raw characters", surrogate_pairs_to_raw),
        (SIG_JSON_BLANK_LINE, "the same case passes when the line breaks after bare JSON scalars are reduced to one", |j| bare_scalar_before_blank_line(j, true)),
    ];
    for (sig, why, fix) in steps {
        if fix(&mut fixed.json) {
            if let Ok(o) = check_inner(&fixed, st) {
                if o != Outcome::Discarded {
                    let mut d = f.detail.clone();
                    if let Some(m) = d.as_object_mut() {
                        m.insert("symptom".into(), json!(f.sig));
                        m.insert("attributed_because".into(), json!(why));
                    }
                    return Err(Fail::new(sig, d));
                }
            }
        }
    }
    Err(f)
}

fn check_inner(c: &Case, st: &mut Stats) -> Result<Outcome, Fail> {
    let prog = tmp_named("c26p", ".jq", c.program.as_bytes());
    let ps = prog.to_string_lossy().to_string();
    let routes = [
        run_route("json", &c.json, true, c.explicit_format, &ps),
        run_route("block-yaml", &c.block, false, c.explicit_format, &ps),
        run_route("flow-yaml", &c.flow, false, c.explicit_format, &ps),
    ];
    let _ = std::fs::remove_file(&prog);
    st.evals(3);
    let mut rs: Vec<RouteOut> = vec![];
    for r in routes {
        match r {
            Some(r) => rs.push(r),
            None => return Ok(Outcome::Discarded),
        }
    }
    let detail = |rs: &[RouteOut], extra: Value| -> Value {
        let mut d = json!({
            "program": c.program, "explicit_format_flag": c.explicit_format,
            "json": show_bytes(&c.json), "block_yaml": show_bytes(&c.block), "flow_yaml": show_bytes(&c.flow),
        });
        let m = d.as_object_mut().unwrap();
        for r in rs {
            m.insert(format!("{}_exit", r.name), json!(r.out.code));
            m.insert(format!("{}_stdout", r.name), json!(trunc(&r.out.stdout_str(), 500)));
            m.insert(format!("{}_stderr", r.name), json!(r.err));
        }
        if let Some(e) = extra.as_object() {
            for (k, v) in e {
                m.insert(k.clone(), v.clone());
            }
        }
        d
    };
    for r in &rs {
        if r.out.crashed() {
            return Err(Fail::new(
                format!("C26/crash/{}/{}", r.name, if let Some(s) = r.out.signal { format!("signal-{}", s) } else { "exit-101".into() }),
                detail(&rs, json!({"stderr": trunc(&r.out.stderr_str(), 600)})),
            ));
        }
    }
    if rs[0].out.code != Some(0) && rs[0].err.contains("tab character used for indentation") && tab_outside_root(&mut c.json.clone(), false) {
        return Err(Fail::new(SIG_JSON_OUTER_TAB, detail(&rs, json!({}))));
    }
    for r in &rs[1..] {
        if r.out.code != rs[0].out.code {
            // name the route that failed and the shape of its message
            let failing = if rs[0].out.code != Some(0) { &rs[0] } else { r };
            let ok_route = if rs[0].out.code != Some(0) { r.name } else { rs[0].name };
            return Err(Fail::new(
                format!("C26/exit-status-differs/{}-fails-{}-succeeds/{}", failing.name, ok_route, err_shape(&failing.err)),
                detail(&rs, json!({})),
            ));
        }
    }
    let mut vals: Vec<Vec<J>> = vec![];
    for r in &rs {
        match jsonval::parse_stream(&r.out.stdout) {
            Ok(v) => vals.push(v),
            Err(e) => return Err(Fail::new(format!("C26/output-unparseable/{}", r.name), detail(&rs, json!({"error": e.msg, "offset": e.offset})))),
        }
    }
    for i in 1..3 {
        if vals[i].len() != vals[0].len() {
            return Err(Fail::new(
                format!("C26/values-differ/json-vs-{}/result-count", rs[i].name),
                detail(&rs, json!({"json_results": vals[0].len(), "other_results": vals[i].len()})),
            ));
        }
        for (k, (a, b)) in vals[0].iter().zip(vals[i].iter()).enumerate() {
            if !j_eq(a, b) {
                return Err(Fail::new(
                    format!("C26/values-differ/json-vs-{}/{}", rs[i].name, first_diff(a, b)),
                    detail(&rs, json!({"result_index": k, "json_value": trunc(&to_compact(a), 300), "other_value": trunc(&to_compact(b), 300)})),
                ));
            }
        }
    }
    for r in &rs[1..] {
        if r.err != rs[0].err {
            return Err(Fail::new(format!("C26/error-text-differs/json-vs-{}", r.name), detail(&rs, json!({}))));
        }
    }
    if rs.iter().any(|r| r.out.stdout != rs[0].out.stdout) {
        st.class("bytes-differ-values-equal");
    }
    if rs[0].out.code == Some(0) {
        Ok(Outcome::Values(vals[0].len()))
    } else {
        Ok(Outcome::Errors)
    }
}

// ---------------------------------------------------------------- generation

fn avoid() -> gy::YAvoid {
    // trigger shapes of the open loader findings that can occur without YAML-only devices
    gy::YAvoid { empty_value_before_col0_quoted_key: true, quote_inside_flow_plain: true, tab_after_closing_quote: true, ..gy::YAvoid::none() }
}

fn tree_opts(simple: bool) -> YOpts {
    let mut o = YOpts::plain_data();
    o.max_depth = 5;
    o.max_nodes = 30;
    o.avoid = avoid();
    if simple {
        o.strings = gy::YStrings::Simple;
    }
    o
}

/// Shapes of C26's open findings that `three-syntaxes` does not generate (from
/// known_findings.json; a finding that becomes `fixed` is generated again).
#[derive(Clone, Copy, Default)]
struct Avoid {
    /// a tab in the white space around the JSON root value
    outer_tab: bool,
    /// a blank line after a bare JSON scalar
    blank_line: bool,
    /// a surrogate pair escape in a JSON string
    surrogates: bool,
}

struct Generated {
    case: Case,
    tree: Y,
    prog: CoreProg,
}

fn gen_case(u: &mut Src, av: Avoid) -> Generated {
    // half of the trees use the simple palette: programs (string functions, sorting,
    // comparisons) hit more often; the other half carries every hostile string through
    // all three syntaxes
    let simple = u.bool();
    let o = tree_opts(simple);
    let tree = gy::gen_doc(u, &o);
    let prog = yqprog::gen_core(u, &tree);
    let j = gy::to_json_model(&tree);
    let ro = gj::render_opts(u);
    let mut json = gj::render(&j, u, ro).text;
    if av.surrogates {
        surrogate_pairs_to_raw(&mut json);
    }
    if av.outer_tab {
        tab_outside_root(&mut json, true);
    }
    if av.blank_line {
        bare_scalar_before_blank_line(&mut json, true);
    }
    let mut bo = YOpts::block_only();
    bo.avoid = avoid();
    let mut fo = YOpts::flow_only();
    fo.avoid = avoid();
    let stream = vec![tree.clone()];
    let block = gy::render(&stream, u, &bo).text;
    let flow = gy::render(&stream, u, &fo).text;
    let explicit_format = u.bool();
    Generated { case: Case { json, block, flow, program: prog.text.clone(), explicit_format }, tree, prog }
}

fn classify(g: &Generated, st: &mut Stats) {
    let depth = g.tree.depth();
    let nt = g.prog.nodes >= 2 && depth >= 2;
    if nt {
        let mut h = g.case.json.clone();
        h.extend_from_slice(g.case.program.as_bytes());
        st.nontrivial(hash_bytes(&h));
    }
    st.class_if(nt, "nontrivial");
    st.class(&format!("tree-depth-{}", depth.min(5)));
    st.class(&format!("program-nodes-{}", match g.prog.nodes {
        0..=1 => "1",
        2..=3 => "2-3",
        4..=7 => "4-7",
        _ => "8+",
    }));
    for t in &g.prog.tags {
        st.class(t);
    }
    st.class(if g.case.explicit_format { "format-by-flag" } else { "format-by-extension" });
    st.class(match &g.tree {
        Y::Map(_) => "root-mapping",
        Y::Seq(_) => "root-sequence",
        _ => "root-scalar",
    });
    st.size(g.case.json.len());
    let cls = g.prog.tags.first().copied().unwrap_or("?");
    st.sample(cls, || json!({"json": show_bytes(&g.case.json), "block_yaml": show_bytes(&g.case.block), "flow_yaml": show_bytes(&g.case.flow), "program": g.case.program}));
}

fn describe(c: &Case) -> Value {
    json!({
        "json_hex": hex(&c.json), "block_yaml_hex": hex(&c.block), "flow_yaml_hex": hex(&c.flow),
        "json": String::from_utf8_lossy(&c.json), "block_yaml": String::from_utf8_lossy(&c.block), "flow_yaml": String::from_utf8_lossy(&c.flow),
        "program": c.program, "explicit_format": c.explicit_format,
    })
}

fn run_case(u: &mut Src, st: &mut Stats, av: Avoid) -> Result<(), Fail> {
    let g = gen_case(u, av);
    st.class_if(tab_outside_root(&mut g.case.json.clone(), false), "json:tab-outside-root-value");
    st.class_if(surrogate_pairs_to_raw(&mut g.case.json.clone()), "json:surrogate-pair-escape");
    st.class_if(bare_scalar_before_blank_line(&mut g.case.json.clone(), false), "json:blank-line-after-bare-scalar");
    classify(&g, st);
    st.describe(|| describe(&g.case));
    let outcome = match check_case(&g.case, st) {
        Ok(o) => o,
        Err(f) => {
            // development aid: VH_C26_SURVEY=<file> appends every failure to <file> and
            // keeps searching without shrinking
            if let Ok(path) = std::env::var("VH_C26_SURVEY") {
                use std::io::Write;
                if let Ok(mut fh) = std::fs::OpenOptions::new().create(true).append(true).open(&path) {
                    let _ = writeln!(fh, "{}", json!({"sig": f.sig, "detail": f.detail}));
                }
                st.class("survey:failure");
                return Ok(());
            }
            return Err(f);
        }
    };
    match outcome {
        Outcome::Values(n) => {
            st.class("outcome:values-compared");
            st.class_if(n == 0, "outcome:no-result");
            st.class_if(n > 1, "outcome:multiple-results");
        }
        Outcome::Errors => st.class("outcome:all-three-error-alike"),
        Outcome::Discarded => st.discard(),
    }
    Ok(())
}

fn replay_input(v: &Value) -> Option<Fail> {
    let inp = &v["input"];
    let get = |name: &str| -> Option<Vec<u8>> {
        match (inp[name].as_str(), inp[format!("{}_hex", name).as_str()].as_str()) {
            (_, Some(h)) => Some(unhex(h)),
            (Some(s), None) => Some(s.as_bytes().to_vec()),
            _ => None,
        }
    };
    let (json, block, flow, program) = match (get("json"), get("block_yaml"), get("flow_yaml"), inp["program"].as_str()) {
        (Some(a), Some(b), Some(c), Some(p)) => (a, b, c, p.to_string()),
        _ => return Some(Fail::new("C26/replay/malformed", json!({"why": "need json, block_yaml, flow_yaml, program"}))),
    };
    let case = Case { json, block, flow, program, explicit_format: inp["explicit_format"].as_bool().unwrap_or(true) };
    let mut st = Stats::default();
    match catch(|| check_case(&case, &mut st)) {
        Ok(Ok(_)) => None,
        Ok(Err(f)) => Some(f),
        Err((loc, msg)) => Some(Fail::new(format!("panic@{}", panic_sig(&loc)), json!({"panic": msg, "location": loc}))),
    }
}

pub fn run(cx: &mut Ctx) {
    cx.assume("the `succinctly` binary at $VH_CLI is built from /repo's working tree (run.sh rebuilds it)");
    cx.assume("the three renderings denote the same tree by construction (G-json and G-yaml render one model; G-yaml was cross-checked with PyYAML during development, C14 checks the loader against it)");
    cx.assume("O-jsonval (harness JSON parser) reads the CLI's JSON output; numbers compare as doubles (trees and programs are integer-preserving apart from `tonumber` on strings, which sees the same strings on every route)");
    if !cli::cli_available() {
        cx.infra(format!("CLI binary not found at {}", cli::cli_path()));
        return;
    }
    for (name, v) in cx.replays.clone() {
        if v["kind"] == "input" {
            let r = replay_input(&v);
            cx.replay_outcome(&name, r);
        }
    }
    let av = Avoid { outer_tab: cx.is_known(SIG_JSON_OUTER_TAB), blank_line: cx.is_known(SIG_JSON_BLANK_LINE), surrogates: cx.is_known(SIG_JSON_SURROGATES) };
    if av.outer_tab || av.blank_line || av.surrogates {
        cx.note("open findings: `three-syntaxes` does not generate the JSON shapes of the findings listed as known (tab in the white space around the root value / blank line after a bare scalar / surrogate pair escapes); `open-finding-shapes` generates them");
    }
    cx.check("three-syntaxes", RULE, Budget { quick: 4_000, thorough: 200_000, max_len: 2500 }, |u, st| run_case(u, st, av));
    for cl in [
        "nontrivial", "outcome:values-compared", "outcome:all-three-error-alike", "outcome:multiple-results", "format-by-flag", "format-by-extension",
        "root-mapping", "root-sequence", "field", "index", "iterate", "pipe", "comma", "array-construct", "object-construct", "compare", "boolean",
        "alternative", "if", "select", "map", "keys", "length", "type", "to_entries", "has", "sort", "add", "write", "tree-depth-3",
    ] {
        cx.require_class("three-syntaxes", cl, 10);
    }
    cx.check(
        "open-finding-shapes",
        "the same search with the shapes of C26's open findings generated (trailing JSON white space unrestricted); failures with a listed signature are counted, others are violations",
        Budget { quick: 400, thorough: 10_000, max_len: 2500 },
        |u, st| run_case(u, st, Avoid::default()),
    );
    let t = TIMEOUTS.load(Ordering::Relaxed);
    if t > 0 {
        cx.note(format!("{} CLI runs hit the 20 s watchdog twice and were discarded (not violations)", t));
    }
    cli::cleanup();
}
