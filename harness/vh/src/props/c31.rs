//! C31 — serialization round-trips, tolerates any byte alignment (DESIGN §4 C31).
//!
//! Sub-checks
//!  * `alignment-grid` (enumerated): every (word count, start offset 0..7 inside a
//!    16-byte-aligned buffer, length remainder 0..7) combination through
//!    `bytes_to_words_vec`, `try_bytes_to_words`, `bytes_to_words` (aligned only) and
//!    both `SemiIndex::from_bytes`.
//!  * `words-bytes-roundtrip` (generated): G-bits word vectors through
//!    `words_to_bytes` (vs `to_le_bytes`) and back, at all 8 alignments.
//!  * `rebuilt-json-index` (generated): a local generator of valid JSON texts;
//!    `JsonIndex::from_parts` over words that went through the byte round trip (owned and
//!    borrowed) vs the original index on a full cursor walk + IB rank/select + BP queries,
//!    plus by-construction node positions.
//!  * `rebuilt-bp` (generated): `BalancedParens::from_words` (owned copy / borrowed
//!    `&[u64]` out of bytes) vs `BalancedParens::new` on every navigation query.
use crate::engine::*;
use crate::gen::bits;
use serde_json::{json, Value};
use succinctly::binary;
use succinctly::json::JsonIndex;
use succinctly::BalancedParens;

pub const RULE: &str = "word vectors (G-bits, 0..=2000 words; thorough 20 000) serialized with words_to_bytes and compared byte-for-byte with to_le_bytes; the bytes copied to every start offset 0..7 of a 16-byte-aligned buffer and cut to every length remainder 0..7 (mod 8), then bytes_to_words_vec / try_bytes_to_words / SemiIndex::from_bytes (both cursors) compared with from_le_bytes decoding (bad length: try_ form must answer None without panicking; the panicking forms are not called); borrowed bytes_to_words only on 8-aligned input. JSON documents from a local constructive generator (nested arrays/objects/strings with escapes and UTF-8/numbers/literals, 3 whitespace styles, repeated-element arrays up to 400 elements) indexed with JsonIndex::build, parts serialized, moved to a random alignment, deserialized and rebuilt with JsonIndex::from_parts (owned Vec and borrowed &[u64]); rebuilt vs original on a full pre-order cursor walk (bp position, text position, text range, container flag, value kind, raw bytes, parent), ib_rank1 at every byte, ib_select1/ib_select1_from for every k (+2 past the end), BP len/rank1/excess/find_close/find_open/enclose/first_child/next_sibling/parent at every position, and node starts against the generator's span list. BalancedParens::from_words vs new on the same queries over balanced sequences and raw G-bits words with stray bits past len. Non-trivial: a misaligned slice of >=16 bytes, or a rebuilt index over a document with >=10 nodes; distinct by hash(words|text, alignment).";

const MISALIGNED_PANIC: &str = "TargetAlignmentGreaterAndInputNotAligned";

// ---------------------------------------------------------------- aligned scratch buffer

/// A byte buffer whose `at(off, len)` slices start exactly `off` bytes after a
/// 16-byte-aligned address (safe code: over-allocate and skip to the boundary).
pub struct AlignedBuf {
    raw: Vec<u8>,
    pad: usize,
}

impl AlignedBuf {
    pub fn new(capacity: usize) -> Self {
        let raw = vec![0xA5u8; capacity + 48];
        let base = raw.as_ptr() as usize;
        let pad = (16 - base % 16) % 16;
        AlignedBuf { raw, pad }
    }
    /// place `data` at offset `off` (0..16) from the aligned boundary and return that slice
    pub fn place(&mut self, off: usize, data: &[u8]) -> &[u8] {
        let s = self.pad + off;
        self.raw[s..s + data.len()].copy_from_slice(data);
        let out = &self.raw[s..s + data.len()];
        debug_assert_eq!((out.as_ptr() as usize).wrapping_sub(off) % 16, 0);
        out
    }
}

/// Model: little-endian bytes of the words.
pub fn le_bytes(words: &[u64]) -> Vec<u8> {
    let mut v = Vec::with_capacity(words.len() * 8);
    for w in words {
        v.extend_from_slice(&w.to_le_bytes());
    }
    v
}

/// Model: little-endian decoding (length must be a multiple of 8).
pub fn le_words(bytes: &[u8]) -> Vec<u64> {
    bytes.chunks_exact(8).map(|c| u64::from_le_bytes([c[0], c[1], c[2], c[3], c[4], c[5], c[6], c[7]])).collect()
}

fn whex(w: &[u64]) -> Vec<String> {
    w.iter().take(64).map(|x| format!("{:016x}", x)).collect()
}

/// Collects failures of the known-finding shapes so the rest of the case is still checked.
#[derive(Default)]
struct Deferred(Option<Fail>);
impl Deferred {
    fn put(&mut self, f: Fail) {
        if self.0.is_none() {
            self.0 = Some(f);
        }
    }
    fn finish(self) -> Result<(), Fail> {
        match self.0 {
            Some(f) => Err(f),
            None => Ok(()),
        }
    }
}

/// All conversions on one slice placed at `off`. `payload` is the byte string (any length).
fn check_slice(payload: &[u8], off: usize, buf: &mut AlignedBuf, def: &mut Deferred, st: &mut Stats) -> Result<(), Fail> {
    let s = buf.place(off, payload);
    let addr_mod8 = s.as_ptr() as usize % 8;
    let aligned = addr_mod8 == 0 || s.is_empty();
    let info = || json!({"start_offset_in_16_aligned_buffer": off, "address_mod_8": addr_mod8, "len": s.len(), "bytes_hex": hex(&s[..s.len().min(64)])});
    if s.len() % 8 != 0 {
        // bad length: the fallible form answers None, never panics (the other forms document a panic: not called)
        st.evals(1);
        match catch(|| binary::try_bytes_to_words(s).map(|w| w.to_vec())) {
            Ok(None) => {}
            Ok(Some(w)) => fail!("C31/try_bytes_to_words/bad-length/some", {"case": info(), "actual": whex(&w)}),
            Err((loc, msg)) => fail!("C31/try_bytes_to_words/bad-length/panic", {"case": info(), "panic": msg, "location": loc}),
        }
        return Ok(());
    }
    let exp = le_words(s);
    // owning conversion: must succeed at any alignment
    st.evals(1);
    match catch(|| binary::bytes_to_words_vec(s)) {
        Ok(w) => check_eq!("C31/bytes_to_words_vec/wrong-words", exp, w, {"case": info()}),
        Err((loc, msg)) => {
            if !aligned && msg.contains(MISALIGNED_PANIC) {
                def.put(Fail::new(format!("C31/bytes_to_words_vec/misaligned-slice/panic:{}", MISALIGNED_PANIC), json!({"case": info(), "expected": whex(&exp), "panic": msg, "location": loc})));
            } else {
                fail!("C31/bytes_to_words_vec/panic", {"case": info(), "panic": msg, "location": loc});
            }
        }
    }
    // fallible borrowed conversion: never panics; Some(correct) when the memory is 8-aligned,
    // otherwise correct words or None (a &[u64] to misaligned memory cannot exist)
    st.evals(1);
    match catch(|| binary::try_bytes_to_words(s).map(|w| w.to_vec())) {
        Ok(Some(w)) => check_eq!("C31/try_bytes_to_words/wrong-words", exp, w, {"case": info()}),
        Ok(None) => {
            if aligned {
                fail!("C31/try_bytes_to_words/none-for-good-length-aligned", {"case": info()});
            }
        }
        Err((loc, msg)) => {
            if !aligned && msg.contains(MISALIGNED_PANIC) {
                def.put(Fail::new(format!("C31/try_bytes_to_words/misaligned-slice/panic:{}", MISALIGNED_PANIC), json!({"case": info(), "expected": "Some(words) or None, never a panic", "panic": msg, "location": loc})));
            } else {
                fail!("C31/try_bytes_to_words/panic", {"case": info(), "panic": msg, "location": loc});
            }
        }
    }
    // SemiIndex::from_bytes (owning) for both cursors: ib from this slice, bp from this slice
    for which in ["standard", "simple"] {
        st.evals(1);
        let r = catch(|| {
            if which == "standard" {
                let x = succinctly::json::standard::SemiIndex::from_bytes(s, s);
                (x.ib, x.bp)
            } else {
                let x = succinctly::json::simple::SemiIndex::from_bytes(s, s);
                (x.ib, x.bp)
            }
        });
        match r {
            Ok((ib, bp)) => {
                check_eq!(format!("C31/SemiIndex::from_bytes/{}/wrong-ib", which), exp, ib, {"case": info()});
                check_eq!(format!("C31/SemiIndex::from_bytes/{}/wrong-bp", which), exp, bp, {"case": info()});
            }
            Err((loc, msg)) => {
                if !aligned && msg.contains(MISALIGNED_PANIC) {
                    def.put(Fail::new(format!("C31/SemiIndex::from_bytes/misaligned-slice/panic:{}", MISALIGNED_PANIC), json!({"case": info(), "cursor": which, "panic": msg, "location": loc})));
                } else {
                    fail!(format!("C31/SemiIndex::from_bytes/{}/panic", which), {"case": info(), "panic": msg, "location": loc});
                }
            }
        }
    }
    // borrowed conversion: aligned input only
    if aligned {
        st.evals(1);
        let w = binary::bytes_to_words(s);
        check_eq!("C31/bytes_to_words/aligned/wrong-words", exp.as_slice(), w, {"case": info()});
    }
    Ok(())
}

/// words -> bytes -> (every alignment, every length remainder) -> words
fn check_words(words: &[u64], remainders: bool, buf: &mut AlignedBuf, def: &mut Deferred, st: &mut Stats) -> Result<(), Fail> {
    let model = le_bytes(words);
    let bytes = binary::words_to_bytes(words);
    st.evals(1);
    if bytes != model.as_slice() {
        fail!("C31/words_to_bytes/not-little-endian", {"words": whex(words), "expected": hex(&model[..model.len().min(64)]), "actual": hex(&bytes[..bytes.len().min(64)])});
    }
    // straight round trip on the slice words_to_bytes returned (aligned by construction)
    st.evals(3);
    let back = binary::bytes_to_words_vec(bytes);
    check_eq!("C31/roundtrip/bytes_to_words_vec", words, back.as_slice(), {"words": whex(words)});
    check_eq!("C31/roundtrip/bytes_to_words", words, binary::bytes_to_words(bytes), {"words": whex(words)});
    check_eq!("C31/roundtrip/try_bytes_to_words", Some(words), binary::try_bytes_to_words(bytes), {"words": whex(words)});
    for off in 0..8 {
        check_slice(&model, off, buf, def, st)?;
        if remainders {
            for r in 1..8 {
                // cut r bytes off the end (bad length) and also r*... keep a good length shorter slice
                if model.len() >= r {
                    check_slice(&model[..model.len() - r], off, buf, def, st)?;
                }
                if model.len() >= 8 {
                    // good length, but starting r bytes into the data: different content phase
                    let l = (model.len() - r) / 8 * 8;
                    check_slice(&model[r..r + l], off, buf, def, st)?;
                }
            }
        }
    }
    Ok(())
}

// ---------------------------------------------------------------- local JSON generator

pub struct Doc {
    pub text: Vec<u8>,
    /// start offset of every node in pre-order (object members contribute key then value)
    pub starts: Vec<usize>,
}

struct JGen {
    out: Vec<u8>,
    starts: Vec<usize>,
    ws: u8,
    budget: usize,
}

impl JGen {
    fn gap(&mut self, u: &mut Src) {
        match self.ws {
            0 => {}
            1 => {
                if u.ratio(1, 3) {
                    self.out.push(b' ')
                }
            }
            _ => {
                let k = u.below(4);
                for _ in 0..k {
                    self.out.push(*u.pick(&[b' ', b'\n', b'\t', b'\r', b' ', b'\n']));
                }
            }
        }
    }
    fn string(&mut self, u: &mut Src) {
        self.out.push(b'"');
        let n = u.below(10);
        for _ in 0..n {
            match u.below(16) {
                0 => self.out.extend_from_slice(b"\\\""),
                1 => self.out.extend_from_slice(b"\\\\"),
                2 => self.out.extend_from_slice(b"\\n"),
                3 => self.out.extend_from_slice(b"\\u00e9"),
                4 => self.out.extend_from_slice("é".as_bytes()),
                5 => self.out.extend_from_slice("\u{1F600}".as_bytes()),
                6 => self.out.extend_from_slice(b"\\ud83d\\ude00"),
                7 => self.out.push(*u.pick(&[b'{', b'}', b'[', b']', b',', b':', b' '])),
                _ => self.out.push(b'a' + u.below(26) as u8),
            }
        }
        self.out.push(b'"');
    }
    fn number(&mut self, u: &mut Src) {
        if u.ratio(1, 4) {
            self.out.push(b'-');
        }
        match u.below(4) {
            0 => self.out.push(b'0'),
            _ => {
                self.out.push(b'1' + u.below(9) as u8);
                let k = u.below(6);
                for _ in 0..k {
                    self.out.push(b'0' + u.below(10) as u8);
                }
            }
        }
        if u.ratio(1, 4) {
            self.out.push(b'.');
            let k = u.range(1, 4);
            for _ in 0..k {
                self.out.push(b'0' + u.below(10) as u8);
            }
        }
        if u.ratio(1, 6) {
            self.out.push(*u.pick(&[b'e', b'E']));
            if u.bool() {
                self.out.push(*u.pick(&[b'+', b'-']));
            }
            self.out.push(b'0' + u.below(10) as u8);
        }
    }
    fn value(&mut self, u: &mut Src, depth: usize) {
        self.starts.push(self.out.len());
        self.budget = self.budget.saturating_sub(1);
        let container_ok = depth < 7 && self.budget > 0;
        // the root is a container 7 times out of 8 (a scalar root is a 1-node index)
        let kind = if !container_ok {
            u.below(6)
        } else if depth == 0 && !u.ratio(1, 8) {
            6 + u.below(3)
        } else {
            u.below(9)
        };
        match kind {
            0 => self.out.extend_from_slice(b"null"),
            1 => self.out.extend_from_slice(b"true"),
            2 => self.out.extend_from_slice(b"false"),
            3 | 4 => self.number(u),
            5 => self.string(u),
            6 | 7 => {
                self.out.push(b'[');
                let n = if depth == 0 { u.range(0, 12) } else { u.below(7) };
                self.gap(u);
                for i in 0..n {
                    if self.budget == 0 {
                        break;
                    }
                    if i > 0 {
                        self.out.push(b',');
                        self.gap(u);
                    }
                    self.value(u, depth + 1);
                    self.gap(u);
                }
                self.out.push(b']');
            }
            _ => {
                self.out.push(b'{');
                let n = u.below(6);
                self.gap(u);
                for i in 0..n {
                    if self.budget == 0 {
                        break;
                    }
                    if i > 0 {
                        self.out.push(b',');
                        self.gap(u);
                    }
                    self.starts.push(self.out.len());
                    self.string(u);
                    self.gap(u);
                    self.out.push(b':');
                    self.gap(u);
                    self.value(u, depth + 1);
                    self.gap(u);
                }
                self.out.push(b'}');
            }
        }
    }
}

pub fn gen_doc(u: &mut Src, max_repeat: usize) -> Doc {
    let ws = u.below(3) as u8;
    let budget = if u.ratio(1, 5) { u.range(1, 12) } else { u.range(8, 160) };
    if u.ratio(1, 4) {
        // a big array of a repeated small element: crosses word/block boundaries of IB and BP
        let mut g = JGen { out: vec![], starts: vec![], ws, budget: budget.min(12) };
        g.value(u, 5);
        let reps = u.range(1, max_repeat);
        let sep: &[u8] = *u.pick(&[&b","[..], &b", "[..], &b",\n  "[..]]);
        let mut text = vec![b'['];
        let mut starts = vec![0usize];
        for r in 0..reps {
            if r > 0 {
                text.extend_from_slice(sep);
            }
            let base = text.len();
            starts.extend(g.starts.iter().map(|s| s + base));
            text.extend_from_slice(&g.out);
        }
        text.push(b']');
        return Doc { text, starts };
    }
    let mut g = JGen { out: vec![], starts: vec![], ws, budget };
    let lead = if ws == 2 { u.below(3) } else { 0 };
    for _ in 0..lead {
        g.out.push(*u.pick(&[b' ', b'\n']));
    }
    g.value(u, 0);
    if ws == 2 && u.bool() {
        g.out.push(b'\n');
    }
    Doc { text: g.out, starts: g.starts }
}

// ---------------------------------------------------------------- index comparison

fn kind_of<W: AsRef<[u64]>>(v: &succinctly::json::StandardJson<'_, W>) -> String {
    use succinctly::json::StandardJson as S;
    match v {
        S::String(s) => format!("string:{}", show_bytes(s.raw_bytes())),
        S::Number(n) => format!("number:{}", show_bytes(n.raw_bytes())),
        S::Object(_) => "object".into(),
        S::Array(_) => "array".into(),
        S::Bool(b) => format!("bool:{}", b),
        S::Null => "null".into(),
        S::Error(e) => format!("error:{}", e),
    }
}

/// Everything observable about one index, in a canonical order.
fn observe<W: AsRef<[u64]>>(idx: &JsonIndex<W>, text: &[u8], dense: bool, probes: &[usize]) -> Vec<(String, String)> {
    let mut o: Vec<(String, String)> = Vec::new();
    o.push(("ib_len".into(), idx.ib_len().to_string()));
    o.push(("ib_words".into(), format!("{:?}", idx.ib().len())));
    o.push(("bp_len".into(), idx.bp().len().to_string()));
    o.push(("bp_total_ones".into(), idx.bp().total_ones().to_string()));
    // pre-order walk with an explicit stack
    let mut stack = vec![idx.root(text)];
    let mut count = 0usize;
    if idx.bp().len() > 0 {
        while let Some(c) = stack.pop() {
            count += 1;
            let kids: Vec<_> = c.children().collect();
            o.push((
                format!("node@bp{}", c.bp_position()),
                format!(
                    "pos={:?} range={:?} container={} kind={} raw={:?} parent={:?} first_child={:?} next_sibling={:?} nkids={}",
                    c.text_position(),
                    c.text_range(),
                    c.is_container(),
                    kind_of(&c.value()),
                    c.raw_bytes().map(|b| hash_bytes(b)),
                    c.parent().map(|p| p.bp_position()),
                    c.first_child().map(|p| p.bp_position()),
                    c.next_sibling().map(|p| p.bp_position()),
                    kids.len()
                ),
            ));
            for k in kids.into_iter().rev() {
                stack.push(k);
            }
        }
    }
    o.push(("walk_nodes".into(), count.to_string()));
    // IB rank / select
    let n = text.len();
    let ones = idx.ib_rank1(n + 64);
    if dense {
        let mut h = 0u64;
        for p in 0..=n + 65 {
            h = mix64(h ^ idx.ib_rank1(p) as u64);
        }
        o.push(("ib_rank1[0..=n+65]".into(), format!("{:016x}", h)));
        for k in 0..ones + 2 {
            o.push((format!("ib_select1({})", k), format!("{:?}", idx.ib_select1(k))));
        }
        for k in 0..ones + 2 {
            for hint in [0usize, k / 8, k / 2, ones, usize::MAX / 2] {
                o.push((format!("ib_select1_from({},{})", k, hint), format!("{:?}", idx.ib_select1_from(k, hint))));
            }
        }
    }
    for &p in probes {
        o.push((format!("ib_rank1({})", p), idx.ib_rank1(p % (n + 70)).to_string()));
        let k = p % (ones + 3);
        o.push((format!("ib_select1({})", k), format!("{:?}", idx.ib_select1(k))));
        o.push((format!("ib_select1_from({},{})", k, p % 97), format!("{:?}", idx.ib_select1_from(k, p % 97))));
    }
    // BP queries
    let bp = idx.bp();
    let bl = bp.len();
    let pts: Vec<usize> = if dense { (0..bl + 2).collect() } else { probes.iter().map(|p| p % (bl + 2)).collect() };
    for p in pts {
        o.push((
            format!("bp@{}", p),
            format!(
                "open={} rank1={} excess={} find_close={:?} find_open={:?} enclose={:?} first_child={:?} next_sibling={:?} parent={:?} subtree={:?}",
                bp.is_open(p),
                bp.rank1(p),
                bp.excess(p),
                bp.find_close(p),
                bp.find_open(p),
                bp.enclose(p),
                bp.first_child(p),
                bp.next_sibling(p),
                bp.parent(p),
                bp.subtree_size(p)
            ),
        ));
    }
    o
}

fn first_diff(a: &[(String, String)], b: &[(String, String)]) -> Option<(String, String, String)> {
    for i in 0..a.len().max(b.len()) {
        match (a.get(i), b.get(i)) {
            (Some(x), Some(y)) if x == y => {}
            (x, y) => {
                let q = x.or(y).map(|t| t.0.clone()).unwrap_or_default();
                return Some((q, format!("{:?}", x), format!("{:?}", y)));
            }
        }
    }
    None
}

/// query family for the signature: "node@bp12" -> "node", "ib_select1(3)" -> "ib_select1"
fn family(q: &str) -> String {
    q.split(|c| c == '@' || c == '(' || c == '[').next().unwrap_or(q).to_string()
}

/// Deserialize `bytes` (placed at alignment `off`) with the owning conversion; on the
/// known misaligned panic fall back to the model decoding so the comparison continues.
fn load_words(bytes: &[u8], off: usize, buf: &mut AlignedBuf, def: &mut Deferred) -> Result<Vec<u64>, Fail> {
    let s = buf.place(off, bytes);
    let aligned = s.as_ptr() as usize % 8 == 0 || s.is_empty();
    match catch(|| binary::bytes_to_words_vec(s)) {
        Ok(w) => Ok(w),
        Err((loc, msg)) => {
            if !aligned && msg.contains(MISALIGNED_PANIC) {
                def.put(Fail::new(format!("C31/bytes_to_words_vec/misaligned-slice/panic:{}", MISALIGNED_PANIC), json!({"len": s.len(), "start_offset_in_16_aligned_buffer": off, "panic": msg, "location": loc})));
                Ok(le_words(s))
            } else {
                Err(Fail::new("C31/bytes_to_words_vec/panic", json!({"panic": msg, "location": loc, "len": s.len(), "offset": off})))
            }
        }
    }
}

fn check_doc(doc: &Doc, off_ib: usize, off_bp: usize, probes: &[usize], st: &mut Stats) -> Result<(), Fail> {
    let text = &doc.text;
    let mut def = Deferred::default();
    let orig = JsonIndex::build(text);
    let dense = text.len() <= 1500;
    let info = || json!({"json": show_bytes(text), "json_len": text.len(), "ib_bytes_offset": off_ib, "bp_bytes_offset": off_bp});
    // by construction: the walk visits exactly the generated nodes at their start offsets
    {
        let mut got = Vec::with_capacity(doc.starts.len());
        let mut stack = vec![orig.root(text)];
        while let Some(c) = stack.pop() {
            got.push(c.text_position());
            let kids: Vec<_> = c.children().collect();
            for k in kids.into_iter().rev() {
                stack.push(k);
            }
        }
        let exp: Vec<Option<usize>> = doc.starts.iter().map(|&s| Some(s)).collect();
        st.evals(exp.len() as u64);
        if got != exp {
            let i = (0..got.len().max(exp.len())).find(|&i| got.get(i) != exp.get(i)).unwrap_or(0);
            fail!("C31/original-index/node-starts-vs-generator", {"case": info(), "first_difference_at_preorder_index": i, "expected": format!("{:?}", exp.get(i)), "actual": format!("{:?}", got.get(i))});
        }
    }
    let base = observe(&orig, text, dense, probes);
    st.evals(base.len() as u64);
    // serialize
    let ib_bytes = binary::words_to_bytes(orig.ib()).to_vec();
    let bp_bytes = binary::words_to_bytes(orig.bp().words()).to_vec();
    let mut buf = AlignedBuf::new(ib_bytes.len().max(bp_bytes.len()) + 16);
    let ib2 = load_words(&ib_bytes, off_ib, &mut buf, &mut def)?;
    let bp2 = load_words(&bp_bytes, off_bp, &mut buf, &mut def)?;
    check_eq!("C31/rebuilt/ib-words-differ", orig.ib(), ib2.as_slice(), {"case": info()});
    check_eq!("C31/rebuilt/bp-words-differ", orig.bp().words(), bp2.as_slice(), {"case": info()});
    // owned rebuild
    let rebuilt = JsonIndex::from_parts(ib2.clone(), orig.ib_len(), bp2.clone(), orig.bp().len());
    let o2 = observe(&rebuilt, text, dense, probes);
    st.evals(o2.len() as u64);
    if let Some((q, a, b)) = first_diff(&base, &o2) {
        fail!(format!("C31/rebuilt-owned/{}", family(&q)), {"case": info(), "query": q, "original": a, "rebuilt": b});
    }
    // borrowed rebuild: &[u64] views of aligned byte buffers
    {
        let mut b1 = AlignedBuf::new(ib_bytes.len() + 16);
        let mut b2 = AlignedBuf::new(bp_bytes.len() + 16);
        let s1 = b1.place(*[0usize, 8].get(off_ib % 2).unwrap(), &ib_bytes);
        let s2 = b2.place(*[0usize, 8].get(off_bp % 2).unwrap(), &bp_bytes);
        let w1: &[u64] = binary::bytes_to_words(s1);
        let w2: &[u64] = binary::bytes_to_words(s2);
        let borrowed: JsonIndex<&[u64]> = JsonIndex::from_parts(w1, orig.ib_len(), w2, orig.bp().len());
        let o3 = observe(&borrowed, text, dense, probes);
        st.evals(o3.len() as u64);
        if let Some((q, a, b)) = first_diff(&base, &o3) {
            fail!(format!("C31/rebuilt-borrowed/{}", family(&q)), {"case": info(), "query": q, "original": a, "rebuilt": b});
        }
    }
    // SemiIndex route: what a loader of the two-file format does
    {
        let semi = succinctly::json::standard::build_semi_index(text);
        let restored = succinctly::json::standard::SemiIndex::from_bytes(semi.ib_as_bytes(), semi.bp_as_bytes());
        check_eq!("C31/SemiIndex/ib-roundtrip", semi.ib, restored.ib, {"case": info()});
        check_eq!("C31/SemiIndex/bp-roundtrip", semi.bp, restored.bp, {"case": info()});
        let bp_len = 2 * restored.bp.iter().map(|w| w.count_ones() as usize).sum::<usize>();
        let from_semi = JsonIndex::from_parts(restored.ib, text.len(), restored.bp, bp_len);
        let o4 = observe(&from_semi, text, dense, probes);
        st.evals(o4.len() as u64);
        if let Some((q, a, b)) = first_diff(&base, &o4) {
            fail!(format!("C31/rebuilt-from-semi-index/{}", family(&q)), {"case": info(), "query": q, "original": a, "rebuilt": b});
        }
    }
    def.finish()
}

// ---------------------------------------------------------------- BalancedParens::from_words vs new

fn observe_bp<W: AsRef<[u64]>>(bp: &BalancedParens<W>, pts: &[usize]) -> Vec<(String, String)> {
    let mut o = vec![("len".to_string(), bp.len().to_string()), ("total_ones".into(), bp.total_ones().to_string()), ("total_zeros".into(), bp.total_zeros().to_string())];
    for &p in pts {
        let r = catch(|| {
            format!(
                "open={} close={} rank1={} rank0={} excess={} find_close={:?} find_open={:?} enclose={:?} first_child={:?} next_sibling={:?} parent={:?} depth={:?} subtree={:?} select0={:?}",
                bp.is_open(p),
                bp.is_close(p),
                bp.rank1(p),
                bp.rank0(p),
                bp.excess(p),
                bp.find_close(p),
                bp.find_open(p),
                bp.enclose(p),
                bp.first_child(p),
                bp.next_sibling(p),
                bp.parent(p),
                bp.depth(p),
                bp.subtree_size(p),
                bp.select0(p)
            )
        });
        o.push((format!("bp@{}", p), match r {
            Ok(s) => s,
            Err((loc, _)) => format!("panic@{}", panic_sig(&loc)),
        }));
    }
    o
}

fn balanced_words(u: &mut Src, max_pairs: usize) -> (Vec<u64>, usize) {
    let n = u.len_biased(max_pairs, &[0, 1, 31, 32, 33, 255, 256, 257, 2047, 2048, 2049]);
    let coins = u.bytes((2 * n).div_ceil(8).min(160));
    let bias = u.below(3);
    let mut words = vec![0u64; (2 * n).div_ceil(64)];
    let mut opens_left = n;
    let mut excess = 0usize;
    for p in 0..2 * n {
        let c = if coins.is_empty() { 0 } else { coins[(p / 8 + (p / (8 * coins.len())) * 7) % coins.len()] >> (p % 8) & 1 };
        let want_open = match bias {
            0 => c == 1,
            1 => c == 1 || p % 3 == 0, // deeper
            _ => p % 2 == 0 || (c == 1 && p % 5 == 0), // flatter
        };
        let open = opens_left > 0 && (excess == 0 || want_open);
        if open {
            words[p / 64] |= 1u64 << (p % 64);
            opens_left -= 1;
            excess += 1;
        } else {
            excess -= 1;
        }
    }
    (words, 2 * n)
}

// ---------------------------------------------------------------- replays

fn replay_input(v: &Value) -> Option<Fail> {
    let inp = &v["input"];
    let words: Vec<u64> = inp["words_hex"].as_array().map(|a| a.iter().map(|x| u64::from_str_radix(x.as_str().unwrap_or("0"), 16).unwrap_or(0)).collect()).unwrap_or_default();
    let off = inp["start_offset_in_16_aligned_buffer"].as_u64().unwrap_or(0) as usize;
    let api = inp["api"].as_str().unwrap_or("").to_string();
    let bytes = le_bytes(&words);
    let mut buf = AlignedBuf::new(bytes.len() + 16);
    let mut def = Deferred::default();
    let mut st = Stats::default();
    // run all conversions on that one slice, then report the failure of the API the replay names
    let s_off = off % 16;
    let r = catch(|| check_slice(&bytes, s_off, &mut buf, &mut def, &mut st));
    match r {
        Ok(Err(f)) => return Some(f),
        Err((loc, msg)) => return Some(Fail::new(format!("panic@{}", panic_sig(&loc)), json!({"panic": msg, "location": loc}))),
        Ok(Ok(())) => {}
    }
    // pick the named API's failure
    let s = buf.place(s_off, &bytes);
    let named = match api.as_str() {
        "try_bytes_to_words" => catch(|| binary::try_bytes_to_words(s).map(|w| w.to_vec())).err().map(|(loc, msg)| ("try_bytes_to_words", loc, msg)),
        "SemiIndex::from_bytes" => catch(|| succinctly::json::standard::SemiIndex::from_bytes(s, s).ib).err().map(|(loc, msg)| ("SemiIndex::from_bytes", loc, msg)),
        _ => catch(|| binary::bytes_to_words_vec(s)).err().map(|(loc, msg)| ("bytes_to_words_vec", loc, msg)),
    };
    match named {
        Some((a, loc, msg)) if msg.contains(MISALIGNED_PANIC) && s.as_ptr() as usize % 8 != 0 => Some(Fail::new(
            format!("C31/{}/misaligned-slice/panic:{}", a, MISALIGNED_PANIC),
            json!({"api": a, "start_offset_in_16_aligned_buffer": s_off, "address_mod_8": s.as_ptr() as usize % 8, "len": s.len(), "expected": whex(&words), "panic": msg, "location": loc}),
        )),
        Some((a, loc, msg)) => Some(Fail::new(format!("C31/{}/panic", a), json!({"panic": msg, "location": loc}))),
        None => def.0,
    }
}

pub fn run(cx: &mut Ctx) {
    cx.assume("reference model: u64::to_le_bytes / from_le_bytes loops (harness code); the target is little-endian x86_64");
    cx.assume("'succeeds regardless of where the slice starts' is demanded of the owning conversions (bytes_to_words_vec, SemiIndex::from_bytes); try_bytes_to_words returns &[u64], which cannot refer to misaligned memory, so for a misaligned good-length slice it may answer the correct words or None but must not panic; the borrowed bytes_to_words is only called on 8-aligned input; documented bad-length panics are not called");
    cx.assume("rebuilt-index comparison is differential (original vs rebuilt) plus the generator's own node-start list");
    for (name, v) in cx.replays.clone() {
        if v["kind"] == "input" {
            let r = replay_input(&v);
            cx.replay_outcome(&name, r);
        }
    }

    // 1. enumerated alignment grid
    cx.exhaustive(
        "alignment-grid",
        "every (word count in 0..=12 U {15,16,17,31,32,33,63,64,65,127,128,129,255,256,257,511,512,513}, start offset 0..7 in a 16-byte-aligned buffer, cut 0..7 bytes) x 3 content patterns (counting bytes, all-ones, 0x80 high bits)",
        true,
        |shard, nshards, st| {
            let mut counts: Vec<usize> = (0..=12).collect();
            counts.extend([15, 16, 17, 31, 32, 33, 63, 64, 65, 127, 128, 129, 255, 256, 257, 511, 512, 513]);
            let mut def = Deferred::default();
            let mut item = 0usize;
            for &n in &counts {
                for pat in 0..3 {
                    item += 1;
                    if item % nshards != shard {
                        continue;
                    }
                    let words: Vec<u64> = (0..n)
                        .map(|i| match pat {
                            0 => u64::from_le_bytes(core::array::from_fn(|b| (i * 8 + b) as u8)),
                            1 => u64::MAX,
                            _ => 0x8000_0000_0000_0080u64.rotate_left(i as u32),
                        })
                        .collect();
                    let mut buf = AlignedBuf::new(n * 8 + 16);
                    st.cases += 1;
                    st.class(&format!("words={}", if n <= 12 { n.to_string() } else { ">12".into() }));
                    for off in 1..8 {
                        if n >= 2 {
                            st.nontrivial(mix64((n as u64) << 8 | (pat as u64) << 4 | off as u64));
                        }
                    }
                    check_words(&words, true, &mut buf, &mut def, st)?;
                }
            }
            st.class("all-8-alignments");
            def.finish()
        },
    );

    // 2. generated word vectors
    let max_words = if cx.tier == Tier::Quick { 2000 } else { 20_000 };
    cx.check(
        "words-bytes-roundtrip",
        RULE,
        Budget { quick: 30_000, thorough: 200_000, max_len: 5000 },
        |u, st| {
            let (words, d) = bits::words(u, max_words);
            let remainders = words.len() <= 64 || u.ratio(1, 8);
            st.class(&format!("density-{:?}", d));
            st.class_if(words.is_empty(), "empty");
            st.class_if(words.len() >= 2, "misaligned-slices>=16-bytes");
            st.class_if(remainders, "with-length-remainders");
            st.size(words.len());
            if words.len() >= 2 {
                st.nontrivial(hash_words(&words));
            }
            st.sample(if words.len() >= 2 { "words" } else { "tiny" }, || json!({"n_words": words.len(), "density": format!("{:?}", d), "head": whex(&words[..words.len().min(3)])}));
            st.describe(|| json!({"words_hex": whex(&words), "n_words": words.len(), "note": "bytes = LE(words) placed at offsets 0..7 of a 16-aligned buffer"}));
            let mut buf = AlignedBuf::new(words.len() * 8 + 16);
            let mut def = Deferred::default();
            check_words(&words, remainders, &mut buf, &mut def, st)?;
            def.finish()
        },
    );
    cx.require_class("words-bytes-roundtrip", "misaligned-slices>=16-bytes", 20);
    cx.require_class("words-bytes-roundtrip", "with-length-remainders", 20);

    // 3. rebuilt JSON index
    let max_repeat = if cx.tier == Tier::Quick { 400 } else { 6000 };
    cx.check(
        "rebuilt-json-index",
        RULE,
        Budget { quick: 50_000, thorough: 400_000, max_len: 3000 },
        |u, st| {
            let doc = gen_doc(u, max_repeat);
            let off_ib = u.below(8);
            let off_bp = u.below(8);
            let probes: Vec<usize> = (0..40).map(|_| u.range(0, 1 << 20)).collect();
            let nodes = doc.starts.len();
            st.class_if(nodes >= 10, "nodes>=10");
            st.class_if(nodes == 1, "scalar-root");
            st.class_if(doc.text.len() > 64, "ib>1-word");
            st.class_if(doc.text.len() > 512, "ib>8-words");
            st.class_if(doc.text.len() > 4096, "ib>64-words");
            st.class_if(2 * nodes > 512, "bp>8-words");
            st.class_if(off_ib != 0 || off_bp != 0, "misaligned-parts");
            st.class_if(doc.text.len() <= 1500, "dense-queries");
            st.size(doc.text.len());
            if nodes >= 10 {
                st.nontrivial(mix64(hash_bytes(&doc.text) ^ (off_ib as u64) << 4 ^ off_bp as u64));
            }
            st.sample(if nodes >= 10 { "doc" } else { "small-doc" }, || json!({"json": show_bytes(&doc.text[..doc.text.len().min(120)]), "len": doc.text.len(), "nodes": nodes, "ib_offset": off_ib, "bp_offset": off_bp}));
            st.describe(|| json!({"json_hex": hex(&doc.text), "json": show_bytes(&doc.text), "ib_bytes_offset": off_ib, "bp_bytes_offset": off_bp, "probes": probes}));
            check_doc(&doc, off_ib, off_bp, &probes, st)
        },
    );
    for cl in ["nodes>=10", "ib>8-words", "ib>64-words", "bp>8-words", "misaligned-parts", "scalar-root"] {
        cx.require_class("rebuilt-json-index", cl, 20);
    }

    // 4. BalancedParens::from_words vs new
    let max_pairs = if cx.tier == Tier::Quick { 3000 } else { 40_000 };
    cx.check(
        "rebuilt-bp",
        "balanced sequences (0..=3000 pairs; deep/flat/random shapes) and raw G-bits words with len anywhere in 0..=64*words (stray bits past len kept): BalancedParens::new(words,len) vs from_words(Vec after byte round trip) vs from_words(&[u64] view of the serialized bytes) on len/total_ones/is_open/rank/excess/find_close/find_open/enclose/first_child/next_sibling/parent/depth/subtree_size/select0 at every position (<=1200 bits) or 200 probes + boundaries",
        Budget { quick: 60_000, thorough: 400_000, max_len: 2500 },
        |u, st| {
            let raw = u.ratio(1, 3);
            let (words, len) = if raw {
                // the documented tolerance is for stray bits in the FINAL word; surplus
                // whole words beyond len are outside what from_words/new promise, so trim
                let (mut w, _) = bits::words(u, 60);
                let l = bits::bit_len(u, w.len());
                w.truncate(l.div_ceil(64));
                (w, l)
            } else {
                balanced_words(u, max_pairs)
            };
            let stray = (len..words.len() * 64).any(|i| bits::bit(&words, i));
            st.class(if raw { "raw-words" } else { "balanced" });
            st.class_if(stray, "stray-bits-past-len");
            st.class_if(len > 512, "len>512");
            st.class_if(len > 4096, "len>4096");
            st.size(len);
            if len >= 20 {
                st.nontrivial(mix64(hash_words(&words) ^ len as u64));
            }
            st.class_if(len >= 20, "nontrivial");
            st.sample(if raw { "raw" } else { "balanced" }, || json!({"n_words": words.len(), "len": len, "head": whex(&words[..words.len().min(3)])}));
            st.describe(|| json!({"words_hex": whex(&words), "n_words": words.len(), "len": len}));
            let pts: Vec<usize> = if len <= 1200 {
                (0..len + 3).collect()
            } else {
                let mut v: Vec<usize> = (0..200).map(|_| u.range(0, len + 1)).collect();
                v.extend([0, 1, len - 1, len, len + 1, 63, 64, 65, 511, 512, 513]);
                v
            };
            let a = BalancedParens::new(words.clone(), len);
            let oa = observe_bp(&a, &pts);
            let bytes = binary::words_to_bytes(&words).to_vec();
            let mut buf = AlignedBuf::new(bytes.len() + 16);
            let s = buf.place(*u.pick(&[0usize, 8]), &bytes);
            let view: &[u64] = binary::bytes_to_words(s);
            let b = BalancedParens::from_words(view, len);
            let ob = observe_bp(&b, &pts);
            let c = BalancedParens::from_words(le_words(&bytes), len);
            let oc = observe_bp(&c, &pts);
            st.evals(3 * oa.len() as u64);
            let info = || json!({"words_hex": whex(&words), "n_words": words.len(), "len": len});
            if let Some((q, x, y)) = first_diff(&oa, &ob) {
                fail!(format!("C31/bp-from_words-borrowed-vs-new/{}", family(&q)), {"case": info(), "query": q, "new": x, "from_words": y});
            }
            if let Some((q, x, y)) = first_diff(&oa, &oc) {
                fail!(format!("C31/bp-from_words-owned-vs-new/{}", family(&q)), {"case": info(), "query": q, "new": x, "from_words": y});
            }
            Ok(())
        },
    );
    for cl in ["balanced", "raw-words", "stray-bits-past-len", "len>512", "len>4096", "nontrivial"] {
        cx.require_class("rebuilt-bp", cl, 20);
    }
}
