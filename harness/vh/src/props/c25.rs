//! C25 — jq value identities hold for every value (DESIGN §4 C25).
//!
//! System under test: the generic evaluator (`eval_generic::eval_with_cursor`, what the
//! CLI runs), the library evaluator (`jq::eval::<_, JqSemantics>`) and, sampled, the
//! `succinctly jq -c` binary. Oracles are harness-side: the G-json model (`J`), a path
//! walk / replace on the model, the harness's jq total order (`jsonval::jq_cmp`), a
//! strict base64 decoder and a percent-decoder written here.
use crate::cli;
use crate::engine::*;
use crate::gen::json::{self, GenOpts, KeyPalette, StrPalette, J};
use crate::oracle::jqeval::{self, jq_string, jq_string_ascii, Route};
use crate::oracle::jsonval::{self, jq_cmp};
use serde_json::{json, Value};
use std::cmp::Ordering;

pub const RULE: &str = "G-json values without duplicate keys (depth<=8, <=60 nodes, all scalar kinds, full-Unicode strings and keys, extreme/odd-spelled finite numbers), rendered with random whitespace and escape forms, evaluated in-process by the generic (CLI) evaluator and the library evaluator and, sampled, by `succinctly jq -c`; identities tojson|fromjson, to_entries|from_entries, fromstream(tostream), @base64|@base64d, @uri|@urid (+ harness-side decoders of @base64/@uri), [paths] = model path set, getpath(p) = model lookup and setpath(p;getpath(p)) = input for every path, sort/unique against the harness's jq total order, setpath(p;v) and (path)=v against model replacement. Non-trivial: value with >=5 nodes of >=3 kinds; distinct by hash of the rendered text (+ path/value for assignments).";

const ROUTES: [Route; 2] = [Route::Generic, Route::Library];

// ---------------------------------------------------------------- model helpers

/// value equality: numbers as doubles, objects as unordered maps (no duplicate keys here)
fn val_eq(a: &J, b: &J) -> bool {
    jq_cmp(a, b) == Ordering::Equal
}

fn key_order_same(a: &J, b: &J) -> bool {
    json::j_eq(a, b)
}

/// every path of `j` except the root, pre-order
fn all_paths(j: &J) -> Vec<Vec<J>> {
    fn rec(j: &J, cur: &mut Vec<J>, out: &mut Vec<Vec<J>>) {
        match j {
            J::Arr(a) => {
                for (i, x) in a.iter().enumerate() {
                    cur.push(J::int(i as i64));
                    out.push(cur.clone());
                    rec(x, cur, out);
                    cur.pop();
                }
            }
            J::Obj(f) => {
                for (k, x) in f {
                    cur.push(J::Str(k.clone()));
                    out.push(cur.clone());
                    rec(x, cur, out);
                    cur.pop();
                }
            }
            _ => {}
        }
    }
    let mut out = vec![];
    rec(j, &mut vec![], &mut out);
    out
}

/// model assignment: the value with the node at `p` replaced by `v`
/// (`p` exists, or its last segment is a fresh key of an existing object)
fn replace_at(j: &J, p: &[J], v: &J) -> J {
    if p.is_empty() {
        return v.clone();
    }
    match (j, &p[0]) {
        (J::Arr(a), J::Num(n)) => {
            let i = n.int.unwrap() as usize;
            J::Arr(a.iter().enumerate().map(|(k, x)| if k == i { replace_at(x, &p[1..], v) } else { x.clone() }).collect())
        }
        (J::Obj(f), J::Str(k)) => {
            let mut out: Vec<(String, J)> = vec![];
            let mut seen = false;
            for (k2, x) in f {
                if k2 == k {
                    seen = true;
                    out.push((k2.clone(), replace_at(x, &p[1..], v)));
                } else {
                    out.push((k2.clone(), x.clone()));
                }
            }
            if !seen {
                assert!(p.len() == 1, "fresh key only as last segment");
                out.push((k.clone(), v.clone()));
            }
            J::Obj(out)
        }
        _ => unreachable!("model path does not fit the model value"),
    }
}

fn strings_of(j: &J, out: &mut Vec<String>) {
    match j {
        J::Str(s) => out.push(s.clone()),
        J::Arr(a) => a.iter().for_each(|x| strings_of(x, out)),
        J::Obj(f) => {
            for (k, x) in f {
                out.push(k.clone());
                strings_of(x, out);
            }
        }
        _ => {}
    }
}

fn nums_of<'a>(j: &'a J, out: &mut Vec<&'a json::Num>) {
    match j {
        J::Num(n) => out.push(n),
        J::Arr(a) => a.iter().for_each(|x| nums_of(x, out)),
        J::Obj(f) => f.iter().for_each(|(_, x)| nums_of(x, out)),
        _ => {}
    }
}

fn kinds_of(j: &J, set: &mut std::collections::BTreeSet<&'static str>) {
    set.insert(j.kind());
    match j {
        J::Arr(a) => a.iter().for_each(|x| kinds_of(x, set)),
        J::Obj(f) => f.iter().for_each(|(_, x)| kinds_of(x, set)),
        _ => {}
    }
}

/// exact decimal value of a JSON number literal: (negative, significant digits, exponent of
/// the last digit); zero is (false, "", 0)
fn canon_dec(text: &str) -> (bool, String, i64) {
    let (neg, t) = match text.strip_prefix('-') {
        Some(r) => (true, r),
        None => (false, text),
    };
    let (mant, exp) = match t.find(['e', 'E']) {
        Some(i) => (&t[..i], t[i + 1..].parse::<i64>().unwrap_or(0)),
        None => (t, 0),
    };
    let (ip, fp) = match mant.find('.') {
        Some(i) => (&mant[..i], &mant[i + 1..]),
        None => (mant, ""),
    };
    let mut digits = format!("{}{}", ip, fp);
    let mut e = exp - fp.len() as i64;
    let lead = digits.len() - digits.trim_start_matches('0').len();
    digits.drain(..lead);
    while digits.ends_with('0') {
        digits.pop();
        e += 1;
    }
    if digits.is_empty() {
        return (false, String::new(), 0);
    }
    (neg, digits, e)
}

/// Two numbers in `j` have the same double but different exact decimal values. jq 1.7.1
/// orders such literals by their decimal value while succinctly (documented) orders i64
/// pairs exactly and everything else as doubles, so order / dedup of the two is not fixed.
fn has_ambiguous_numbers(j: &J) -> bool {
    let mut ns = vec![];
    nums_of(j, &mut ns);
    ns.sort_by(|a, b| a.value.partial_cmp(&b.value).unwrap_or(Ordering::Equal));
    // groups of equal doubles are contiguous
    let mut i = 0;
    while i < ns.len() {
        let mut k = i + 1;
        while k < ns.len() && ns[k].value == ns[i].value {
            if canon_dec(&ns[k].text) != canon_dec(&ns[i].text) {
                return true;
            }
            k += 1;
        }
        i = k;
    }
    false
}

/// strict RFC 4648 base64 decoder (standard alphabet, padding required, zero spare bits)
fn b64_decode_strict(s: &str) -> Result<Vec<u8>, String> {
    let b = s.as_bytes();
    if b.len() % 4 != 0 {
        return Err(format!("length {} not a multiple of 4", b.len()));
    }
    let val = |c: u8| -> Option<u32> {
        match c {
            b'A'..=b'Z' => Some((c - b'A') as u32),
            b'a'..=b'z' => Some((c - b'a') as u32 + 26),
            b'0'..=b'9' => Some((c - b'0') as u32 + 52),
            b'+' => Some(62),
            b'/' => Some(63),
            _ => None,
        }
    };
    let mut out = vec![];
    for (ci, q) in b.chunks(4).enumerate() {
        let last = ci + 1 == b.len() / 4;
        let pad = q.iter().rev().take_while(|&&c| c == b'=').count();
        if pad > 2 || (pad > 0 && !last) {
            return Err("misplaced padding".into());
        }
        let mut acc = 0u32;
        for &c in &q[..4 - pad] {
            acc = acc << 6 | val(c).ok_or_else(|| format!("byte {:#x} outside the alphabet", c))?;
        }
        match pad {
            0 => out.extend_from_slice(&[(acc >> 16) as u8, (acc >> 8) as u8, acc as u8]),
            1 => {
                if acc & 0x3 != 0 {
                    return Err("non-zero spare bits".into());
                }
                out.extend_from_slice(&[(acc >> 10) as u8, (acc >> 2) as u8]);
            }
            _ => {
                if acc & 0xf != 0 {
                    return Err("non-zero spare bits".into());
                }
                out.push((acc >> 4) as u8);
            }
        }
    }
    Ok(out)
}

/// percent-decoder: ASCII only, every `%` followed by two hex digits
fn pct_decode_strict(s: &str) -> Result<Vec<u8>, String> {
    let b = s.as_bytes();
    let mut out = vec![];
    let mut i = 0;
    while i < b.len() {
        let c = b[i];
        if c >= 0x80 || c <= 0x20 || c == 0x7f {
            return Err(format!("byte {:#x} left unescaped", c));
        }
        if c == b'%' {
            let h = b.get(i + 1).and_then(|&x| (x as char).to_digit(16));
            let l = b.get(i + 2).and_then(|&x| (x as char).to_digit(16));
            match (h, l) {
                (Some(h), Some(l)) => out.push((h * 16 + l) as u8),
                _ => return Err("'%' not followed by two hex digits".into()),
            }
            i += 3;
        } else {
            out.push(c);
            i += 1;
        }
    }
    Ok(out)
}

// ---------------------------------------------------------------- generation

fn gen_opts(u: &mut Src) -> GenOpts {
    GenOpts {
        max_depth: *u.pick(&[1, 2, 3, 4, 6, 8]),
        max_nodes: *u.pick(&[4, 8, 16, 30, 60]),
        dup_keys: false,
        strings: *u.pick(&[StrPalette::Full, StrPalette::Full, StrPalette::Ascii, StrPalette::AsciiPlain]),
        keys: *u.pick(&[KeyPalette::AsStrings, KeyPalette::Hostile, KeyPalette::Ident]),
        numbers: *u.pick(&[2, 2, 2, 1, 0]),
        max_str_len: *u.pick(&[4, 12, 24]),
    }
}

struct Doc {
    j: J,
    text: Vec<u8>,
}

fn gen_doc(u: &mut Src) -> Doc {
    let o = gen_opts(u);
    let j = json::gen_value(u, &o);
    let ro = json::render_opts(u);
    let text = json::render(&j, u, ro).text;
    Doc { j, text }
}

fn classify(d: &Doc, st: &mut Stats, extra_hash: u64) {
    let n = d.j.node_count();
    let mut kinds = std::collections::BTreeSet::new();
    kinds_of(&d.j, &mut kinds);
    let nt = n >= 5 && kinds.len() >= 3;
    if nt {
        st.nontrivial(mix64(hash_bytes(&d.text) ^ extra_hash));
    }
    st.class_if(nt, "nontrivial");
    st.class(&format!("root-{}", d.j.kind()));
    st.class_if(d.j.depth() >= 3, "depth>=3");
    let mut ss = vec![];
    strings_of(&d.j, &mut ss);
    st.class_if(ss.iter().any(|s| !s.is_ascii()), "non-ascii-string");
    st.class_if(ss.iter().any(|s| s.chars().any(|c| (c as u32) >= 0x10000)), "astral-string");
    st.class_if(ss.iter().any(|s| s.chars().any(|c| (c as u32) < 0x20)), "control-char-string");
    let mut ns = vec![];
    nums_of(&d.j, &mut ns);
    st.class_if(ns.iter().any(|x| x.int.is_none()), "non-i64-number");
    st.class_if(ns.iter().any(|x| x.value.abs() > 9007199254740992.0), "number-beyond-2^53");
    st.class_if(ns.iter().any(|x| x.text.contains(['e', 'E'])), "exponent-number");
    st.class_if(ns.iter().any(|x| x.value != 0.0 && (x.value.abs() < 1e-300 || x.value.abs() > 1e300)), "extreme-number");
    st.size(d.text.len());
}

fn doc_json(d: &Doc) -> Value {
    json!({"text": String::from_utf8_lossy(&d.text), "compact": json::to_compact(&d.j)})
}

// ---------------------------------------------------------------- evaluation plumbing

struct Evald {
    out: Result<Vec<J>, String>,
    skipped: bool,
}

/// Evaluate on one route. The library route may legitimately not implement a construct:
/// that is a skip (counted), never a pass for the generic/CLI route.
fn ev(route: Route, prog: &str, text: &[u8], st: &mut Stats, what: &str) -> Evald {
    let o = jqeval::run(route, prog, text);
    st.evals(1);
    if route == Route::Library && (o.is_unsupported() || o.is_parse_error()) {
        st.class(&format!("library-skipped:{}", what));
        return Evald { out: Err(o.error.unwrap_or_default()), skipped: true };
    }
    match o.error {
        None => Evald { out: Ok(o.outputs), skipped: false },
        Some(e) => Evald { out: Err(e), skipped: false },
    }
}

fn detail(route: Route, prog: &str, text: &[u8], got: &Result<Vec<J>, String>, expected: &str) -> Value {
    let got_s = match got {
        Ok(v) => json!(v.iter().map(json::to_compact).collect::<Vec<_>>()),
        Err(e) => json!({ "error": e }),
    };
    json!({"route": route.name(), "program": prog, "input": String::from_utf8_lossy(text), "expected": expected, "actual": got_s})
}

/// `prog` must yield exactly one output equal (as a JSON value) to `expect`.
fn expect_one(sig: &str, route: Route, prog: &str, text: &[u8], expect: &J, st: &mut Stats, what: &str) -> Result<(), Fail> {
    let e = ev(route, prog, text, st, what);
    if e.skipped {
        return Ok(());
    }
    let ok = match &e.out {
        Ok(v) if v.len() == 1 => {
            let ok = val_eq(&v[0], expect);
            if ok && !key_order_same(&v[0], expect) {
                st.class(&format!("key-order-differs:{}", what));
            }
            ok
        }
        _ => false,
    };
    if !ok {
        return Err(Fail::new(fail_sig(sig, route, prog, &e.out), detail(route, prog, text, &e.out, &json::to_compact(expect))));
    }
    Ok(())
}

fn fail_sig(sig: &str, route: Route, prog: &str, out: &Result<Vec<J>, String>) -> String {
    let shape = match out {
        Err(e) if is_known_parser_panic(prog, e) => return KNOWN_PARSER_PANIC.to_string(),
        Err(e) if e.starts_with("panic: ") => "panic",
        Err(_) => "error",
        Ok(v) if v.len() != 1 => "output-count",
        _ => "value",
    };
    format!("C25/{}/{}/{}", sig, route.name(), shape)
}

/// How generated program text is spelled: tight (`[1,"é"]`, `.a="é"`) or with a space
/// after every `,` `;` `:` `=`. The tight form with raw non-ASCII text is the shape of the
/// parser's char-boundary panic fixed in /repo 0b4d05d (replays/C25), so it stays frequent.
/// BMP characters are written raw or as `\\uXXXX`; characters above the BMP always raw
/// (the program parser rejects surrogate-pair escapes, a grammar gap outside C25).
#[derive(Clone, Copy)]
struct Sp {
    tight: bool,
    escape_bmp: bool,
}

impl Sp {
    fn draw(u: &mut Src) -> Sp {
        Sp { tight: u.ratio(1, 2), escape_bmp: u.ratio(1, 4) }
    }
    fn sep(&self) -> &'static str {
        if self.tight {
            ""
        } else {
            " "
        }
    }
    fn s(&self, k: &str) -> String {
        if !self.escape_bmp {
            return jq_string(k);
        }
        // \uXXXX for BMP non-ASCII, raw above the BMP
        let mut o = String::from("\"");
        for c in k.chars() {
            if (c as u32) >= 0x10000 {
                o.push(c);
            } else {
                let one = jq_string_ascii(c.encode_utf8(&mut [0u8; 4]));
                o.push_str(&one[1..one.len() - 1]);
            }
        }
        o.push('"');
        o
    }
    /// a JSON value as a jq literal
    fn val(&self, j: &J) -> String {
        let sep = self.sep();
        match j {
            J::Null => "null".into(),
            J::Bool(b) => b.to_string(),
            J::Num(n) => n.text.clone(),
            J::Str(s) => self.s(s),
            J::Arr(a) => format!("[{}]", a.iter().map(|x| self.val(x)).collect::<Vec<_>>().join(&format!(",{}", sep))),
            J::Obj(f) => format!("{{{}}}", f.iter().map(|(k, x)| format!("{}:{}{}", self.s(k), sep, self.val(x))).collect::<Vec<_>>().join(&format!(",{}", sep))),
        }
    }
    fn path(&self, p: &[J]) -> String {
        let segs: Vec<String> = p
            .iter()
            .map(|s| match s {
                J::Str(k) => self.s(k),
                J::Num(n) => n.text.clone(),
                _ => unreachable!(),
            })
            .collect();
        format!("[{}]", segs.join(&format!(",{}", self.sep())))
    }
}

const RAW: Sp = Sp { tight: true, escape_bmp: false };

/// canonical (raw) rendering of a path, for reports and set comparison
fn path_literal(p: &[J]) -> String {
    RAW.path(p)
}

const KNOWN_PARSER_PANIC: &str = "C25/jq-parser-panic/peek_str-char-boundary";

/// The finding fixed in /repo 0b4d05d: `Parser::peek_str` sliced the program text at a byte
/// offset inside a multi-byte character (only reachable with raw non-ASCII program text).
/// The signature stays distinct so that a regression is reported under its own name.
fn is_known_parser_panic(prog: &str, err: &str) -> bool {
    !prog.is_ascii() && err.contains("is not a char boundary") && err.contains("src/jq/parser.rs") && (err.starts_with("panic: parse:") || err.contains("panicked at"))
}

fn is_ident(k: &str) -> bool {
    let mut cs = k.chars();
    match cs.next() {
        Some(c) if c.is_ascii_alphabetic() || c == '_' => {}
        _ => return false,
    }
    cs.all(|c| c.is_ascii_alphanumeric() || c == '_') && !json::JQ_KEYWORDS.contains(&k)
}

/// a jq path expression for `p`: `.a`, `.["k"]`, `."k"`, `[3]` chained
fn path_expr(p: &[J], u: &mut Src, sp: Sp) -> String {
    let mut s = String::new();
    for (i, seg) in p.iter().enumerate() {
        match seg {
            J::Str(k) => match u.below(3) {
                0 if is_ident(k) => s.push_str(&format!(".{}", k)),
                1 => s.push_str(&format!(".{}", sp.s(k))),
                _ => s.push_str(&format!("{}[{}]", if i == 0 { "." } else { "" }, sp.s(k))),
            },
            J::Num(n) => s.push_str(&format!("{}[{}]", if i == 0 { "." } else { "" }, n.text)),
            _ => unreachable!(),
        }
    }
    if s.is_empty() {
        s.push('.');
    }
    s
}

// ---------------------------------------------------------------- sub-check: round-trip identities

fn check_identities(d: &Doc, st: &mut Stats) -> Result<(), Fail> {
    for route in ROUTES {
        expect_one("identity/tojson-fromjson", route, "tojson | fromjson", &d.text, &d.j, st, "tojson")?;
        expect_one("identity/fromstream-tostream", route, "fromstream(tostream)", &d.text, &d.j, st, "tostream")?;
        if matches!(d.j, J::Obj(_)) {
            expect_one("identity/to_entries-from_entries", route, "to_entries | from_entries", &d.text, &d.j, st, "to_entries")?;
            st.class("object-root-entries");
        }
        // a second spelling that exercises the same builtins below the root
        if d.j.is_container() {
            expect_one("identity/map-tojson-fromjson", route, "[.[] | tojson | fromjson]", &d.text, &values_of(&d.j), st, "tojson-each")?;
        }
    }
    Ok(())
}

fn values_of(j: &J) -> J {
    match j {
        J::Arr(a) => J::Arr(a.clone()),
        J::Obj(f) => J::Arr(f.iter().map(|x| x.1.clone()).collect()),
        x => x.clone(),
    }
}

fn check_string(s: &str, u: &mut Src, st: &mut Stats) -> Result<(), Fail> {
    // the string as a JSON document, with a random escape form per character
    let mut r = json::Rendered::default();
    let esc = *u.pick(&[json::Esc::Random, json::Esc::Minimal, json::Esc::AsciiOnly]);
    json::render_string(&mut r, u, s, esc);
    let text = r.text;
    let me = J::Str(s.to_string());
    for route in ROUTES {
        expect_one("string/base64-base64d", route, "@base64 | @base64d", &text, &me, st, "@base64d")?;
        expect_one("string/uri-urid", route, "@uri | @urid", &text, &me, st, "@urid")?;
        // the encoders alone, against harness-side decoders
        for (prog, which) in [("@base64", "base64"), ("@uri", "uri")] {
            let e = ev(route, prog, &text, st, which);
            if e.skipped {
                continue;
            }
            let dec = match &e.out {
                Ok(v) if v.len() == 1 => match &v[0] {
                    J::Str(enc) => {
                        if which == "base64" {
                            b64_decode_strict(enc)
                        } else {
                            pct_decode_strict(enc)
                        }
                    }
                    _ => Err("output is not a string".to_string()),
                },
                Ok(v) => Err(format!("{} outputs", v.len())),
                Err(e) => Err(e.clone()),
            };
            match dec {
                Ok(bytes) if bytes == s.as_bytes() => {}
                other => {
                    let mut dt = detail(route, prog, &text, &e.out, &format!("an encoding that decodes to {:?}", s));
                    dt["harness_decoder"] = json!(format!("{:?}", other.map(|b| show_bytes(&b))));
                    return Err(Fail::new(format!("C25/string/{}-encoder/{}", which, route.name()), dt));
                }
            }
        }
    }
    Ok(())
}

// ---------------------------------------------------------------- sub-check: paths

fn path_key(p: &[J]) -> String {
    path_literal(p)
}

fn check_paths(d: &Doc, u: &mut Src, st: &mut Stats) -> Result<(), Fail> {
    let sp = Sp::draw(u);
    st.class_if(sp.tight, "tight-program-text");
    let model = all_paths(&d.j);
    let mut model_keys: Vec<String> = model.iter().map(|p| path_key(p)).collect();
    model_keys.sort();
    for route in ROUTES {
        // [paths] is exactly the model's path set
        let e = ev(route, "[paths]", &d.text, st, "paths");
        if !e.skipped {
            let got: Option<Vec<String>> = match &e.out {
                Ok(v) if v.len() == 1 => match &v[0] {
                    J::Arr(ps) => ps
                        .iter()
                        .map(|p| match p {
                            J::Arr(segs) if segs.iter().all(|s| matches!(s, J::Str(_)) || matches!(s, J::Num(n) if n.int.map_or(false, |i| i >= 0))) => {
                                Some(path_key(&segs.iter().map(|s| if let J::Num(n) = s { J::int(n.int.unwrap()) } else { s.clone() }).collect::<Vec<_>>()))
                            }
                            _ => None,
                        })
                        .collect(),
                    _ => None,
                },
                _ => None,
            };
            let ok = match got {
                Some(mut g) => {
                    let in_order = g == model.iter().map(|p| path_key(p)).collect::<Vec<_>>();
                    st.class_if(!in_order && !g.is_empty(), "paths-not-in-document-order");
                    g.sort();
                    g == model_keys
                }
                None => false,
            };
            if !ok {
                return Err(Fail::new(format!("C25/paths/path-set/{}", route.name()), detail(route, "[paths]", &d.text, &e.out, &format!("{} paths: {:?}", model.len(), model_keys.iter().take(12).collect::<Vec<_>>()))));
            }
        }
    }
    if model.is_empty() {
        return Ok(());
    }
    // every path (all of them up to 48, else a spread sample incl. first/last/deepest)
    let idxs: Vec<usize> = if model.len() <= 48 {
        (0..model.len()).collect()
    } else {
        let deepest = (0..model.len()).max_by_key(|&i| model[i].len()).unwrap();
        let mut v = vec![0, model.len() - 1, deepest];
        for _ in 0..40 {
            v.push(u.below(model.len()));
        }
        v
    };
    st.class_if(model.iter().any(|p| p.len() >= 3), "path-len>=3");
    for &i in &idxs {
        let p = &model[i];
        let lit = sp.path(p);
        let want = jsonval::getpath(&d.j, p).expect("model path resolves in the model");
        let g = format!("getpath({})", lit);
        let s = format!("setpath({};{}getpath({}))", lit, sp.sep(), lit);
        for route in ROUTES {
            expect_one("paths/getpath", route, &g, &d.text, want, st, "getpath")?;
            expect_one("paths/setpath-getpath", route, &s, &d.text, &d.j, st, "setpath")?;
        }
    }
    // the same through the language's own iteration (`paths as $p`)
    let want_all = J::Arr(model.iter().map(|p| jsonval::getpath(&d.j, p).unwrap().clone()).collect());
    let n = model.len();
    for route in ROUTES {
        let e = ev(route, "[paths as $p | getpath($p)]", &d.text, st, "paths-as-getpath");
        if !e.skipped {
            // order of `paths` is not asserted: compare as multisets under the total order
            let ok = match &e.out {
                Ok(v) if v.len() == 1 => match (&v[0], &want_all) {
                    (J::Arr(a), J::Arr(b)) => same_multiset(a, b),
                    _ => false,
                },
                _ => false,
            };
            if !ok {
                return Err(Fail::new(format!("C25/paths/getpath-of-paths/{}", route.name()), detail(route, "[paths as $p | getpath($p)]", &d.text, &e.out, &json::to_compact(&want_all))));
            }
        }
        let prog = "[paths as $p | setpath($p; getpath($p))]";
        let e = ev(route, prog, &d.text, st, "paths-as-setpath");
        if !e.skipped {
            let ok = match &e.out {
                Ok(v) if v.len() == 1 => matches!(&v[0], J::Arr(a) if a.len() == n && a.iter().all(|x| val_eq(x, &d.j))),
                _ => false,
            };
            if !ok {
                return Err(Fail::new(format!("C25/paths/setpath-of-paths/{}", route.name()), detail(route, prog, &d.text, &e.out, &format!("{} copies of the input", n))));
            }
        }
    }
    Ok(())
}

fn same_multiset(a: &[J], b: &[J]) -> bool {
    if a.len() != b.len() {
        return false;
    }
    let mut x: Vec<&J> = a.iter().collect();
    let mut y: Vec<&J> = b.iter().collect();
    x.sort_by(|p, q| jq_cmp(p, q));
    y.sort_by(|p, q| jq_cmp(p, q));
    x.iter().zip(y.iter()).all(|(p, q)| val_eq(p, q))
}

// ---------------------------------------------------------------- sub-check: sort / unique

/// an equal value spelled differently (numbers respelled, object keys rotated)
fn respell(j: &J, u: &mut Src) -> J {
    match j {
        J::Num(n) => {
            if let Some(i) = n.int {
                if i.unsigned_abs() < (1u64 << 53) {
                    return match u.below(4) {
                        0 => J::num(&format!("{}.0", i)),
                        1 => J::num(&format!("{}e0", i)),
                        2 => J::num(&format!("{}.000", i)),
                        _ => j.clone(),
                    };
                }
            }
            j.clone()
        }
        J::Arr(a) => J::Arr(a.iter().map(|x| respell(x, u)).collect()),
        J::Obj(f) => {
            let mut g: Vec<(String, J)> = f.iter().map(|(k, x)| (k.clone(), respell(x, u))).collect();
            if g.len() > 1 {
                let r = u.below(g.len());
                g.rotate_left(r);
            }
            J::Obj(g)
        }
        x => x.clone(),
    }
}

/// a nearby but different value (so the order has something to decide)
fn neighbour(j: &J, u: &mut Src) -> J {
    match j {
        J::Null => J::Bool(false),
        J::Bool(b) => J::Bool(!b),
        J::Num(n) => {
            let v = n.value;
            let w = match u.below(4) {
                0 => f64::from_bits(v.to_bits().wrapping_add(1)),
                1 => -v,
                2 => v + 1.0,
                _ => v / 2.0,
            };
            if w.is_finite() {
                J::num(&format!("{:?}", w))
            } else {
                J::int(0)
            }
        }
        J::Str(s) => {
            let mut t = s.clone();
            match u.below(3) {
                0 => t.push(json::gen_char(u, StrPalette::Full)),
                1 => {
                    t.pop();
                }
                _ => t = format!("{}{}", json::gen_char(u, StrPalette::Full), t),
            }
            J::Str(t)
        }
        J::Arr(a) => {
            let mut b = a.clone();
            match u.below(3) {
                0 => b.push(J::Null),
                1 => {
                    b.pop();
                }
                _ => {
                    if let Some(x) = b.last_mut() {
                        *x = neighbour(x, u);
                    } else {
                        b.push(J::Arr(vec![]));
                    }
                }
            }
            J::Arr(b)
        }
        J::Obj(f) => {
            let mut g = f.clone();
            match u.below(3) {
                0 => {
                    let mut k = "z".to_string();
                    while g.iter().any(|e| e.0 == k) {
                        k.push('z');
                    }
                    g.push((k, J::int(0)));
                }
                1 => {
                    g.pop();
                }
                _ => {
                    if let Some(x) = g.last_mut() {
                        x.1 = neighbour(&x.1, u);
                    } else {
                        g.push(("a".into(), J::Null));
                    }
                }
            }
            J::Obj(g)
        }
    }
}

fn gen_sort_array(u: &mut Src) -> Vec<J> {
    let nbase = u.range(1, 6);
    let mut o = gen_opts(u);
    o.max_nodes = o.max_nodes.min(12);
    o.max_depth = o.max_depth.min(3);
    let mut base: Vec<J> = (0..nbase)
        .map(|_| if u.ratio(1, 2) { json::gen_scalar(u, &o) } else { json::gen_value(u, &o) })
        .collect();
    if u.ratio(1, 3) {
        // one of each kind so that the kind order is decided
        base.extend([J::Null, J::Bool(true), J::Bool(false), J::int(0), J::Str(String::new()), J::Arr(vec![]), J::Obj(vec![])]);
    }
    let n = u.range(0, 14);
    let mut arr = vec![];
    for _ in 0..n {
        let b = base[u.below(base.len())].clone();
        arr.push(match u.below(5) {
            0 => b,
            1 => respell(&b, u),
            2 | 3 => neighbour(&b, u),
            _ => {
                let nb = neighbour(&b, u);
                base.push(nb.clone());
                nb
            }
        });
    }
    // a family of objects over ONE key set, each written in its own insertion order, with
    // small values drawn independently per key: pairs that differ at two keys in opposite
    // directions decide whether values are compared in sorted-key order (jq) or not
    if u.ratio(1, 3) {
        let pool = ["b", "a", "d", "c"];
        let nk = u.range(2, 4);
        for _ in 0..u.range(2, 5) {
            let mut order: Vec<usize> = (0..nk).collect();
            for i in (1..nk).rev() {
                let j = u.below(i + 1);
                order.swap(i, j);
            }
            let obj: Vec<(String, J)> = order.iter().map(|&i| (pool[i].to_string(), J::int(u.range_i64(0, 2)))).collect();
            let pos = u.below(arr.len() + 1);
            arr.insert(pos, J::Obj(obj));
        }
    }
    arr
}

fn check_sort_unique(arr: &[J], text: &[u8], st: &mut Stats) -> Result<(), Fail> {
    let input = J::Arr(arr.to_vec());
    let ambiguous = has_ambiguous_numbers(&input);
    st.class_if(ambiguous, "ambiguous-number-pair(relaxed-order)");
    let mut sorted: Vec<&J> = arr.iter().collect();
    sorted.sort_by(|a, b| jq_cmp(a, b));
    let mut classes = 0usize;
    for (i, x) in sorted.iter().enumerate() {
        if i == 0 || jq_cmp(sorted[i - 1], x) != Ordering::Equal {
            classes += 1;
        }
    }
    st.class_if(classes < arr.len(), "has-equal-elements");
    for route in ROUTES {
        // sort: non-decreasing under the total order + same multiset
        let e = ev(route, "sort", text, st, "sort");
        if !e.skipped {
            let verdict: Result<(), &str> = match &e.out {
                Ok(v) if v.len() == 1 => match &v[0] {
                    J::Arr(o) => {
                        if o.len() != arr.len() {
                            Err("length")
                        } else if !ambiguous && o.windows(2).any(|w| jq_cmp(&w[0], &w[1]) == Ordering::Greater) {
                            // (with a pair of literals equal as doubles but different as exact
                            // decimals anywhere in the input, the order between the values that
                            // contain them is decided by the exact comparison, which the
                            // double-based model cannot predict: only the multiset is checked)
                            Err("not-ordered")
                        } else if !same_multiset(o, arr) {
                            Err("not-a-permutation")
                        } else {
                            Ok(())
                        }
                    }
                    _ => Err("not-an-array"),
                },
                Ok(_) => Err("output-count"),
                Err(_) => Err("error"),
            };
            if let Err(why) = verdict {
                let exp = json::to_compact(&J::Arr(sorted.iter().map(|x| (*x).clone()).collect()));
                return Err(Fail::new(format!("C25/order/sort/{}/{}", route.name(), why), detail(route, "sort", text, &e.out, &exp)));
            }
        }
        // unique: increasing, one representative per class of equal values
        let e = ev(route, "unique", text, st, "unique");
        if !e.skipped {
            let verdict: Result<(), &str> = match &e.out {
                Ok(v) if v.len() == 1 => match &v[0] {
                    J::Arr(o) => {
                        let bad_order = o.windows(2).any(|w| match jq_cmp(&w[0], &w[1]) {
                            Ordering::Less => false,
                            // (see sort above: with an ambiguous literal pair in the input the
                            // exact comparison decides, the double-based model cannot)
                            Ordering::Greater => !ambiguous,
                            // equal as doubles: only tolerable when the array holds literals
                            // that differ in exact value but not as doubles
                            Ordering::Equal => !ambiguous || exact_eq(&w[0], &w[1]),
                        });
                        if bad_order {
                            Err("not-strictly-increasing")
                        } else if (!ambiguous && o.len() != classes) || o.len() < classes {
                            Err("length")
                        } else if o.iter().any(|x| !arr.iter().any(|y| val_eq(x, y))) {
                            Err("element-not-from-input")
                        } else if arr.iter().any(|y| !o.iter().any(|x| val_eq(x, y))) {
                            Err("input-element-lost")
                        } else {
                            Ok(())
                        }
                    }
                    _ => Err("not-an-array"),
                },
                Ok(_) => Err("output-count"),
                Err(_) => Err("error"),
            };
            if let Err(why) = verdict {
                let mut uq: Vec<J> = vec![];
                for x in &sorted {
                    if uq.last().map_or(true, |l| jq_cmp(l, x) != Ordering::Equal) {
                        uq.push((*x).clone());
                    }
                }
                return Err(Fail::new(format!("C25/order/unique/{}/{}", route.name(), why), detail(route, "unique", text, &e.out, &json::to_compact(&J::Arr(uq)))));
            }
        }
    }
    Ok(())
}

/// equality with numbers compared by exact decimal value
fn exact_eq(a: &J, b: &J) -> bool {
    match (a, b) {
        (J::Num(x), J::Num(y)) => canon_dec(&x.text) == canon_dec(&y.text),
        (J::Arr(x), J::Arr(y)) => x.len() == y.len() && x.iter().zip(y).all(|(p, q)| exact_eq(p, q)),
        (J::Obj(x), J::Obj(y)) => x.len() == y.len() && x.iter().all(|(k, v)| y.iter().any(|(k2, v2)| k == k2 && exact_eq(v, v2))),
        _ => val_eq(a, b),
    }
}

// ---------------------------------------------------------------- sub-check: assignment

struct Assign {
    path: Vec<J>,
    fresh_key: bool,
    v: J,
}

fn gen_assign(d: &Doc, u: &mut Src) -> Option<Assign> {
    let model = all_paths(&d.j);
    let vo = GenOpts { max_depth: 2, max_nodes: 6, dup_keys: false, strings: StrPalette::Full, keys: KeyPalette::AsStrings, numbers: *u.pick(&[1, 1, 2, 0]), max_str_len: 6 };
    let v = if u.ratio(1, 3) { json::gen_value(u, &vo) } else { json::gen_scalar(u, &vo) };
    // a fresh key on an existing object (root or nested)
    if u.ratio(1, 6) {
        let mut objs: Vec<Vec<J>> = model.iter().filter(|p| matches!(jsonval::getpath(&d.j, p), Some(J::Obj(_)))).cloned().collect();
        if matches!(d.j, J::Obj(_)) {
            objs.push(vec![]);
        }
        if !objs.is_empty() {
            let mut p = objs[u.below(objs.len())].clone();
            let J::Obj(f) = jsonval::getpath(&d.j, &p).unwrap() else { unreachable!() };
            let mut k = json::gen_key(u, &vo);
            while f.iter().any(|e| e.0 == k) {
                k.push('+');
            }
            p.push(J::Str(k));
            return Some(Assign { path: p, fresh_key: true, v });
        }
    }
    if model.is_empty() {
        return None;
    }
    Some(Assign { path: model[u.below(model.len())].clone(), fresh_key: false, v })
}

fn check_assign(d: &Doc, a: &Assign, u: &mut Src, st: &mut Stats) -> Result<(), Fail> {
    let expect = replace_at(&d.j, &a.path, &a.v);
    let sp = Sp::draw(u);
    st.class_if(sp.tight, "tight-program-text");
    let vlit = sp.val(&a.v);
    let lit = sp.path(&a.path);
    let pe = path_expr(&a.path, u, sp);
    let progs = [
        ("assign/setpath", format!("setpath({};{}{})", lit, sp.sep(), vlit)),
        ("assign/path-eq", format!("({}){}={}{}", pe, sp.sep(), sp.sep(), vlit)),
        ("assign/path-eq-unparenthesised", format!("{}{}={}{}", pe, sp.sep(), sp.sep(), vlit)),
    ];
    for route in ROUTES {
        for (sig, prog) in &progs {
            expect_one(sig, route, prog, &d.text, &expect, st, sig)?;
        }
        // and the written value reads back
        let rb = format!("setpath({};{}{}) | getpath({})", lit, sp.sep(), vlit, lit);
        expect_one("assign/readback", route, &rb, &d.text, &a.v, st, "assign-readback")?;
    }
    Ok(())
}

// ---------------------------------------------------------------- CLI sample

static TIMEOUTS: std::sync::atomic::AtomicU64 = std::sync::atomic::AtomicU64::new(0);
static FIRST_TIMEOUT: std::sync::Mutex<Option<String>> = std::sync::Mutex::new(None);

fn cli_lines(args: &[&str], file: &std::path::Path) -> Result<Vec<J>, String> {
    let f = file.to_string_lossy().to_string();
    let mut a: Vec<&str> = vec!["jq", "-c"];
    a.extend_from_slice(args);
    a.push(&f);
    let mut o = cli::run(&a, None);
    if o.timed_out {
        // a loaded machine can starve one spawn past the watchdog: try once more
        o = cli::run(&a, None);
    }
    if o.timed_out {
        TIMEOUTS.fetch_add(1, std::sync::atomic::Ordering::Relaxed);
        let mut g = FIRST_TIMEOUT.lock().unwrap();
        if g.is_none() {
            *g = Some(format!("args {:?} input {:?}", args, String::from_utf8_lossy(&std::fs::read(file).unwrap_or_default()).chars().take(600).collect::<String>()));
        }
        return Err("INFRA: timed out".into());
    }
    if !o.ok() {
        return Err(format!("exit {:?} signal {:?}: {}", o.code, o.signal, o.stderr_str().chars().take(400).collect::<String>()));
    }
    jsonval::parse_stream(&o.stdout).map_err(|e| format!("unreadable stdout: {} at {}", e.msg, e.offset))
}

/// Several documents per spawn for the path-free identities; two single spawns for a
/// path-specific program on the first document.
fn check_cli(u: &mut Src, st: &mut Stats) -> Result<(), Fail> {
    let n = u.range(2, 8);
    let docs: Vec<Doc> = (0..n).map(|_| gen_doc(u)).collect();
    for d in &docs {
        classify(d, st, 0xC11);
    }
    st.describe(|| json!({"documents": docs.iter().map(|d| String::from_utf8_lossy(&d.text).to_string()).collect::<Vec<_>>()}));
    // one document per line needs single-line renderings: re-render compactly when the
    // random rendering contains a newline
    let mut file = Vec::new();
    for d in &docs {
        if d.text.contains(&b'\n') || d.text.contains(&b'\r') {
            file.extend_from_slice(json::to_compact(&d.j).as_bytes());
        } else {
            file.extend_from_slice(&d.text);
        }
        file.push(b'\n');
    }
    let path = cli::write_tmp("c25", &file);
    let shown = || String::from_utf8_lossy(&file).to_string();
    let run_same = |prog: &str, sig: &str, expect: &dyn Fn(&Doc) -> Option<J>, st: &mut Stats| -> Result<(), Fail> {
        let wanted: Vec<Option<J>> = docs.iter().map(expect).collect();
        // documents the program is not defined on are left out of this spawn's file
        let (p, sel): (std::path::PathBuf, Vec<usize>) = if wanted.iter().all(|w| w.is_some()) {
            (path.clone(), (0..docs.len()).collect())
        } else {
            let sel: Vec<usize> = (0..docs.len()).filter(|&i| wanted[i].is_some()).collect();
            if sel.is_empty() {
                return Ok(());
            }
            let mut f2 = Vec::new();
            for &i in &sel {
                f2.extend_from_slice(json::to_compact(&docs[i].j).as_bytes());
                f2.push(b'\n');
            }
            (cli::write_tmp("c25s", &f2), sel)
        };
        st.evals(sel.len() as u64);
        let got = cli_lines(&[prog], &p);
        if p != path {
            let _ = std::fs::remove_file(&p);
        }
        let got = match got {
            Ok(g) => g,
            Err(e) if e.starts_with("INFRA") => return Ok(()),
            Err(e) => return Err(Fail::new(format!("C25/cli/{}/error", sig), json!({"program": prog, "file": shown(), "error": e}))),
        };
        if got.len() != sel.len() {
            return Err(Fail::new(format!("C25/cli/{}/output-count", sig), json!({"program": prog, "file": shown(), "outputs": got.len(), "documents": sel.len()})));
        }
        for (k, &i) in sel.iter().enumerate() {
            if !val_eq(&got[k], wanted[i].as_ref().unwrap()) {
                return Err(Fail::new(format!("C25/cli/{}/value", sig), json!({"program": prog, "document": String::from_utf8_lossy(&docs[i].text), "expected": json::to_compact(wanted[i].as_ref().unwrap()), "actual": json::to_compact(&got[k])})));
            }
        }
        Ok(())
    };
    let r = (|| {
        run_same("tojson | fromjson", "tojson-fromjson", &|d| Some(d.j.clone()), st)?;
        run_same("fromstream(tostream)", "fromstream-tostream", &|d| Some(d.j.clone()), st)?;
        run_same("to_entries | from_entries", "to_entries-from_entries", &|d| if matches!(d.j, J::Obj(_)) { Some(d.j.clone()) } else { None }, st)?;
        run_same("[paths as $p | setpath($p; getpath($p))] | unique", "setpath-of-paths", &|d| if all_paths(&d.j).is_empty() { None } else { Some(J::Arr(vec![d.j.clone()])) }, st)?;
        run_same("[paths as $p | getpath($p)] | sort", "getpath-of-paths", &|d| {
            let mut v: Vec<J> = all_paths(&d.j).iter().map(|p| jsonval::getpath(&d.j, p).unwrap().clone()).collect();
            if has_ambiguous_numbers(&J::Arr(v.clone())) {
                return None;
            }
            v.sort_by(|a, b| jq_cmp(a, b));
            Some(J::Arr(v))
        }, st)?;
        run_same("[.. | strings | (@base64 | @base64d), (@uri | @urid)] | sort", "string-codecs", &|d| {
            let mut v = vec![];
            fn vals(j: &J, out: &mut Vec<J>) {
                match j {
                    J::Str(s) => {
                        out.push(J::Str(s.clone()));
                        out.push(J::Str(s.clone()));
                    }
                    J::Arr(a) => a.iter().for_each(|x| vals(x, out)),
                    J::Obj(f) => f.iter().for_each(|(_, x)| vals(x, out)),
                    _ => {}
                }
            }
            vals(&d.j, &mut v);
            v.sort_by(|a, b| jq_cmp(a, b));
            Some(J::Arr(v))
        }, st)?;
        // path-specific programs: one spawn each, on the first document that has paths
        if let Some(d) = docs.iter().find(|d| !all_paths(&d.j).is_empty()) {
            let model = all_paths(&d.j);
            let p = &model[u.below(model.len())];
            let sp = Sp::draw(u);
            let lit = sp.path(p);
            let one = cli::write_tmp("c25p", &d.text);
            let a = gen_assign(d, u);
            let mut progs: Vec<(String, String, J)> = vec![
                ("getpath".into(), format!("getpath({})", lit), jsonval::getpath(&d.j, p).unwrap().clone()),
                ("setpath-getpath".into(), format!("setpath({}; getpath({}))", lit, lit), d.j.clone()),
            ];
            if let Some(a) = &a {
                let e = replace_at(&d.j, &a.path, &a.v);
                progs.push(("setpath".into(), format!("setpath({}; {})", sp.path(&a.path), sp.val(&a.v)), e.clone()));
                progs.push(("path-eq".into(), format!("({}) = {}", path_expr(&a.path, u, sp), sp.val(&a.v)), e));
            }
            let mut res = Ok(());
            for (sig, prog, want) in progs {
                st.evals(1);
                match cli_lines(&[&prog], &one) {
                    Err(e) if e.starts_with("INFRA") => {}
                    Err(e) => {
                        let sg = if is_known_parser_panic(&prog, &e) { KNOWN_PARSER_PANIC.to_string() } else { format!("C25/cli/{}/error", sig) };
                        res = Err(Fail::new(sg, json!({"program": prog, "document": String::from_utf8_lossy(&d.text), "error": e})));
                        break;
                    }
                    Ok(g) => {
                        if g.len() != 1 || !val_eq(&g[0], &want) {
                            res = Err(Fail::new(format!("C25/cli/{}/value", sig), json!({"program": prog, "document": String::from_utf8_lossy(&d.text), "expected": json::to_compact(&want), "actual": g.iter().map(json::to_compact).collect::<Vec<_>>()})));
                            break;
                        }
                    }
                }
            }
            let _ = std::fs::remove_file(&one);
            res?;
        }
        Ok(())
    })();
    let _ = std::fs::remove_file(&path);
    r
}

// ---------------------------------------------------------------- replays

fn replay_input(v: &Value) -> Option<Fail> {
    let sub = v["subcheck"].as_str().unwrap_or("");
    let inp = &v["input"];
    let text = inp["text"].as_str().unwrap_or("").as_bytes().to_vec();
    let j = match jsonval::parse_one(&text) {
        Ok(j) => j,
        Err(e) => return Some(Fail::new("C25/replay/bad-input", json!({"error": e.msg}))),
    };
    let d = Doc { j, text };
    let mut st = Stats::default();
    let mut u = Src::new(&[]);
    let r = match sub {
        "identities" => check_identities(&d, &mut st).and_then(|_| {
            let mut ss = vec![];
            strings_of(&d.j, &mut ss);
            ss.iter().try_for_each(|s| check_string(s, &mut u, &mut st))
        }),
        "paths" => check_paths(&d, &mut u, &mut st),
        "sort-unique" => match &d.j {
            J::Arr(a) => check_sort_unique(a, &d.text, &mut st),
            _ => Err(Fail::new("C25/replay/bad-input", json!({"error": "sort-unique replay needs an array"}))),
        },
        "assign" => {
            let path: Vec<J> = match jsonval::parse_one(inp["path"].to_string().as_bytes()) {
                Ok(J::Arr(p)) => p,
                _ => return Some(Fail::new("C25/replay/bad-input", json!({"error": "path"}))),
            };
            let v = match jsonval::parse_one(inp["value"].as_str().unwrap_or("null").as_bytes()) {
                Ok(v) => v,
                Err(_) => return Some(Fail::new("C25/replay/bad-input", json!({"error": "value"}))),
            };
            let fresh = jsonval::getpath(&d.j, &path).is_none();
            check_assign(&d, &Assign { path, fresh_key: fresh, v }, &mut u, &mut st)
        }
        // one explicit program: {text, program, expected}
        "program" => {
            let prog = inp["program"].as_str().unwrap_or(".");
            match jsonval::parse_one(inp["expected"].as_str().unwrap_or("null").as_bytes()) {
                Ok(want) => ROUTES.iter().try_for_each(|&route| expect_one("program", route, prog, &d.text, &want, &mut st, "replay-program")),
                Err(_) => Err(Fail::new("C25/replay/bad-input", json!({"error": "expected"}))),
            }
        }
        _ => Err(Fail::new("C25/replay/unknown-subcheck", json!({"subcheck": sub}))),
    };
    r.err()
}

// ---------------------------------------------------------------- run

/// class guards only make sense for a generated search (not under `vh replay`)
fn req(cx: &mut Ctx, sub: &str, class: &str, min: u64) {
    if cx.replay_entropy.is_none() {
        cx.require_class(sub, class, min);
    }
}

pub fn run(cx: &mut Ctx) {
    cx.assume("oracles are harness code: the G-json model (value known by construction), model path walk/replace, jsonval::jq_cmp (jq's documented total order, numbers as doubles), a strict RFC 4648 base64 decoder and a percent-decoder");
    cx.assume("results are read back through jq mode's own printer (OwnedValue::to_json / CLI -c) with O-jsonval; numbers compare as doubles, objects as unordered maps (key order differences are counted, not failed)");
    cx.assume("where two numbers of an array are equal as doubles but differ in exact decimal value, the relative order / dedup of the two is not asserted (jq 1.7.1 compares literals as decimals; succinctly documents i64-exact / f64 comparison in value.rs)");
    cx.assume("the library evaluator is skipped (and counted) where it reports a construct as unsupported; the generic/CLI evaluator never is");
    for (name, v) in cx.replays.clone() {
        if v["kind"] == "input" {
            let r = replay_input(&v);
            cx.replay_outcome(&name, r);
        }
    }

    cx.check(
        "identities",
        "value round trips (tojson|fromjson, fromstream(tostream), to_entries|from_entries on object roots, [.[]|tojson|fromjson]) on the whole value; @base64|@base64d, @uri|@urid and the two encoders against harness decoders on every string and key of the value (each as its own JSON document with random escape forms); both evaluators",
        Budget { quick: 40_000, thorough: 1_000_000, max_len: 3000 },
        |u, st| {
            let d = gen_doc(u);
            classify(&d, st, 1);
            st.describe(|| doc_json(&d));
            st.sample(d.j.kind(), || doc_json(&d));
            check_identities(&d, st)?;
            let mut ss = vec![];
            strings_of(&d.j, &mut ss);
            ss.sort();
            ss.dedup();
            st.class_if(!ss.is_empty(), "has-strings");
            for s in ss.iter().take(24) {
                check_string(s, u, st)?;
            }
            // plus one generated string of its own (long strings, every palette)
            let s = json::gen_string(u, StrPalette::Full, 40);
            st.class_if(s.len() % 3 == 1, "base64-two-pad");
            st.class_if(s.len() % 3 == 2, "base64-one-pad");
            check_string(&s, u, st)
        },
    );
    for c in ["nontrivial", "root-object", "root-array", "object-root-entries", "non-ascii-string", "astral-string", "control-char-string", "number-beyond-2^53", "exponent-number", "extreme-number", "base64-one-pad", "base64-two-pad", "depth>=3"] {
        req(cx, "identities", c, 20);
    }

    cx.check(
        "paths",
        "[paths] equals the model's path set; for every model path p (all when <=48, else a spread sample): getpath(p) = model lookup, setpath(p; getpath(p)) = input; plus the same through `paths as $p`; both evaluators",
        Budget { quick: 16_000, thorough: 300_000, max_len: 3000 },
        |u, st| {
            let d = gen_doc(u);
            classify(&d, st, 2);
            st.describe(|| doc_json(&d));
            st.sample(d.j.kind(), || doc_json(&d));
            let np = all_paths(&d.j).len();
            st.class_if(np >= 10, "paths>=10");
            check_paths(&d, u, st)
        },
    );
    for c in ["nontrivial", "paths>=10", "path-len>=3", "non-ascii-string", "depth>=3"] {
        req(cx, "paths", c, 20);
    }

    cx.check(
        "sort-unique",
        "arrays built from a few base values, respelled equals (1 / 1.0 / 1e0, rotated object keys) and near neighbours (next double, negation, one more/less element or character); sort must be a non-decreasing permutation and unique one increasing representative per class under the harness's jq total order; both evaluators",
        Budget { quick: 80_000, thorough: 3_000_000, max_len: 3000 },
        |u, st| {
            let arr = gen_sort_array(u);
            let j = J::Arr(arr.clone());
            let ro = json::render_opts(u);
            let text = json::render(&j, u, ro).text;
            let d = Doc { j, text };
            classify(&d, st, 3);
            st.describe(|| doc_json(&d));
            let mut kinds = std::collections::BTreeSet::new();
            arr.iter().for_each(|x| {
                kinds.insert(x.kind());
            });
            st.class_if(kinds.len() >= 4, "element-kinds>=4");
            st.class_if(arr.iter().filter(|x| matches!(x, J::Obj(_))).count() >= 2, "objects>=2");
            st.class_if(arr.iter().filter(|x| matches!(x, J::Arr(_))).count() >= 2, "arrays>=2");
            st.sample(if kinds.len() >= 4 { "mixed" } else { "plain" }, || doc_json(&d));
            check_sort_unique(&arr, &d.text, st)
        },
    );
    for c in ["has-equal-elements", "element-kinds>=4", "objects>=2", "arrays>=2", "non-ascii-string"] {
        req(cx, "sort-unique", c, 20);
    }

    cx.check(
        "assign",
        "one model path p (or a fresh key on an existing object) and a generated value v: setpath(p; v), (path-expression) = v, path-expression = v all equal the model with exactly that node replaced, and getpath(p) of the result is v; path expressions mix .a / .\"k\" / .[\"k\"] / [n]; both evaluators",
        Budget { quick: 60_000, thorough: 2_000_000, max_len: 3000 },
        |u, st| {
            let d = gen_doc(u);
            let Some(a) = gen_assign(&d, u) else {
                st.discard();
                return Ok(());
            };
            classify(&d, st, hash_str(&path_literal(&a.path)) ^ hash_str(&json::to_compact(&a.v)));
            st.class_if(a.fresh_key, "fresh-key");
            st.class_if(a.path.len() >= 3, "path-len>=3");
            st.class_if(a.v.is_container(), "container-value");
            st.class_if(jsonval::getpath(&d.j, &a.path).map_or(false, |x| x.is_container()), "replaces-container");
            st.describe(|| json!({"text": String::from_utf8_lossy(&d.text), "path": path_literal(&a.path), "value": json::to_compact(&a.v)}));
            st.sample(if a.fresh_key { "fresh" } else { "existing" }, || json!({"text": String::from_utf8_lossy(&d.text), "path": path_literal(&a.path), "value": json::to_compact(&a.v)}));
            check_assign(&d, &a, u, st)
        },
    );
    for c in ["nontrivial", "fresh-key", "path-len>=3", "container-value", "replaces-container"] {
        req(cx, "assign", c, 20);
    }

    if cli::cli_available() {
        cx.check(
            "cli-sample",
            "2-8 generated documents per file (one per line), `succinctly jq -c <prog> file` for the path-free identities (tojson|fromjson, fromstream(tostream), to_entries|from_entries, setpath/getpath over `paths as $p`, string codecs over `.. | strings`), plus four single-document spawns for a drawn path (getpath, setpath-getpath, setpath(p;v), (path)=v)",
            Budget { quick: 120, thorough: 5_000, max_len: 6000 },
            |u, st| check_cli(u, st),
        );
        req(cx, "cli-sample", "nontrivial", 20);
        let t = TIMEOUTS.load(std::sync::atomic::Ordering::Relaxed);
        if t > 0 {
            let first = FIRST_TIMEOUT.lock().unwrap().clone().unwrap_or_default();
            cx.infra(format!("{} CLI spawns hit the 20 s watchdog (inconclusive); first: {}", t, first));
        }
    } else {
        cx.infra(format!("CLI binary not found at {}", cli::cli_path()));
    }
    cli::cleanup();
}
