//! C28 — jq-locate expressions evaluate to the located JSON node (DESIGN §4 C28),
//! library level: `json::locate::locate_offset_detailed` + `jq::parse` + the generic
//! evaluator (`eval_generic::eval_with_cursor`) and the JSON evaluator (`jq::eval`),
//! `at_offset(o)` / `at_position(l; c)` through the generic evaluator.
use crate::engine::*;
use crate::gen::json::*;
use crate::oracle::jsonval;
use crate::props::c06::{model_nodes, std_to_j, MNode};
use serde_json::{json, Value};
use succinctly::jq::eval_generic::{eval_with_cursor, GenericResult};
use succinctly::jq::{self, JqSemantics, OwnedValue, QueryResult};
use succinctly::json::light::{JsonIndex, StandardJson};
use succinctly::json::locate::locate_offset_detailed;

pub const RULE: &str = "G-json documents without duplicate keys, hostile key palette (empty, spaces, quotes, backslashes, control characters, `\\(`, digits-first, non-ASCII, every jq keyword, `$__loc__`), full string palette, whitespace in every gap and around the root, nested arrays; for every scalar and key token every byte offset inside it (sampled when longer than 16 bytes) and for every container its opening bracket: locate_offset_detailed(o) must give the token's/container's recorded span and kind and an expression that jq::parse accepts and that evaluates (generic evaluator and JSON evaluator) to the model value of the node (for a key: the value it names); at_offset(o) and at_position(naive line; column) must evaluate to the token's own value (the key string for a key). Non-trivial: node at depth >= 2 reached through >= 1 key that needs bracket notation or is non-ASCII or a jq keyword; distinct by hash(text, offset).";

// ------------------------------------------------------------------ reading results

fn owned_to_j(o: &OwnedValue) -> J {
    match o {
        OwnedValue::Null => J::Null,
        OwnedValue::Bool(b) => J::Bool(*b),
        OwnedValue::Int(i) => J::int(*i),
        OwnedValue::Float(f) => J::Num(Num { text: format!("{:e}", f), value: *f, int: None }),
        OwnedValue::NumberLiteral(_, text) => {
            let f = o.as_f64().unwrap_or(f64::NAN);
            J::Num(Num { text: text.to_string(), value: f, int: None })
        }
        OwnedValue::String(s) => J::Str(s.clone()),
        OwnedValue::Array(a) => J::Arr(a.iter().map(owned_to_j).collect()),
        OwnedValue::Object(m) => J::Obj(m.iter().map(|(k, v)| (k.clone(), owned_to_j(v))).collect()),
    }
}

fn generic_to_j(r: GenericResult<StandardJson<'_, Vec<u64>>>) -> Result<J, String> {
    match r {
        GenericResult::One(v) => std_to_j(v),
        GenericResult::OneCursor(c) => std_to_j(c.value()),
        GenericResult::Owned(o) => Ok(owned_to_j(&o)),
        GenericResult::Error(e) => Err(format!("error: {}", e)),
        GenericResult::None => Err("no output".into()),
        GenericResult::Many(v) => Err(format!("{} outputs", v.len())),
        GenericResult::ManyCursor(v) => Err(format!("{} outputs", v.len())),
        GenericResult::ManyOwned(v) => Err(format!("{} outputs", v.len())),
        _ => Err("unexpected result shape".into()),
    }
}

fn query_to_j(r: QueryResult<'_, Vec<u64>>) -> Result<J, String> {
    match r {
        QueryResult::One(v) => std_to_j(v),
        QueryResult::OneCursor(c) => std_to_j(c.value()),
        QueryResult::Owned(o) => Ok(owned_to_j(&o)),
        QueryResult::Error(e) => Err(format!("error: {}", e)),
        QueryResult::None => Err("no output".into()),
        QueryResult::Many(v) => Err(format!("{} outputs", v.len())),
        QueryResult::ManyOwned(v) => Err(format!("{} outputs", v.len())),
        _ => Err("unexpected result shape".into()),
    }
}

// ------------------------------------------------------------------ paths

#[derive(Clone, Debug)]
enum Seg {
    Idx(usize),
    Key(String),
}

/// Path (from the root) of the value that span `i` stands for (a key stands for the
/// value it names).
fn path_of(r: &Rendered, nodes: &[MNode<'_>], i: usize) -> Vec<Seg> {
    let mut i = match r.spans[i].role {
        Role::Key => r.spans[i].value_of_key.expect("key names a value"),
        Role::Value => i,
    };
    let mut segs = vec![];
    while let Some(p) = r.spans[i].parent {
        if r.spans[p].kind == "array" {
            segs.push(Seg::Idx(r.spans[i].ordinal));
        } else {
            // the key span precedes its value span in document order; find it through
            // the model: the parent's ordinal-th field
            if let MNode::Val(J::Obj(f)) = nodes[p] {
                segs.push(Seg::Key(f[r.spans[i].ordinal].0.clone()));
            }
        }
        i = p;
    }
    segs.reverse();
    segs
}

/// The documented rule for dot notation (doc comment of `can_use_dot_notation`): starts
/// with a letter or underscore, then only alphanumerics and underscores.
fn dot_eligible(k: &str) -> bool {
    let mut cs = k.chars();
    match cs.next() {
        Some(c) if c.is_alphabetic() || c == '_' => cs.all(|c| c.is_alphanumeric() || c == '_'),
        _ => false,
    }
}

fn is_keyword(k: &str) -> bool {
    JQ_KEYWORDS.contains(&k)
}

/// Rendering of a path written for the harness: `.["k"][0].name...`; a key gets dot
/// notation only if it is dot-eligible and `bracket_this` does not ask for brackets;
/// strings escaped like JSON (every control character as \uXXXX).
fn bracket_expr(segs: &[Seg], bracket_this: &dyn Fn(&str) -> bool) -> String {
    if segs.is_empty() {
        return ".".into();
    }
    let mut s = String::new();
    for (n, seg) in segs.iter().enumerate() {
        match seg {
            Seg::Idx(i) => {
                if n == 0 {
                    s.push('.');
                }
                s.push_str(&format!("[{}]", i));
            }
            Seg::Key(k) => {
                if dot_eligible(k) && !bracket_this(k) {
                    s.push('.');
                    s.push_str(k);
                    continue;
                }
                if n == 0 {
                    s.push('.');
                }
                s.push_str("[\"");
                for c in k.chars() {
                    match c {
                        '"' => s.push_str("\\\""),
                        '\\' => s.push_str("\\\\"),
                        c if (c as u32) < 0x20 || c == '\u{7f}' => s.push_str(&format!("\\u{:04x}", c as u32)),
                        c => s.push(c),
                    }
                }
                s.push_str("\"]");
            }
        }
    }
    s
}

/// `]` `.` followed by a non-ASCII character somewhere in the expression.
fn non_ascii_dot_after_bracket(e: &str) -> bool {
    let cs: Vec<char> = e.chars().collect();
    cs.windows(3).any(|w| w[0] == ']' && w[1] == '.' && !w[2].is_ascii())
}

fn eval_both(expr_text: &str, root: succinctly::json::light::JsonCursor<'_, Vec<u64>>) -> Result<(J, J), String> {
    // (a panic inside the parser is caught here so that it gets a signature of its own
    // instead of the engine's catch-all `panic@file`)
    let expr = match catch(|| jq::parse(expr_text)) {
        Ok(r) => r.map_err(|e| format!("parse: {} at {}", e.message, e.position))?,
        Err((loc, msg)) => return Err(format!("parse-panic: {} @ {}", msg, panic_sig(&loc))),
    };
    let a = generic_to_j(eval_with_cursor(&expr, root)).map_err(|e| format!("generic: {}", e))?;
    let b = query_to_j(jq::eval::<Vec<u64>, JqSemantics>(&expr, root)).map_err(|e| format!("json-eval: {}", e))?;
    Ok((a, b))
}

// ------------------------------------------------------------------ one (document, offset)

pub fn naive_line_col(text: &[u8], o: usize) -> (usize, usize) {
    // LF, CR and CRLF each end a line; a terminator at the very end starts no new line
    let mut line = 1usize;
    let mut start = 0usize;
    let mut i = 0usize;
    while i < text.len() {
        let next = match text[i] {
            b'\n' => i + 1,
            b'\r' if i + 1 < text.len() && text[i + 1] == b'\n' => i + 2,
            b'\r' => i + 1,
            _ => {
                i += 1;
                continue;
            }
        };
        if next > o || next >= text.len() {
            break;
        }
        line += 1;
        start = next;
        i = next;
    }
    (line, o - start + 1)
}

struct DocCx<'a> {
    root: &'a J,
    r: &'a Rendered,
    nodes: Vec<MNode<'a>>,
}

const OPEN_SHAPES: &[&str] = &[
    // a jq keyword key printed in dot notation: unparseable (`.and`, `.then.x`) or parsed
    // as an operator (`.and[1]` = `. and [1]`)
    "C28/locate-expr/dot-notation-for-keyword-key",
    // `]` `.` non-ASCII identifier: jq::parse panicked slicing inside the character
    // (fixed in /repo by 0b4d05d; the shape keeps its own signature as a regression guard)
    "C28/locate-expr/parser-panic/non-ascii-dot-key-after-bracket",
];

/// Ok(Some(fail)): the located expression failed in one of the two open, narrowly
/// recognised shapes; everything else about this offset was still checked.
fn check_offset(d: &DocCx<'_>, index: &JsonIndex, si: usize, o: usize, st: &mut Stats) -> Result<Option<Fail>, Fail> {
    let mut deferred: Option<Fail> = None;
    let r = d.r;
    let text = &r.text[..];
    let sp = &r.spans[si];
    let root = index.root(text);
    let is_key = sp.role == Role::Key;
    let role = if is_key { "key" } else if sp.kind == "array" || sp.kind == "object" { "container" } else { "scalar" };
    // the value the located expression must produce / the token's own value
    let target: &J = match d.nodes[if is_key { sp.value_of_key.unwrap() } else { si }] {
        MNode::Val(v) => v,
        MNode::Key(_) => unreachable!("value_of_key points at a value"),
    };
    let own_key;
    let own: &J = match d.nodes[si] {
        MNode::Key(k) => {
            own_key = J::Str(k.to_string());
            &own_key
        }
        MNode::Val(v) => v,
    };
    let segs = path_of(r, &d.nodes, si);
    let info = |extra: Value| {
        let mut m = json!({"offset": o, "role": role, "token": show_bytes(&text[sp.start..sp.end.min(sp.start + 80)]), "span": [sp.start, sp.end], "path": format!("{:?}", segs), "input": crate::props::c06::text_json(text)});
        if let (Some(a), Some(b)) = (m.as_object_mut(), extra.as_object()) {
            for (k, v) in b {
                a.insert(k.clone(), v.clone());
            }
        }
        m
    };

    // ---- locate
    let res = match locate_offset_detailed(index, text, o) {
        Some(x) => x,
        None => fail!(format!("C28/locate/none/{}", role), info(json!({}))),
    };
    st.evals(1);
    if res.byte_range != (sp.start, sp.end) {
        fail!(format!("C28/locate/byte_range/{}", role), info(json!({"expression": res.expression, "expected_range": [sp.start, sp.end], "actual_range": [res.byte_range.0, res.byte_range.1]})));
    }
    if res.value_type != sp.kind {
        fail!(format!("C28/locate/value_type/{}", role), info(json!({"expression": res.expression, "expected_type": sp.kind, "actual_type": res.value_type})));
    }
    let kw_on_path: Vec<&str> = segs.iter().filter_map(|s| match s {
        Seg::Key(k) if is_keyword(k) => Some(k.as_str()),
        _ => None,
    }).collect();
    // outcome of evaluating the located expression: Err((kind, message))
    let outcome: Result<(), (String, String)> = match eval_both(&res.expression, root) {
        Ok((a, b)) => {
            st.evals(2);
            let mut r = Ok(());
            for (route, got) in [("generic", &a), ("json-eval", &b)] {
                if !j_eq(got, target) {
                    r = Err((format!("wrong-value/{}", route), format!("expected {} got {}", to_compact(target), to_compact(got))));
                    break;
                }
            }
            r
        }
        Err(e) if e.starts_with("parse:") => Err(("unparseable".into(), e)),
        Err(e) if e.starts_with("parse-panic:") => Err(("parser-panic".into(), e)),
        Err(e) => Err(("eval-failed".into(), e)),
    };
    if let Err((kind, msg)) = outcome {
        // Classify the failure shape. Two open findings have shapes of their own; each
        // is recognised only if the same path with just the offending keys in bracket
        // notation parses and evaluates to the model value on both evaluators (so the
        // dot notation of those keys is the whole problem).
        let mut sig = format!("C28/locate-expr/{}/{}", kind, role);
        let mut alt_note = Value::Null;
        let try_alt = |pred: &dyn Fn(&str) -> bool| -> (bool, Value) {
            let alt = bracket_expr(&segs, pred);
            match eval_both(&alt, root) {
                Ok((a, b)) if j_eq(&a, target) && j_eq(&b, target) => (true, json!({"same_path_with_offending_keys_bracketed": alt, "evaluates_correctly": true})),
                other => (false, json!({"same_path_with_offending_keys_bracketed": alt, "evaluates_correctly": false, "result": format!("{:?}", other.map(|(a, _)| to_compact(&a)))})),
            }
        };
        // (both shapes can occur on one path: when bracketing only one kind of key is
        // not enough because the other open shape is on the path too, both kinds are
        // bracketed; the signature follows the manifestation)
        let both = |k: &str| is_keyword(k) || !k.is_ascii();
        let has_non_ascii = segs.iter().any(|s| matches!(s, Seg::Key(k) if !k.is_ascii()));
        if kind != "parser-panic" && !kw_on_path.is_empty() {
            let (mut ok, mut note) = try_alt(&|k| is_keyword(k));
            if !ok && has_non_ascii {
                (ok, note) = try_alt(&both);
            }
            if ok {
                sig = OPEN_SHAPES[0].to_string();
            }
            alt_note = note;
        } else if kind == "parser-panic" && msg.contains("is not a char boundary") && non_ascii_dot_after_bracket(&res.expression) {
            let (mut ok, mut note) = try_alt(&|k| !k.is_ascii());
            if !ok && !kw_on_path.is_empty() {
                (ok, note) = try_alt(&both);
            }
            if ok {
                sig = OPEN_SHAPES[1].to_string();
            }
            alt_note = note;
        }
        let f = Fail::new(sig.clone(), info(json!({"expression": res.expression, "manifestation": kind, "failure": msg, "keyword_keys_on_path": kw_on_path, "alt": alt_note})));
        if OPEN_SHAPES.contains(&sig.as_str()) {
            deferred = Some(f);
        } else {
            return Err(f);
        }
    }

    // ---- at_offset / at_position
    let (line, col) = naive_line_col(text, o);
    for (name, prog) in [("at_offset", format!("at_offset({})", o)), ("at_position", format!("at_position({}; {})", line, col))] {
        let expr = match jq::parse(&prog) {
            Ok(e) => e,
            Err(e) => fail!(format!("C28/{}/unparseable", name), info(json!({"program": prog, "error": e.message}))),
        };
        match generic_to_j(eval_with_cursor(&expr, root)) {
            Ok(got) => {
                if !j_eq(&got, own) {
                    fail!(format!("C28/{}/wrong-value/{}", name, role), info(json!({"program": prog, "expected": to_compact(own), "actual": to_compact(&got)})));
                }
            }
            Err(e) => fail!(format!("C28/{}/failed/{}", name, role), info(json!({"program": prog, "failure": e}))),
        }
        st.evals(1);
    }
    Ok(deferred)
}

fn token_offsets(u: &mut Src, sp: &Span) -> Vec<usize> {
    if sp.kind == "array" || sp.kind == "object" {
        return vec![sp.start];
    }
    let n = sp.end - sp.start;
    if n <= 16 {
        return (sp.start..sp.end).collect();
    }
    let mut v: Vec<usize> = (sp.start..sp.start + 4).chain(sp.end - 4..sp.end).collect();
    for _ in 0..5 {
        v.push(u.range(sp.start, sp.end - 1));
    }
    v.sort();
    v.dedup();
    v
}

fn check_doc(root_j: &J, r: &Rendered, u: &mut Src, st: &mut Stats, max_tokens: usize) -> Result<(), Fail> {
    let d = DocCx { root: root_j, r, nodes: model_nodes(root_j) };
    let _ = d.root;
    if d.nodes.len() != r.spans.len() {
        fail!("harness/C28/span-table-size", {"nodes": d.nodes.len(), "spans": r.spans.len()});
    }
    let index = JsonIndex::build(&r.text);
    let n = r.spans.len();
    let picks: Vec<usize> = if n <= max_tokens {
        (0..n).collect()
    } else {
        let mut v: Vec<usize> = (0..max_tokens).map(|_| u.below(n)).collect();
        v.sort();
        v.dedup();
        v
    };
    let mut known: Option<Fail> = None;
    for si in picks {
        let sp = &r.spans[si];
        let segs = path_of(r, &d.nodes, si);
        let hostile = segs.iter().any(|s| matches!(s, Seg::Key(k) if !dot_eligible(k) || !k.is_ascii() || is_keyword(k)));
        let kw = segs.iter().any(|s| matches!(s, Seg::Key(k) if is_keyword(k)));
        let depth = segs.len();
        for o in token_offsets(u, sp) {
            if depth >= 2 && hostile {
                st.nontrivial(mix64(hash_bytes(&r.text) ^ (o as u64).rotate_left(40)));
                st.class("offset-nontrivial");
            }
            st.class(if sp.role == Role::Key { "offset-in-key" } else if sp.kind == "array" || sp.kind == "object" { "offset-on-open-bracket" } else { "offset-in-scalar" });
            st.class_if(kw, "offset-keyword-on-path");
            st.class_if(o > sp.start, "offset-inside-token");
            // an open-shape failure does not stop the document: the rest is still
            // checked and the case is reported (excluded while the finding is open) at
            // the end
            if let Some(f) = check_offset(&d, &index, si, o, st)? {
                if known.is_none() {
                    known = Some(f);
                }
            }
        }
    }
    match known {
        Some(f) => Err(f),
        None => Ok(()),
    }
}

fn gen_doc(u: &mut Src) -> (J, Rendered, RenderOpts) {
    let o = GenOpts {
        max_depth: *u.pick(&[1, 2, 3, 4, 6]),
        max_nodes: match u.below(4) {
            0 => u.range(1, 6),
            _ => u.range(4, 60),
        },
        dup_keys: false,
        strings: *u.pick(&[StrPalette::Full, StrPalette::Full, StrPalette::Ascii]),
        keys: if u.ratio(1, 8) { KeyPalette::AsStrings } else { KeyPalette::Hostile },
        numbers: 2,
        max_str_len: *u.pick(&[4, 12, 40]),
    };
    let mut j = gen_value(u, &o);
    if u.ratio(1, 6) {
        // nested arrays / single-key objects around the document
        let d = u.range(1, 6);
        j = wrap_deep(u, j, d);
    }
    let mut ro = render_opts(u);
    if u.bool() {
        ro.outer_ws = true;
    }
    let r = render(&j, u, ro);
    (j, r, ro)
}

fn replay_input(v: &Value) -> Option<Fail> {
    // {"input": {"doc": "<compact JSON text>", "offset": n}}: the document is parsed by
    // O-jsonval and re-rendered compactly (span table from the renderer); the offset
    // refers to that compact text.
    let doc = v["input"]["doc"].as_str().unwrap_or("null");
    let o = v["input"]["offset"].as_u64().unwrap_or(0) as usize;
    let root = match jsonval::parse_one(doc.as_bytes()) {
        Ok(j) => j,
        Err(e) => return Some(Fail::new("harness/C28/replay-doc-unparseable", json!({"err": format!("{:?}", e)}))),
    };
    let mut u = Src::new(&[]);
    let r = render(&root, &mut u, RenderOpts { ws: Ws::None, esc: Esc::Minimal, outer_ws: false });
    if r.text != doc.as_bytes() {
        return Some(Fail::new("harness/C28/replay-doc-not-canonical", json!({"doc": doc, "rendered": show_bytes(&r.text)})));
    }
    let d = DocCx { root: &root, r: &r, nodes: model_nodes(&root) };
    let index = JsonIndex::build(&r.text);
    let si = match r.spans.iter().rposition(|s| s.start <= o && o < s.end && (o == s.start || !(s.kind == "array" || s.kind == "object"))) {
        Some(si) => si,
        None => return Some(Fail::new("harness/C28/replay-offset-not-qualifying", json!({"offset": o}))),
    };
    let mut st = Stats::default();
    match check_offset(&d, &index, si, o, &mut st) {
        Ok(f) => f,
        Err(f) => Some(f),
    }
}

pub fn run(cx: &mut Ctx) {
    cx.assume("expected values and spans come from the G-json model and the renderer's span table; results are read back through StandardJson navigation (checked by C06) or OwnedValue");
    cx.assume("library level only: locate_offset_detailed + jq::parse + eval_generic::eval_with_cursor + jq::eval; the CLI layer (`succinctly jq-locate`, `succinctly jq`) is sampled separately");
    cx.assume("numbers are compared as doubles");
    for (name, v) in cx.replays.clone() {
        if v["kind"] == "input" {
            let r = replay_input(&v);
            cx.replay_outcome(&name, r);
        }
    }
    let thorough = cx.tier == Tier::Thorough;
    let max_tokens = if thorough { 60 } else { 40 };
    cx.check(
        "locate-eval",
        RULE,
        Budget { quick: 60_000, thorough: 1_500_000, max_len: 6000 },
        |u, st| {
            let (j, r, ro) = gen_doc(u);
            let text = &r.text;
            st.describe(|| json!({"doc": to_compact(&j), "rendered": crate::props::c06::text_json(text)}));
            st.class(&format!("ws-{:?}", ro.ws));
            st.class_if(text.first().map_or(false, |b| b.is_ascii_whitespace()), "whitespace-before-root");
            st.class_if(text.contains(&b'\n') || text.contains(&b'\r'), "multi-line");
            let nodes = model_nodes(&j);
            let mut kinds = [false; 8];
            for n in &nodes {
                if let MNode::Key(k) = n {
                    kinds[0] |= k.is_empty();
                    kinds[1] |= is_keyword(k);
                    kinds[2] |= !k.is_ascii();
                    kinds[3] |= k.contains('"') || k.contains('\\');
                    kinds[4] |= k.chars().any(|c| (c as u32) < 0x20);
                    kinds[5] |= k.starts_with(|c: char| c.is_ascii_digit());
                    kinds[6] |= k.contains("\\(");
                    kinds[7] |= dot_eligible(k) && !is_keyword(k);
                }
            }
            for (b, name) in kinds.iter().zip(["key-empty", "key-jq-keyword", "key-non-ascii", "key-quote-or-backslash", "key-control-char", "key-digit-first", "key-interpolation-lookalike", "key-plain-identifier"]) {
                st.class_if(*b, name);
            }
            st.size(text.len());
            st.sample(if kinds[1] { "keyword" } else { "plain" }, || json!({"text": show_bytes(&text[..text.len().min(240)]), "len": text.len(), "nodes": nodes.len()}));
            drop(nodes);
            check_doc(&j, &r, u, st, max_tokens)
        },
    );
    for cl in [
        "offset-nontrivial",
        "offset-in-key",
        "offset-in-scalar",
        "offset-on-open-bracket",
        "offset-inside-token",
        "offset-keyword-on-path",
        "key-empty",
        "key-jq-keyword",
        "key-non-ascii",
        "key-quote-or-backslash",
        "key-control-char",
        "key-digit-first",
        "key-interpolation-lookalike",
        "key-plain-identifier",
        "whitespace-before-root",
        "multi-line",
    ] {
        cx.require_class("locate-eval", cl, 20);
    }
}
