//! C10 — printed numbers read back to the same value (DESIGN §4 C10).
//!
//! Oracle: Rust's correctly rounded `str::parse::<f64>` applied to the *printed* text
//! (after checking the text against the JSON number grammar with O-jsonval, or the YAML 1.2
//! core-schema number rules written here). The printers are the repository's public
//! formatter entry points and, sampled, the `succinctly jq` / `succinctly yq` binaries.
use crate::cli;
use crate::engine::*;
use crate::gen::json::{self, J};
use crate::oracle::jqeval::{self, Route};
use crate::oracle::jsonval;
use serde_json::{json, Value};
use succinctly::jq::document::IndentSpec;
use succinctly::jq::stream::stream_owned_value_json_jq;
use succinctly::jq::{format_number_jq_compat, OwnedValue, StreamableValue};
use succinctly::yaml::{format_float_with_fraction, format_float_yq, format_float_yq_yaml, format_float_yq_yaml_nested, resolve_plain, ResolvedScalar};

pub const RULE: &str = "finite doubles (random bit patterns, subnormals, +-0, 10^k and 2^k with +-ulp neighbours, integers around 2^53/2^63/2^64, 1-17 digit decimals with exponents -330..310, neighbours of the yq notation thresholds, f32 values, extremes), every i64 class (boundaries, powers of two/ten +-1, random) and JSON-grammar literals (G-json number shapes, 1-40 digit mantissas with exponents -400..400, zero spellings, exact halfway points between adjacent doubles +- a last digit, overflow/underflow edges; kept only when the value is finite) pushed through every public number printer of jq mode and yq mode (JSON and YAML output), in-process and through the CLI; the printed text must be a number in the output's grammar and parse (Rust str::parse::<f64>) to the source double; i64 must print digit for digit. Non-trivial: double needing >=16 significant digits or with decimal exponent outside [-5,17); literal whose spelling differs from the shortest form of its value; distinct by bit pattern / literal text.";

// ---------------------------------------------------------------- YAML 1.2 core schema numbers

#[derive(Debug, Clone, PartialEq)]
enum YNum {
    /// `[-+]?[0-9]+`, `0o…`, `0x…`: value and the decimal digits when written in base 10
    Int(f64, Option<String>),
    Float(f64),
}

impl YNum {
    fn value(&self) -> f64 {
        match self {
            YNum::Int(v, _) | YNum::Float(v) => *v,
        }
    }
}

/// Resolve one plain scalar token under the YAML 1.2 core schema (10.3.2); an optional
/// `!!float ` / `!!int ` tag in front is honoured. Err when the token is not a number.
fn yaml_number(tok: &str) -> Result<YNum, String> {
    let (tag, t) = if let Some(r) = tok.strip_prefix("!!float ") {
        (Some("float"), r)
    } else if let Some(r) = tok.strip_prefix("!!int ") {
        (Some("int"), r)
    } else {
        (None, tok)
    };
    let b = t.as_bytes();
    if b.is_empty() {
        return Err("empty scalar (null)".into());
    }
    let digits = |s: &[u8]| !s.is_empty() && s.iter().all(|c| c.is_ascii_digit());
    let unsigned = if b[0] == b'-' || b[0] == b'+' { &b[1..] } else { b };
    let r = if digits(unsigned) {
        // base-10 integer of any size
        let v: f64 = t.parse().map_err(|_| "integer does not parse")?;
        YNum::Int(v, Some(t.trim_start_matches('+').to_string()))
    } else if t.starts_with("0o") && b.len() > 2 && b[2..].iter().all(|c| (b'0'..=b'7').contains(c)) {
        YNum::Int(u128::from_str_radix(&t[2..], 8).map_err(|_| "octal too long")? as f64, None)
    } else if t.starts_with("0x") && b.len() > 2 && b[2..].iter().all(|c| c.is_ascii_hexdigit()) {
        YNum::Int(u128::from_str_radix(&t[2..], 16).map_err(|_| "hex too long")? as f64, None)
    } else if matches!(t, ".inf" | ".Inf" | ".INF" | "+.inf" | "+.Inf" | "+.INF") {
        YNum::Float(f64::INFINITY)
    } else if matches!(t, "-.inf" | "-.Inf" | "-.INF") {
        YNum::Float(f64::NEG_INFINITY)
    } else if matches!(t, ".nan" | ".NaN" | ".NAN") {
        YNum::Float(f64::NAN)
    } else {
        // [-+]? ( \. [0-9]+ | [0-9]+ ( \. [0-9]* )? ) ( [eE] [-+]? [0-9]+ )?
        let mut i = 0;
        let u = unsigned;
        let mut int_digits = 0;
        while i < u.len() && u[i].is_ascii_digit() {
            i += 1;
            int_digits += 1;
        }
        let mut frac_digits = 0;
        if i < u.len() && u[i] == b'.' {
            i += 1;
            while i < u.len() && u[i].is_ascii_digit() {
                i += 1;
                frac_digits += 1;
            }
        }
        if int_digits == 0 && frac_digits == 0 {
            return Err(format!("not a core-schema number: {:?}", tok));
        }
        if i < u.len() && (u[i] == b'e' || u[i] == b'E') {
            i += 1;
            if i < u.len() && (u[i] == b'-' || u[i] == b'+') {
                i += 1;
            }
            let s = i;
            while i < u.len() && u[i].is_ascii_digit() {
                i += 1;
            }
            if i == s {
                return Err(format!("not a core-schema number: {:?}", tok));
            }
        }
        if i != u.len() {
            return Err(format!("not a core-schema number: {:?}", tok));
        }
        // Rust's parser accepts exactly these spellings ("1.", ".5", "+1e5")
        YNum::Float(t.parse::<f64>().map_err(|_| format!("float does not parse: {:?}", tok))?)
    };
    Ok(match (tag, r) {
        (Some("float"), YNum::Int(v, _)) => YNum::Float(v),
        (Some("int"), YNum::Float(_)) => return Err(format!("!!int on a float spelling: {:?}", tok)),
        (_, r) => r,
    })
}

// ---------------------------------------------------------------- reading back

/// the text must be exactly one JSON number; its value
fn json_number(text: &str) -> Result<f64, String> {
    match jsonval::parse_one(text.as_bytes()) {
        Ok(J::Num(n)) => Ok(n.value),
        Ok(other) => Err(format!("a JSON {} instead of a number", other.kind())),
        Err(e) => Err(format!("not JSON: {} at {}", e.msg, e.offset)),
    }
}

fn same(a: f64, b: f64) -> bool {
    // numeric equality; for non-zero finite doubles this is bit equality
    a == b
}

struct Mis {
    route: &'static str,
    shape: &'static str,
    printed: String,
    why: String,
}

fn expect_json(route: &'static str, printed: String, want: f64) -> Result<(), Mis> {
    match json_number(&printed) {
        Ok(v) if same(v, want) => Ok(()),
        Ok(v) => Err(Mis { route, shape: "value-differs", why: format!("reads back as {:e}", v), printed }),
        Err(e) => Err(Mis { route, shape: "not-a-number", why: e, printed }),
    }
}

fn expect_yaml(route: &'static str, printed: String, want: f64) -> Result<(), Mis> {
    // harness reading
    match yaml_number(&printed) {
        Ok(n) if same(n.value(), want) => {}
        Ok(n) => return Err(Mis { route, shape: "value-differs", why: format!("reads back as {:e}", n.value()), printed }),
        Err(e) => return Err(Mis { route, shape: "not-a-number", why: e, printed }),
    }
    // the repository's own reader must agree about what it printed
    let t = printed.strip_prefix("!!float ").unwrap_or(&printed);
    let ok = match resolve_plain(t) {
        ResolvedScalar::Float(x) => same(x, want),
        // i64 -> f64 is round-to-nearest-even, the same rounding a parse of the digits applies
        ResolvedScalar::Int(n) => same(n as f64, want),
        _ => false,
    };
    if !ok {
        return Err(Mis { route, shape: "resolve_plain-differs", why: format!("resolve_plain -> {:?}", resolve_plain(t)), printed });
    }
    Ok(())
}

fn stream_json_of(v: &OwnedValue, indent: IndentSpec) -> String {
    let mut s = String::new();
    v.stream_json(&mut s, indent, false).expect("writing to a String");
    s
}

fn stream_yaml_of(v: &OwnedValue, indent: IndentSpec) -> String {
    let mut s = String::new();
    v.stream_yaml(&mut s, indent, false).expect("writing to a String");
    s
}

fn stream_jq_of(v: &OwnedValue) -> String {
    let mut s = String::new();
    stream_owned_value_json_jq(v, &mut s).expect("writing to a String");
    s
}

/// `[x]` printed as JSON -> the text of x
fn unwrap_json_array1(route: &'static str, printed: String) -> Result<String, Mis> {
    let t = printed.trim();
    match t.strip_prefix('[').and_then(|r| r.strip_suffix(']')) {
        Some(inner) => Ok(inner.trim().to_string()),
        None => Err(Mis { route, shape: "not-a-number", why: "array wrapper lost".into(), printed }),
    }
}

// ---------------------------------------------------------------- per-value checks

/// every public printer of a computed (non-literal) float
fn check_float(f: f64, st: &mut Stats) -> Result<(), Mis> {
    let v = OwnedValue::float(f);
    // jq mode
    expect_json("jq/OwnedValue::float.to_json", v.to_json(), f)?;
    expect_json("jq/stream_owned_value_json_jq", stream_jq_of(&v), f)?;
    let arr = OwnedValue::array_from(vec![OwnedValue::float(f)]);
    expect_json("jq/to_json(nested)", unwrap_json_array1("jq/to_json(nested)", arr.to_json())?, f)?;
    // yq mode, JSON output
    expect_json("yq-json/format_float_with_fraction", format_float_with_fraction(f), f)?;
    expect_json("yq-json/format_float_yq", format_float_yq(f), f)?;
    expect_json("yq-json/stream_json", stream_json_of(&v, IndentSpec::COMPACT), f)?;
    expect_json("yq-json/stream_json(nested)", unwrap_json_array1("yq-json/stream_json(nested)", stream_json_of(&arr, IndentSpec::spaces(2)))?, f)?;
    // yq mode, YAML output
    expect_yaml("yq-yaml/format_float_with_fraction", format_float_with_fraction(f), f)?;
    expect_yaml("yq-yaml/format_float_yq", format_float_yq(f), f)?;
    expect_yaml("yq-yaml/format_float_yq_yaml", format_float_yq_yaml(f), f)?;
    expect_yaml("yq-yaml/format_float_yq_yaml_nested", format_float_yq_yaml_nested(f), f)?;
    expect_yaml("yq-yaml/stream_yaml(root)", stream_yaml_of(&v, IndentSpec::spaces(2)), f)?;
    let y = stream_yaml_of(&arr, IndentSpec::spaces(2));
    match y.strip_prefix("- ") {
        Some(tok) => expect_yaml("yq-yaml/stream_yaml(nested)", tok.trim_end().to_string(), f)?,
        None => return Err(Mis { route: "yq-yaml/stream_yaml(nested)", shape: "not-a-number", why: "no `- ` item".into(), printed: y }),
    }
    let obj = OwnedValue::object_from(vec![("a".to_string(), OwnedValue::float(f))]);
    let y = stream_yaml_of(&obj, IndentSpec::spaces(2));
    match y.strip_prefix("a: ") {
        Some(tok) => expect_yaml("yq-yaml/stream_yaml(field)", tok.trim_end().to_string(), f)?,
        None => return Err(Mis { route: "yq-yaml/stream_yaml(field)", shape: "not-a-number", why: "no `a: ` field".into(), printed: y }),
    }
    st.evals(15);
    Ok(())
}

fn expect_exact(route: &'static str, printed: String, want: &str) -> Result<(), Mis> {
    if printed == want {
        Ok(())
    } else {
        Err(Mis { route, shape: "int-not-exact", why: format!("expected {}", want), printed })
    }
}

/// harness-side decimal rendering of an i64 (digit loop; not Rust's Display)
fn i64_digits(n: i64) -> String {
    let mut m = (n as i128).unsigned_abs();
    if m == 0 {
        return "0".into();
    }
    let mut d = vec![];
    while m > 0 {
        d.push(b'0' + (m % 10) as u8);
        m /= 10;
    }
    if n < 0 {
        d.push(b'-');
    }
    d.reverse();
    String::from_utf8(d).unwrap()
}

fn check_int(n: i64, st: &mut Stats) -> Result<(), Mis> {
    let want = i64_digits(n);
    let v = OwnedValue::int(n);
    expect_exact("jq/OwnedValue::int.to_json", v.to_json(), &want)?;
    expect_exact("jq/stream_owned_value_json_jq(int)", stream_jq_of(&v), &want)?;
    expect_exact("yq-json/stream_json(int)", stream_json_of(&v, IndentSpec::COMPACT), &want)?;
    expect_exact("yq-yaml/stream_yaml(int)", stream_yaml_of(&v, IndentSpec::spaces(2)), &want)?;
    let arr = OwnedValue::array_from(vec![OwnedValue::int(n)]);
    expect_exact("jq/to_json(int nested)", arr.to_json(), &format!("[{}]", want))?;
    expect_exact("yq-yaml/stream_yaml(int nested)", stream_yaml_of(&arr, IndentSpec::spaces(2)), &format!("- {}", want))?;
    // the literal route: the digits as a document token
    let lit = OwnedValue::from_number_bytes(want.as_bytes());
    expect_exact("jq/from_number_bytes.to_json(int)", lit.to_json(), &want)?;
    expect_exact("jq/format_number_jq_compat(int)", format_number_jq_compat(want.as_bytes()), &want)?;
    expect_exact("yq-json/from_number_bytes.stream_json(int)", stream_json_of(&lit, IndentSpec::COMPACT), &want)?;
    expect_exact("yq-yaml/from_number_bytes.stream_yaml(int)", stream_yaml_of(&lit, IndentSpec::spaces(2)), &want)?;
    let plain = OwnedValue::from_number_literal_plain(&want);
    expect_exact("yq-json/from_number_literal_plain.stream_json(int)", stream_json_of(&plain, IndentSpec::COMPACT), &want)?;
    // and the YAML reader sees the same integer
    match resolve_plain(&want) {
        ResolvedScalar::Int(m) if m == n => {}
        other => return Err(Mis { route: "yq-yaml/resolve_plain(int)", shape: "int-not-exact", why: format!("{:?}", other), printed: want }),
    }
    st.evals(12);
    Ok(())
}

/// every public printer of a number that came from document text
fn check_literal(lit: &str, want: f64, st: &mut Stats) -> Result<(), Mis> {
    let b = lit.as_bytes();
    // jq mode
    expect_json("jq/format_number_jq_compat", format_number_jq_compat(b), want)?;
    let v = OwnedValue::from_number_bytes(b);
    expect_json("jq/from_number_bytes.to_json", v.to_json(), want)?;
    expect_json("jq/from_number_bytes.stream_jq", stream_jq_of(&v), want)?;
    // once computed with, the literal is dropped
    let p = v.clone().into_plain_number();
    expect_json("jq/into_plain_number.to_json", p.to_json(), want)?;
    // yq mode: literal echoed, or canonicalised (JSON-sourced input)
    expect_json("yq-json/from_number_bytes.stream_json", stream_json_of(&v, IndentSpec::COMPACT), want)?;
    expect_yaml("yq-yaml/from_number_bytes.stream_yaml", stream_yaml_of(&v, IndentSpec::spaces(2)), want)?;
    let plain = OwnedValue::from_number_literal_plain(lit);
    expect_json("yq-json/from_number_literal_plain.stream_json", stream_json_of(&plain, IndentSpec::COMPACT), want)?;
    expect_yaml("yq-yaml/from_number_literal_plain.stream_yaml", stream_yaml_of(&plain, IndentSpec::spaces(2)), want)?;
    let arr = OwnedValue::array_from(vec![plain]);
    let y = stream_yaml_of(&arr, IndentSpec::spaces(2));
    match y.strip_prefix("- ") {
        Some(tok) => expect_yaml("yq-yaml/from_number_literal_plain.stream_yaml(nested)", tok.trim_end().to_string(), want)?,
        None => return Err(Mis { route: "yq-yaml/from_number_literal_plain.stream_yaml(nested)", shape: "not-a-number", why: "no `- ` item".into(), printed: y }),
    }
    st.evals(9);
    Ok(())
}

/// the document route: the literal inside a JSON text, through the jq evaluator
fn check_literal_document(lits: &[(String, f64)], st: &mut Stats) -> Result<(), Mis> {
    let doc = format!("[{}]", lits.iter().map(|l| l.0.as_str()).collect::<Vec<_>>().join(","));
    for (prog, route_name) in [(".", "jq/eval(.)"), (".[]", "jq/eval(.[])"), ("map(. + 0)", "jq/eval(map(.+0))"), ("map(. * 1)", "jq/eval(map(.*1))"), ("map(-(-.))", "jq/eval(map(-(-.)))"), ("tojson", "jq/eval(tojson)"), ("map(tostring)", "jq/eval(map(tostring))")] {
        let o = jqeval::run(Route::Generic, prog, doc.as_bytes());
        st.evals(lits.len() as u64);
        let fail = |why: String, printed: String| Mis { route: route_name, shape: "evaluation", why, printed };
        if let Some(e) = &o.error {
            return Err(fail(e.clone(), doc.clone()));
        }
        // normalise each program's output to a list of number texts
        let texts: Vec<String> = match prog {
            ".[]" => o.texts.clone(),
            "tojson" => match o.outputs.first() {
                Some(J::Str(s)) => split_json_array(s).ok_or_else(|| fail("tojson did not print an array".into(), s.clone()))?,
                _ => return Err(fail("tojson did not yield a string".into(), o.texts.join(" "))),
            },
            "map(tostring)" => match o.outputs.first() {
                Some(J::Arr(a)) => a.iter().map(|x| if let J::Str(s) = x { s.clone() } else { "<not a string>".into() }).collect(),
                _ => return Err(fail("no array".into(), o.texts.join(" "))),
            },
            _ => match o.texts.first() {
                Some(t) => split_json_array(t).ok_or_else(|| fail("output is not an array".into(), t.clone()))?,
                None => return Err(fail("no output".into(), String::new())),
            },
        };
        if texts.len() != lits.len() {
            return Err(fail(format!("{} numbers for {} inputs", texts.len(), lits.len()), texts.join(",")));
        }
        for (t, (_, want)) in texts.iter().zip(lits) {
            expect_json(route_name, t.clone(), *want)?;
        }
    }
    Ok(())
}

/// split the text of a flat JSON array of scalars into element texts
fn split_json_array(t: &str) -> Option<Vec<String>> {
    let inner = t.trim().strip_prefix('[')?.strip_suffix(']')?;
    if inner.trim().is_empty() {
        return Some(vec![]);
    }
    Some(inner.split(',').map(|s| s.trim().to_string()).collect())
}

// ---------------------------------------------------------------- generators

fn ulps(f: f64, d: i64) -> f64 {
    if f == 0.0 || !f.is_finite() {
        return f;
    }
    let b = f.to_bits();
    let mag = (b & 0x7fff_ffff_ffff_ffff) as i64 + d;
    if mag <= 0 || mag >= 0x7ff0_0000_0000_0000 {
        return f;
    }
    f64::from_bits((b & 0x8000_0000_0000_0000) | mag as u64)
}

const THRESHOLDS: &[f64] = &[1e-7, 1e-6, 1e-5, 1e-4, 1e-3, 0.1, 1.0, 10.0, 99999.5, 1e5, 999999.5, 1e6, 1e7, 1e15, 1e16, 1e17, 1e18, 1e19, 1e20, 1e21, 1e22, 1e23, 123456.7, 0.000012345, 9.999999999999999e-5, 0.00009999999999999999, 999999.9999999999];

fn gen_f64(u: &mut Src) -> (f64, &'static str) {
    let sign = |u: &mut Src, f: f64| if u.ratio(1, 3) { -f } else { f };
    let (f, class) = match u.below(15) {
        0 | 1 => (f64::from_bits(u.u64()), "random-bits"),
        2 => {
            let m = match u.below(4) {
                0 => *u.pick(&[1u64, 2, 3, 0x000f_ffff_ffff_ffff, 0x0008_0000_0000_0000, 0x000f_ffff_ffff_fffe]),
                _ => u.u64() & 0x000f_ffff_ffff_ffff,
            };
            let f = f64::from_bits(m.max(1));
            (sign(u, f), "subnormal")
        }
        3 => (if u.bool() { 0.0 } else { -0.0 }, "zero"),
        4 => {
            let k = u.range_i64(-324, 308);
            let f: f64 = format!("1e{}", k).parse().unwrap();
            let d = u.range_i64(-2, 2);
            (sign(u, ulps(f, d)), "pow10")
        }
        5 => {
            let k = u.range_i64(-1074, 1023) as i32;
            let f = if k >= -1022 { f64::from_bits(((k + 1023) as u64) << 52) } else { f64::from_bits(1u64 << (k + 1074)) };
            let d = u.range_i64(-2, 2);
            (sign(u, ulps(f, d)), "pow2")
        }
        6 => {
            let base = *u.pick(&[9007199254740992.0f64, 9223372036854775808.0, 18446744073709551616.0, 4294967296.0, 2147483648.0, 1e15, 1e16]);
            let f = ulps(base, u.range_i64(-6, 6));
            (sign(u, f), "near-2^53-2^63-2^64")
        }
        7 => {
            let n = match u.below(3) {
                0 => *u.pick(&[i64::MAX, i64::MIN, i64::MAX - 1, i64::MIN + 1, (1i64 << 53) + 1, -(1i64 << 53) - 1, 999_999_999_999_999_999]),
                _ => u.u64() as i64 >> u.below(63),
            };
            (n as f64, "integer-valued")
        }
        8 | 9 => {
            let nd = u.range(1, 17);
            let mut s = String::new();
            s.push((b'1' + u.below(9) as u8) as char);
            for _ in 1..nd {
                s.push((b'0' + u.below(10) as u8) as char);
            }
            let e = match u.below(3) {
                0 => u.range_i64(-330, 310),
                _ => u.range_i64(-25, 25),
            };
            let f: f64 = format!("{}e{}", s, e).parse().unwrap();
            (sign(u, f), "short-decimal")
        }
        10 => {
            let base = *u.pick(THRESHOLDS);
            let d = u.range_i64(-3, 3);
            (sign(u, ulps(base, d)), "notation-threshold")
        }
        11 => {
            let num = u.range_i64(-100_000, 100_000) as f64;
            let den = (1u64 << u.below(20)) as f64;
            (num / den, "dyadic-small")
        }
        12 => (f32::from_bits(u.u32()) as f64, "f32"),
        13 => {
            let base = *u.pick(&[f64::MAX, f64::MIN_POSITIVE, 5e-324, 2.2250738585072009e-308, 1.7976931348623157e308]);
            let d = -(u.below(3) as i64);
            (sign(u, ulps(base, d)), "extreme")
        }
        _ => {
            // uniform mantissa, decimal exponent in the window where notations switch
            let m = 1.0 + (u.u64() >> 12) as f64 / (1u64 << 52) as f64;
            let e = u.range_i64(-8, 23);
            let f: f64 = format!("{:?}e{}", m * 1.5, e).parse().unwrap();
            (sign(u, f), "window")
        }
    };
    if f.is_finite() {
        (f, class)
    } else {
        // keep the mantissa, drop into the finite range
        (f64::from_bits(f.to_bits() & 0xbfff_ffff_ffff_ffff | 0x0010_0000_0000_0000), "random-bits")
    }
}

fn float_nontrivial(f: f64) -> bool {
    if f == 0.0 {
        return false;
    }
    let s = format!("{:e}", f);
    let (m, e) = s.split_once('e').unwrap();
    let digits = m.bytes().filter(|c| c.is_ascii_digit()).count();
    let e: i32 = e.parse().unwrap();
    digits >= 16 || !(-5..17).contains(&e)
}

fn gen_i64(u: &mut Src) -> (i64, &'static str) {
    match u.below(8) {
        0 => (*u.pick(&[0, 1, -1, i64::MAX, i64::MIN, i64::MAX - 1, i64::MIN + 1]), "boundary"),
        1 => {
            let k = u.range(0, 62);
            ((1i64 << k).wrapping_add(u.range_i64(-2, 2)) * if u.bool() { -1 } else { 1 }, "pow2+-")
        }
        2 => {
            let k = u.range(0, 18) as u32;
            (10i64.pow(k).wrapping_add(u.range_i64(-2, 2)) * if u.bool() { -1 } else { 1 }, "pow10+-")
        }
        3 => ((1i64 << 53) + u.range_i64(-4, 4), "near-2^53"),
        4 => (u.range_i64(-1000, 1000), "small"),
        5 => (i64::MAX - u.range_i64(0, 1000), "near-max"),
        6 => (i64::MIN + u.range_i64(0, 1000), "near-min"),
        _ => ((u.u64() as i64) >> u.below(64).min(63), "random"),
    }
}

// -- tiny big-integer (base 10^9) for exact decimal expansions of binary fractions

struct Big(Vec<u32>);

impl Big {
    fn from_u64(x: u64) -> Big {
        let mut v = vec![];
        let mut x = x;
        while x > 0 {
            v.push((x % 1_000_000_000) as u32);
            x /= 1_000_000_000;
        }
        Big(v)
    }
    fn mul_small(&mut self, m: u32) {
        let mut carry = 0u64;
        for l in self.0.iter_mut() {
            let t = *l as u64 * m as u64 + carry;
            *l = (t % 1_000_000_000) as u32;
            carry = t / 1_000_000_000;
        }
        while carry > 0 {
            self.0.push((carry % 1_000_000_000) as u32);
            carry /= 1_000_000_000;
        }
    }
    fn digits(&self) -> String {
        match self.0.split_last() {
            None => "0".into(),
            Some((top, rest)) => {
                let mut s = top.to_string();
                for l in rest.iter().rev() {
                    s.push_str(&format!("{:09}", l));
                }
                s
            }
        }
    }
}

/// exact decimal text of m * 2^e (m > 0)
fn exact_decimal(m: u64, e: i32) -> String {
    let mut b = Big::from_u64(m);
    if e >= 0 {
        let mut k = e;
        while k > 0 {
            let s = k.min(29);
            b.mul_small(1u32 << s);
            k -= s;
        }
        b.digits()
    } else {
        let mut k = -e;
        let n = k as usize;
        while k > 0 {
            let s = k.min(13);
            b.mul_small(5u32.pow(s as u32));
            k -= s;
        }
        let d = b.digits();
        if d.len() > n {
            format!("{}.{}", &d[..d.len() - n], &d[d.len() - n..])
        } else {
            format!("0.{}{}", "0".repeat(n - d.len()), d)
        }
    }
}

/// (mantissa, exponent) with f = mantissa * 2^exponent exactly, f > 0 finite
fn decompose(f: f64) -> (u64, i32) {
    let b = f.to_bits();
    let e = ((b >> 52) & 0x7ff) as i32;
    let m = b & 0x000f_ffff_ffff_ffff;
    if e == 0 {
        (m, -1074)
    } else {
        (m | (1 << 52), e - 1075)
    }
}

/// shift a plain decimal text by 10^k using an exponent suffix (value unchanged)
fn with_exponent(u: &mut Src, plain: &str) -> String {
    match u.below(3) {
        0 => plain.to_string(),
        1 => format!("{}e0", plain),
        _ => {
            // move the point left by k digits and compensate in the exponent
            let k = u.range(1, 30);
            let (ip, fp) = plain.split_once('.').unwrap_or((plain, ""));
            let ip_p = format!("{}{}", "0".repeat(k), ip);
            let cut = ip_p.len() - k;
            let new_ip = ip_p[..cut].trim_start_matches('0');
            let new_ip = if new_ip.is_empty() { "0" } else { new_ip };
            format!("{}.{}{}{}{}", new_ip, &ip_p[cut..], fp, if u.bool() { "e" } else { "E+" }, k)
        }
    }
}

fn gen_literal(u: &mut Src) -> (String, &'static str) {
    let neg = |u: &mut Src, s: String| if u.ratio(1, 4) { format!("-{}", s) } else { s };
    match u.below(12) {
        0 | 1 => match json::gen_number(u, 2) {
            J::Num(n) => (n.text, "g-json"),
            _ => ("0".into(), "g-json"),
        },
        2 | 3 => {
            // mantissa digits, optional point, exponent
            let nd = match u.below(4) {
                0 => u.range(1, 5),
                1 => u.range(15, 20),
                _ => u.range(1, 40),
            };
            let mut ds: String = (0..nd).map(|_| (b'0' + u.below(10) as u8) as char).collect();
            if ds.len() > 1 && ds.starts_with('0') {
                ds.replace_range(0..1, "7");
            }
            let point = u.below(nd + 1);
            let mant = if point == 0 || point >= nd {
                ds
            } else {
                format!("{}.{}", &ds[..point], &ds[point..])
            };
            let mant = if mant.len() > 1 && mant.starts_with('0') && !mant.starts_with("0.") { format!("0.{}", &mant[1..].replace('.', "")) } else { mant };
            let s = if u.ratio(2, 3) {
                let e = match u.below(3) {
                    0 => u.range_i64(-400, 400),
                    _ => u.range_i64(-30, 30),
                };
                let esign = if e < 0 { "-" } else if u.bool() { "+" } else { "" };
                format!("{}{}{}{}{}", mant, if u.bool() { 'e' } else { 'E' }, esign, "0".repeat(u.below(3)), e.abs())
            } else {
                mant
            };
            (neg(u, s), "mantissa-exponent")
        }
        4 => {
            let z = *u.pick(&["0", "-0", "0.0", "-0.0", "0e0", "0E0", "-0e-0", "0.000e5", "-0.0e-7", "0E+5", "0e-400", "-0e400", "0.0e400", "0.00000000000000000000", "0e+0000"]);
            (z.to_string(), "zero-spelling")
        }
        5 | 6 => {
            // exact halfway point between two adjacent doubles, or a hair off it
            let mut f = gen_f64(u).0.abs();
            if f == 0.0 || f >= f64::MAX {
                f = 1.0;
            }
            let (m, e) = decompose(f);
            let mid = exact_decimal(2 * m + 1, e - 1);
            let s = match u.below(4) {
                0 => mid,
                1 => format!("{}{}1", mid, "0".repeat(u.below(30))),
                2 => {
                    // ends in 5: a hair below
                    let mut t = mid.clone();
                    t.pop();
                    format!("{}4{}", t, "9".repeat(u.range(1, 30)))
                }
                _ => {
                    if mid.contains('.') {
                        format!("{}{}", mid, "0".repeat(u.range(1, 30)))
                    } else {
                        format!("{}.{}", mid, "0".repeat(u.range(1, 30)))
                    }
                }
            };
            let s = if s.len() < 400 { with_exponent(u, &s) } else { s };
            (neg(u, s), "halfway")
        }
        7 => {
            // exact expansion of a double itself (up to ~770 digits), optionally respelled
            let mut f = gen_f64(u).0.abs();
            if f == 0.0 {
                f = 0.1;
            }
            let (m, e) = decompose(f);
            let s = exact_decimal(m, e);
            let s = if s.len() < 400 { with_exponent(u, &s) } else { s };
            (neg(u, s), "exact-expansion")
        }
        8 => {
            let s = *u.pick(&[
                "1.7976931348623157e308", "1.7976931348623158e308", "1.797693134862315807e308", "17976931348623157e292", "0.17976931348623157e309",
                "2.4703282292062327e-324", "2.4703282292062328e-324", "4.9406564584124654e-324", "4.9e-324", "5e-324", "3e-324", "2e-324",
                "2.2250738585072011e-308", "2.2250738585072014e-308", "2.225073858507201e-308",
                "9007199254740992", "9007199254740993", "9007199254740994", "9007199254740993.0", "9007199254740993e0", "9223372036854775807", "9223372036854775808", "-9223372036854775808", "-9223372036854775809", "18446744073709551615", "18446744073709551616",
                "9223372036854775807.0", "9223372036854775807e0", "1e19", "1E19", "123456789012345678901234567890", "0.1e1", "100e-2", "1e-1", "12345678901234567890e-20",
            ]);
            (s.to_string(), "edge")
        }
        9 => {
            // long runs of zeros
            let d = u.range(1, 99999);
            let z = u.range(1, 330);
            let s = match u.below(4) {
                0 => format!("0.{}{}", "0".repeat(z), d),
                1 => format!("{}{}", d, "0".repeat(z.min(300))),
                2 => format!("{}.{}1e{}", d, "0".repeat(z), u.range_i64(-30, 30)),
                _ => format!("{}{}e-{}", d, "0".repeat(z.min(300)), u.range(0, 600)),
            };
            (neg(u, s), "zero-runs")
        }
        10 => {
            // an integer literal of 1..40 digits
            let nd = u.range(1, 40);
            let mut s = String::new();
            s.push((b'1' + u.below(9) as u8) as char);
            for _ in 1..nd {
                s.push((b'0' + u.below(10) as u8) as char);
            }
            (neg(u, s), "integer-literal")
        }
        11 if u.ratio(1, 150) => {
            // more significant digits than jq mode's rendered-mantissa cap (100 000): a tiny
            // halfway point, >100 000 zeros, a final 1, and an exponent marker so that the
            // scientific (capped) rendering is chosen
            let k = u.range_i64(-300, -8);
            let mut f: f64 = format!("{}e{}", u.range(1, 9999), k).parse().unwrap();
            if f == 0.0 || !f.is_normal() {
                f = 1e-10;
            }
            let (m, e) = decompose(f);
            let mid = exact_decimal(2 * m + 1, e - 1);
            let z = u.range(100_001, 100_400);
            let tail = if u.ratio(1, 4) { "" } else { "1" };
            (format!("{}{}{}{}", mid, "0".repeat(z), tail, *u.pick(&["e0", "E0", "e-5", "e3"])), "beyond-mantissa-cap")
        }
        _ => {
            // the shortest spelling of a double, as Rust prints it in its two styles
            let f = gen_f64(u).0;
            (if u.bool() { format!("{:e}", f) } else { format!("{:?}", f) }, "shortest")
        }
    }
}

fn literal_nontrivial(lit: &str, v: f64) -> bool {
    lit != format!("{:?}", v) && lit != format!("{}", v) && lit != format!("{:e}", v)
}

// ---------------------------------------------------------------- failure plumbing

pub const MANTISSA_CAP: usize = 100_000;
const KNOWN_CAP_SIG: &str = "C10/jq/literal-mantissa-beyond-100000-digits/value-differs";

fn significant_digits(lit: &str) -> usize {
    let mant = lit.split(['e', 'E']).next().unwrap_or("");
    let d: String = mant.chars().filter(|c| c.is_ascii_digit()).collect();
    d.trim_start_matches('0').len()
}

/// Failure of a literal route. A literal with more significant digits than jq mode's
/// rendered-mantissa cap whose printed value differs is the recorded finding; anything
/// else keeps its own signature.
fn literal_fail(m: Mis, lit: &str, input: Value) -> Fail {
    if m.shape == "value-differs" && m.route.starts_with("jq/") && significant_digits(lit) > MANTISSA_CAP + 1 && lit.contains(['e', 'E']) {
        let printed: String = m.printed.chars().take(60).collect();
        return Fail::new(KNOWN_CAP_SIG, json!({"input": input, "route": m.route, "printed_head": printed, "printed_len": m.printed.len(), "why": m.why}));
    }
    to_fail(m, input)
}

fn short(lit: &str) -> String {
    if lit.len() <= 400 {
        lit.to_string()
    } else {
        format!("{}…(+{} chars)…{}", &lit[..200], lit.len() - 260, &lit[lit.len() - 60..])
    }
}

fn to_fail(m: Mis, input: Value) -> Fail {
    Fail::new(format!("C10/{}/{}", m.route, m.shape), json!({"input": input, "printed": m.printed, "why": m.why}))
}

// ---------------------------------------------------------------- CLI layer

struct CliItem {
    text: String,
    want: f64,
    /// Some(digits) when the item is an i64 that must print digit for digit when passed through
    exact: Option<String>,
}

fn gen_cli_items(u: &mut Src, st: &mut Stats) -> Vec<CliItem> {
    let n = u.range(1, 120);
    let mut items = vec![];
    for _ in 0..n {
        match u.below(5) {
            0 => {
                let (i, _) = gen_i64(u);
                let d = i64_digits(i);
                items.push(CliItem { text: d.clone(), want: i as f64, exact: Some(d) });
            }
            1 | 2 => {
                let (f, _) = gen_f64(u);
                // the shortest round-trip spelling is itself a JSON number (Rust never prints "1." or ".5")
                let text = if u.bool() { format!("{:e}", f) } else { format!("{:?}", f) };
                if float_nontrivial(f) {
                    st.nontrivial(f.to_bits());
                }
                items.push(CliItem { text, want: f, exact: None });
            }
            _ => {
                let (lit, _) = gen_literal(u);
                let v: f64 = lit.parse().unwrap_or(f64::NAN);
                if !v.is_finite() || lit.len() > 2000 {
                    continue;
                }
                if literal_nontrivial(&lit, v) {
                    st.nontrivial(hash_str(&lit));
                }
                items.push(CliItem { text: lit, want: v, exact: None });
            }
        }
    }
    if items.is_empty() {
        items.push(CliItem { text: "1".into(), want: 1.0, exact: Some("1".into()) });
    }
    items
}

static TIMEOUTS: std::sync::atomic::AtomicU64 = std::sync::atomic::AtomicU64::new(0);
static FIRST_TIMEOUT: std::sync::Mutex<Option<String>> = std::sync::Mutex::new(None);

#[derive(Clone, Copy)]
enum Read {
    JsonArray,
    YamlSeq,
}

/// one CLI route over a batch; returns the index of the first item that reads back wrong
fn cli_route(name: &'static str, args: &[&str], file: &std::path::Path, read: Read, items: &[CliItem], passthrough: bool) -> Result<(), (Option<usize>, Mis)> {
    let f = file.to_string_lossy().to_string();
    let mut a: Vec<&str> = args.to_vec();
    a.push(&f);
    let mut o = cli::run(&a, None);
    if o.timed_out {
        // a loaded machine can starve one spawn past the watchdog: try once more
        o = cli::run(&a, None);
    }
    if o.timed_out {
        // inconclusive by itself; never a violation (reported as exit 2 at the end)
        TIMEOUTS.fetch_add(1, std::sync::atomic::Ordering::Relaxed);
        let mut g = FIRST_TIMEOUT.lock().unwrap();
        if g.is_none() {
            *g = Some(format!("args {:?} input {:?}", args, String::from_utf8_lossy(&std::fs::read(file).unwrap_or_default()).chars().take(600).collect::<String>()));
        }
        return Ok(());
    }
    if !o.ok() {
        return Err((None, Mis { route: name, shape: "cli-error", why: format!("exit {:?} signal {:?}: {}", o.code, o.signal, o.stderr_str().chars().take(300).collect::<String>()), printed: String::new() }));
    }
    let out = o.stdout_str();
    let got: Vec<(f64, String)> = match read {
        Read::JsonArray => match split_json_array(&out) {
            Some(ts) => {
                let mut v = vec![];
                for t in ts {
                    match json_number(&t) {
                        Ok(x) => v.push((x, t)),
                        Err(e) => return Err((Some(v.len()), Mis { route: name, shape: "not-a-number", why: e, printed: t })),
                    }
                }
                v
            }
            None => return Err((None, Mis { route: name, shape: "not-a-number", why: "stdout is not one flat JSON array".into(), printed: out.chars().take(300).collect() })),
        },
        Read::YamlSeq => {
            let mut v = vec![];
            // YAML-sourced input keeps its flow style: `[a, b, c]` on one line
            let flow: Option<Vec<String>> = split_json_array(&out).filter(|_| out.trim_start().starts_with('[')).map(|ts| ts.into_iter().map(|t| format!("- {}", t)).collect());
            let block: Vec<String> = out.lines().filter(|l| !l.is_empty()).map(|l| l.to_string()).collect();
            for line in flow.as_ref().unwrap_or(&block) {
                let r = line.strip_prefix("- ").ok_or_else(|| format!("line is not a `- item`: {:?}", line)).and_then(|t| yaml_number(t.trim_end()).map(|n| (n, t.trim_end().to_string())));
                match r {
                    Ok((n, t)) => {
                        let t2 = t.strip_prefix("!!float ").unwrap_or(&t).to_string();
                        v.push((n.value(), t2));
                    }
                    Err(e) => return Err((Some(v.len()), Mis { route: name, shape: "not-a-number", why: e, printed: line.to_string() })),
                }
            }
            v
        }
    };
    if got.len() != items.len() {
        return Err((None, Mis { route: name, shape: "count", why: format!("{} numbers printed for {} inputs", got.len(), items.len()), printed: out.chars().take(300).collect() }));
    }
    for (i, ((v, t), it)) in got.iter().zip(items).enumerate() {
        if !same(*v, it.want) {
            return Err((Some(i), Mis { route: name, shape: "value-differs", why: format!("input {} reads back as {:e}", it.text, v), printed: t.clone() }));
        }
        if passthrough {
            if let Some(d) = &it.exact {
                if t != d {
                    return Err((Some(i), Mis { route: name, shape: "int-not-exact", why: format!("expected {}", d), printed: t.clone() }));
                }
            }
        }
    }
    Ok(())
}

const CLI_ROUTES: &[(&str, &[&str], bool, bool)] = &[
    // (name, args, yaml output?, pass-through?)
    ("cli/jq -c .", &["jq", "-c", "."], false, true),
    ("cli/jq -c map(.+0)", &["jq", "-c", "map(. + 0)"], false, false),
    ("cli/jq -c map(.*1)", &["jq", "-c", "map(. * 1)"], false, false),
    ("cli/yq -o json .", &["yq", "-o", "json", "-I0", "."], false, true),
    ("cli/yq -p yaml -o json .", &["yq", "-p", "yaml", "-o", "json", "-I0", "."], false, true),
    ("cli/yq .", &["yq", "."], true, true),
    ("cli/yq -p yaml .", &["yq", "-p", "yaml", "."], true, true),
    ("cli/yq map(.*1)", &["yq", "map(. * 1)"], true, false),
    ("cli/yq -o json map(.*1)", &["yq", "-o", "json", "-I0", "map(. * 1)"], false, false),
    ("cli/yq -o json map(.+0)", &["yq", "-o", "json", "-I0", "map(. + 0)"], false, false),
];

fn check_cli_batch(items: &[CliItem]) -> Result<(), Fail> {
    let doc = format!("[{}]", items.iter().map(|i| i.text.as_str()).collect::<Vec<_>>().join(","));
    let path = cli::write_tmp("c10", doc.as_bytes());
    let path = {
        // the yq front end picks the input format from the extension
        let p2 = path.with_extension("json");
        let _ = std::fs::rename(&path, &p2);
        p2
    };
    let mut res = Ok(());
    for (name, args, yaml, pass) in CLI_ROUTES {
        let read = if *yaml { Read::YamlSeq } else { Read::JsonArray };
        if let Err((idx, m)) = cli_route(name, args, &path, read, items, *pass) {
            let input = match idx {
                Some(i) => json!({"literal": items[i].text, "batch_size": items.len(), "index": i}),
                None => json!({"batch": doc.chars().take(2000).collect::<String>()}),
            };
            res = Err(to_fail(m, input));
            break;
        }
    }
    let _ = std::fs::remove_file(&path);
    res
}

// ---------------------------------------------------------------- replays

fn replay_input(v: &Value) -> Option<Fail> {
    let inp = &v["input"];
    let mut st = Stats::default();
    let r: Result<(), Fail> = match v["subcheck"].as_str().unwrap_or("") {
        "float" => {
            let bits = u64::from_str_radix(inp["bits_hex"].as_str().unwrap_or("0").trim_start_matches("0x"), 16).unwrap_or(0);
            let f = f64::from_bits(bits);
            check_float(f, &mut st).map_err(|m| to_fail(m, json!({"bits_hex": format!("{:016x}", bits), "value": format!("{:e}", f)})))
        }
        "int" => {
            let n = inp["value"].as_i64().unwrap_or(0);
            check_int(n, &mut st).map_err(|m| to_fail(m, json!({"value": n})))
        }
        "literal" => {
            let lit = inp["literal"].as_str().unwrap_or("0").to_string();
            let want: f64 = lit.parse().unwrap_or(f64::NAN);
            if !want.is_finite() {
                Err(Fail::new("C10/replay/bad-input", json!({"literal": lit})))
            } else {
                check_literal(&lit, want, &mut st)
                    .and_then(|_| check_literal_document(&[(lit.clone(), want)], &mut st))
                    .map_err(|m| to_fail(m, json!({"literal": lit})))
            }
        }
        // a literal too long to store: prefix + zeros x "0" + suffix
        "literal-parts" => {
            let lit = format!("{}{}{}", inp["prefix"].as_str().unwrap_or(""), "0".repeat(inp["zeros"].as_u64().unwrap_or(0) as usize), inp["suffix"].as_str().unwrap_or(""));
            let want: f64 = lit.parse().unwrap_or(f64::NAN);
            if !want.is_finite() || !matches!(jsonval::parse_one(lit.as_bytes()), Ok(J::Num(_))) {
                Err(Fail::new("C10/replay/bad-input", json!({"literal": short(&lit)})))
            } else {
                check_literal(&lit, want, &mut st)
                    .and_then(|_| check_literal_document(&[(lit.clone(), want)], &mut st))
                    .map_err(|m| literal_fail(m, &lit, json!({"literal": short(&lit), "literal_len": lit.len()})))
            }
        }
        "cli" => {
            let lits: Vec<String> = inp["literals"].as_array().map(|a| a.iter().filter_map(|x| x.as_str().map(|s| s.to_string())).collect()).unwrap_or_default();
            let items: Vec<CliItem> = lits
                .iter()
                .map(|l| CliItem { text: l.clone(), want: l.parse().unwrap_or(f64::NAN), exact: l.parse::<i64>().ok().map(i64_digits).filter(|d| d == l) })
                .collect();
            if items.is_empty() || items.iter().any(|i| !i.want.is_finite()) || !cli::cli_available() {
                Err(Fail::new("C10/replay/bad-input", json!({"literals": lits})))
            } else {
                check_cli_batch(&items)
            }
        }
        other => Err(Fail::new("C10/replay/unknown-subcheck", json!({"subcheck": other}))),
    };
    r.err()
}

// ---------------------------------------------------------------- run

/// class guards only make sense for a generated search (not under `vh replay`)
fn req(cx: &mut Ctx, sub: &str, class: &str, min: u64) {
    if cx.replay_entropy.is_none() {
        cx.require_class(sub, class, min);
    }
}

pub fn run(cx: &mut Ctx) {
    cx.assume("trusted base: Rust's str::parse::<f64> is correctly rounded; O-jsonval decides the JSON number grammar; the YAML 1.2 core-schema number rules (10.3.2) are re-implemented in this module");
    cx.assume("equality is numeric equality of doubles (bit equality for non-zero values); the sign of zero is not asserted");
    cx.assume("only finite doubles and literals whose value is a finite double are in the domain; literals that overflow are discarded and counted");
    cx.assume("integers: every i64 handed to a printer, or passed through unchanged by the CLI, must print digit for digit (harness digit loop); integers that have been computed with (map(.+0), map(.*1)) only need to read back to the same double");
    for (name, v) in cx.replays.clone() {
        if v["kind"] == "input" {
            let r = replay_input(&v);
            cx.replay_outcome(&name, r);
        }
    }

    cx.check(
        "float-printers",
        "1-48 finite doubles per case through 15 printer routes each: jq to_json / stream_owned_value_json_jq (root, nested), yq JSON (format_float_with_fraction, format_float_yq, StreamableValue::stream_json root/nested), yq YAML (format_float_with_fraction, format_float_yq, format_float_yq_yaml, format_float_yq_yaml_nested, StreamableValue::stream_yaml root / sequence item / mapping value); JSON routes must print a JSON number, YAML routes a core-schema number that the harness and resolve_plain both read as the source double",
        Budget { quick: 40_000, thorough: 2_000_000, max_len: 1024 },
        |u, st| {
            let n = u.range(1, 48);
            let mut vals = vec![];
            for _ in 0..n {
                let (f, class) = gen_f64(u);
                st.class(class);
                if float_nontrivial(f) {
                    st.class("nontrivial");
                    st.nontrivial(f.to_bits());
                }
                st.class_if(f.abs() >= 1e21 || (f != 0.0 && f.abs() < 1e-6), "scientific-range");
                st.class_if(f.fract() == 0.0 && f.abs() < 1e15, "whole-number");
                st.sample(class, || json!({"bits_hex": format!("{:016x}", f.to_bits()), "value": format!("{:e}", f)}));
                vals.push(f);
            }
            st.describe(|| json!({"doubles": vals.iter().map(|f| json!({"bits_hex": format!("{:016x}", f.to_bits()), "value": format!("{:e}", f)})).collect::<Vec<_>>()}));
            for &f in &vals {
                check_float(f, st).map_err(|m| to_fail(m, json!({"bits_hex": format!("{:016x}", f.to_bits()), "value": format!("{:e}", f)})))?;
            }
            Ok(())
        },
    );
    for c in ["nontrivial", "random-bits", "subnormal", "zero", "pow10", "pow2", "near-2^53-2^63-2^64", "integer-valued", "short-decimal", "notation-threshold", "f32", "extreme", "window", "whole-number", "scientific-range"] {
        req(cx, "float-printers", c, 50);
    }

    cx.check(
        "i64-exact",
        "1-48 i64 values per case (boundaries, 2^k and 10^k +-2, near 2^53, near MIN/MAX, random widths) through OwnedValue::int / from_number_bytes / from_number_literal_plain and every jq / yq JSON / yq YAML printer (root and nested): the text must be exactly the decimal digits (harness digit loop) and resolve_plain must read the same integer",
        Budget { quick: 20_000, thorough: 1_000_000, max_len: 1024 },
        |u, st| {
            let n = u.range(1, 48);
            let mut vals = vec![];
            for _ in 0..n {
                let (i, class) = gen_i64(u);
                st.class(class);
                if i.unsigned_abs() > (1 << 53) {
                    st.class("beyond-2^53");
                    st.nontrivial(i as u64);
                }
                st.sample(class, || json!({ "value": i }));
                vals.push(i);
            }
            st.describe(|| json!({ "ints": vals }));
            for &i in &vals {
                check_int(i, st).map_err(|m| to_fail(m, json!({ "value": i })))?;
            }
            Ok(())
        },
    );
    for c in ["boundary", "beyond-2^53", "near-2^53", "near-max", "near-min", "random"] {
        req(cx, "i64-exact", c, 50);
    }

    cx.check(
        "literal-printers",
        "1-24 JSON-grammar literals per case (finite values only) through format_number_jq_compat, from_number_bytes -> to_json / stream_owned_value_json_jq / into_plain_number, yq echo (stream_json, stream_yaml) and yq canonicalisation (from_number_literal_plain -> stream_json / stream_yaml root and nested); then the whole batch as one JSON document through the generic evaluator with `.`, `.[]`, map(.+0), map(.*1), map(-(-.)), tojson and map(tostring); every printed number must read back as the literal's double",
        Budget { quick: 40_000, thorough: 1_000_000, max_len: 2048 },
        |u, st| {
            let n = u.range(1, 24);
            let mut lits: Vec<(String, f64)> = vec![];
            for _ in 0..n {
                let (lit, class) = gen_literal(u);
                // generator self-check: the literal is in the JSON grammar
                if !matches!(jsonval::parse_one(lit.as_bytes()), Ok(J::Num(_))) {
                    return Err(Fail::new("C10/generator/not-a-json-number", json!({"literal": lit, "class": class})));
                }
                let v: f64 = lit.parse().unwrap_or(f64::NAN);
                if !v.is_finite() {
                    st.class("discarded-overflow");
                    continue;
                }
                st.class(class);
                if literal_nontrivial(&lit, v) {
                    st.class("nontrivial");
                    st.nontrivial(hash_str(&lit));
                }
                st.class_if(v == 0.0 && lit.bytes().any(|c| (b'1'..=b'9').contains(&c)) && !lit.trim_start_matches('-').starts_with("0e") && !lit.trim_start_matches('-').starts_with("0E"), "underflows-to-zero");
                st.class_if(lit.len() > 100, "long>100");
                st.class_if(lit.contains(['e', 'E']), "has-exponent");
                st.sample(class, || json!({"literal": lit.chars().take(200).collect::<String>(), "value": format!("{:e}", v)}));
                lits.push((lit, v));
            }
            st.describe(|| json!({"literals": lits.iter().map(|l| short(&l.0)).collect::<Vec<_>>()}));
            let mut small: Vec<(String, f64)> = vec![];
            for (lit, v) in &lits {
                check_literal(lit, *v, st).map_err(|m| literal_fail(m, lit, json!({"literal": short(lit), "literal_len": lit.len(), "value": format!("{:e}", v)})))?;
                if lit.len() > 5000 {
                    // huge literals go through the evaluator on their own
                    check_literal_document(&[(lit.clone(), *v)], st).map_err(|m| literal_fail(m, lit, json!({"literal": short(lit), "literal_len": lit.len()})))?;
                } else {
                    small.push((lit.clone(), *v));
                }
            }
            if !small.is_empty() {
                check_literal_document(&small, st).map_err(|m| to_fail(m, json!({"literals": small.iter().map(|l| l.0.clone()).collect::<Vec<_>>()})))?;
            }
            Ok(())
        },
    );
    req(cx, "literal-printers", "beyond-mantissa-cap", 10);
    for c in ["nontrivial", "g-json", "mantissa-exponent", "zero-spelling", "halfway", "exact-expansion", "edge", "zero-runs", "integer-literal", "shortest", "has-exponent", "long>100"] {
        req(cx, "literal-printers", c, 50);
    }

    if cli::cli_available() {
        cx.check(
            "cli-batches",
            "one JSON array of 1-120 numbers per case (i64 digits, shortest spellings of generated doubles, generated literals; finite only) written to a .json file and run through `jq -c .`, `jq -c 'map(.+0)'`, `jq -c 'map(.*1)'`, `yq -o json -I0 .` (auto and -p yaml), `yq .` (auto and -p yaml), `yq 'map(.*1)'`, `yq -o json 'map(.*1)'`, `yq -o json 'map(.+0)'`; JSON output read with O-jsonval, YAML output with the core-schema line reader; every number must read back as its source double and pass-through i64 must print digit for digit",
            Budget { quick: 40, thorough: 2_000, max_len: 8192 },
            |u, st| {
                let items = gen_cli_items(u, st);
                st.class_if(items.iter().any(|i| i.exact.is_some()), "has-i64");
                st.class_if(items.len() >= 20, "batch>=20");
                st.size(items.len());
                st.evals(items.len() as u64 * CLI_ROUTES.len() as u64);
                st.describe(|| json!({"literals": items.iter().map(|i| i.text.clone()).collect::<Vec<_>>()}));
                st.sample("batch", || json!({"n": items.len(), "first": items.iter().take(6).map(|i| i.text.chars().take(60).collect::<String>()).collect::<Vec<_>>()}));
                check_cli_batch(&items)
            },
        );
        req(cx, "cli-batches", "batch>=20", 10);
        let t = TIMEOUTS.load(std::sync::atomic::Ordering::Relaxed);
        if t > 0 {
            let first = FIRST_TIMEOUT.lock().unwrap().clone().unwrap_or_default();
            cx.infra(format!("{} CLI spawns hit the 20 s watchdog (inconclusive); first: {}", t, first));
        }
    } else {
        cx.infra(format!("CLI binary not found at {}", cli::cli_path()));
    }
    cli::cleanup();
}
