//! C07 — JSON interest-bit rank/select and node positions are exact (DESIGN §4 C07).
//!
//! Two sub-checks:
//! * `ib-rank-select`: any text (valid JSON, near-valid mutations, token soups, raw
//!   bytes). The model is the list of 1-bit positions read from `index.ib()` below
//!   `ib_len`; `ib_rank1`, `ib_select1` and `ib_select1_from` (every hint) are compared
//!   with it. `cursor_at_offset` is checked for consistency only (a returned cursor must
//!   sit on the greatest interest bit not after the offset).
//! * `node-positions`: valid G-json texts with a span table. Every cursor reachable from
//!   the root reports its span start; `cursor_at_offset(o)` / `cursor_at_position(l, c)`
//!   return the node with the greatest start <= o for every offset.
use crate::engine::*;
use crate::gen::json::*;
use serde_json::{json, Value};
use succinctly::json::light::{JsonCursor, JsonIndex};

pub const RULE: &str = "ib-rank-select: texts of 0-20000 bytes (G-json renderings, near-valid mutations, token soups, raw bytes, tiled to many IB words); model = 1-bit positions of index.ib() below ib_len; ib_rank1 at every position 0..=len+70 (sampled when large) and huge positions, ib_select1 for k in 0..ones+3 and k in {2^32-1, 2^32+j, usize::MAX}, ib_select1_from for every (k, hint) pair with hint in 0..=words+10 (stratified around the answer word when large) on the owned and the borrowed (from_parts) index. node-positions: valid G-json texts; every reachable cursor's text_position = recorded span start (values and keys, document order); cursor_at_offset(o) for every o in 0..=len+2 and cursor_at_position(naive LF/CR/CRLF line, column) = node with greatest start <= o, None iff none / out of range. Non-trivial: >=2 IB words and >=3 ones (and hints other than the cursor's own rank/8); distinct by hash(text).";

const BIG: usize = 1usize << 32;

// ------------------------------------------------------------------ text sources

fn soup(u: &mut Src, n: usize) -> Vec<u8> {
    const TOK: &[&[u8]] = &[
        b"{", b"}", b"[", b"]", b":", b",", b"\"", b"\\", b"\\\"", b"\\\\", b"\"a\"", b"\"\"", b"1", b"-0.5e+3", b"true", b"false", b"null", b" ", b"\n", b"\t", b"\r", b"x", b"\\u00e9", b"\xc3\xa9", b"[]", b"{}", b"\"k\":", b"1,", b"@", b"`", b"~", b"\x7f", b"*", b"<", b".", b"+", b"-", b"e", b"0",
    ];
    let mut v = Vec::with_capacity(n + 8);
    while v.len() < n {
        v.extend_from_slice(TOK[u.below(TOK.len())]);
    }
    v.truncate(n);
    v
}

fn valid_text(u: &mut Src, max_nodes: usize) -> Vec<u8> {
    let o = GenOpts {
        max_depth: *u.pick(&[1, 2, 3, 5, 8]),
        max_nodes: u.range(1, max_nodes),
        strings: *u.pick(&[StrPalette::Full, StrPalette::Ascii, StrPalette::AsciiPlain]),
        max_str_len: *u.pick(&[4, 24, 120]),
        ..GenOpts::default()
    };
    let j = gen_value(u, &o);
    let ro = render_opts(u);
    let r = render(&j, u, ro);
    drop_deep(j);
    r.text
}

fn mutate(u: &mut Src, t: &mut Vec<u8>) {
    for _ in 0..u.range(1, 4) {
        if t.is_empty() {
            t.push(u.byte());
            continue;
        }
        let i = u.below(t.len());
        match u.below(6) {
            0 => t[i] = u.byte(),
            1 => t.insert(i, *u.pick(b"{}[]:,\"\\ \n01et")),
            2 => {
                t.remove(i);
            }
            3 => t.truncate(i),
            4 => {
                let j = u.below(t.len());
                t.swap(i, j);
            }
            _ => {
                let j = u.below(t.len());
                let (a, b) = (i.min(j), i.max(j));
                let piece = t[a..b].to_vec();
                let at = u.below(t.len());
                for (k, x) in piece.into_iter().enumerate() {
                    t.insert(at + k, x);
                }
            }
        }
    }
}

/// Any text up to `max` bytes; returns (text, source class).
fn any_text(u: &mut Src, max: usize) -> (Vec<u8>, &'static str) {
    let (mut t, cls) = match u.below(8) {
        0 | 1 | 2 => (valid_text(u, 120), "valid"),
        3 | 4 => {
            let mut t = valid_text(u, 80);
            mutate(u, &mut t);
            (t, "mutated")
        }
        5 | 6 => {
            let n = u.len_biased(600, &[0, 1, 63, 64, 65, 127, 128, 129]);
            (soup(u, n), "soup")
        }
        _ => {
            let n = u.len_biased(300, &[0, 1, 63, 64, 65]);
            (u.bytes(n), "raw")
        }
    };
    // tile to many IB words (little entropy -> long input), with long interest-free
    // stretches (a long string / whitespace run) so whole IB words are zero
    if u.ratio(1, 3) && !t.is_empty() {
        let target = u.len_biased(max, &[64 * 8, 64 * 64, 64 * 65]);
        let piece = t.clone();
        let filler: Vec<u8> = match u.below(3) {
            0 => vec![b' '; u.range(1, 700)],
            1 => {
                let mut f = vec![b'"'];
                f.extend(std::iter::repeat(b'z').take(u.range(1, 900)));
                f.push(b'"');
                f
            }
            _ => vec![],
        };
        while t.len() < target {
            if u.ratio(1, 4) {
                t.extend_from_slice(&filler);
            }
            t.extend_from_slice(&piece);
            if u.ratio(1, 3) {
                t.push(*u.pick(b", \n"));
            }
        }
    }
    t.truncate(max);
    (t, cls)
}

// ------------------------------------------------------------------ model

fn ones_of(index_ib: &[u64], ib_len: usize) -> Vec<usize> {
    let mut v = vec![];
    for i in 0..ib_len {
        let w = i / 64;
        if w < index_ib.len() && (index_ib[w] >> (i % 64)) & 1 == 1 {
            v.push(i);
        }
    }
    v
}

fn hints_for(u: &mut Src, words: usize, answer_word: Option<usize>) -> Vec<usize> {
    if words <= 40 {
        let mut v: Vec<usize> = (0..=words + 10).collect();
        v.push(usize::MAX);
        v.push(BIG);
        return v;
    }
    let mut v = vec![0, 1, 2, words / 2, words - 2, words - 1, words, words + 1, words + 10, usize::MAX, BIG];
    if let Some(a) = answer_word {
        for d in [0usize, 1, 2, 3, 4, 5, 7, 8, 9, 15, 16, 17, 31, 32, 33, 64, 100, 128, 129] {
            v.push(a.saturating_sub(d));
            v.push((a + d).min(words + 10));
        }
    }
    for _ in 0..8 {
        v.push(u.range(0, words + 10));
    }
    v.sort();
    v.dedup();
    v
}

fn sel_fail(api: &str, k: usize, hint: Option<usize>, exp: Option<usize>, act: Option<usize>, ones: &[usize], text: &[u8]) -> Fail {
    // Shape of the known finding: k >= 2^32 is truncated to u32, so the answer is the
    // (k mod 2^32)-th one instead of None. Anything else keeps the generic signature.
    let truncated = k >= BIG && exp.is_none() && act.is_some() && act == ones.get(k & 0xffff_ffff).copied();
    let sig = if truncated { format!("C07/{}/k>=2^32-truncated-to-u32", api) } else { format!("C07/{}/wrong-position", api) };
    Fail::new(
        sig,
        json!({"api": api, "k": k, "hint": hint, "expected": format!("{:?}", exp), "actual": format!("{:?}", act), "ones": ones.len(), "len": text.len(), "input": crate::props::c06::text_json(text)}),
    )
}

struct Queries {
    /// all (k, hint) pairs when the index is small
    dense: bool,
}

fn check_rank_select<W: AsRef<[u64]>>(
    which: &str,
    index: &JsonIndex<W>,
    text: &[u8],
    ones: &[usize],
    u: &mut Src,
    st: &mut Stats,
    q: &Queries,
    huge_k: bool,
) -> Result<(), Fail> {
    let len = text.len();
    let words = index.ib().len();
    let n1 = ones.len();
    let tj = || crate::props::c06::text_json(text);

    // rank
    let mut rpts: Vec<usize> = if len <= 2500 {
        (0..=len + 70).collect()
    } else {
        let mut v: Vec<usize> = vec![0, 1, len - 1, len, len + 1, len + 63, len + 64, len + 65, len + 70];
        let step = (words / 150).max(1);
        let mut w = 0;
        while w * 64 <= len + 64 {
            for d in [-1isize, 0, 1] {
                let p = (w * 64) as isize + d;
                if p >= 0 {
                    v.push(p as usize);
                }
            }
            w += step;
        }
        for _ in 0..200 {
            v.push(u.range(0, len + 70));
        }
        let s = u.range(0, len);
        v.extend(s..s + 130);
        v
    };
    rpts.extend([BIG - 1, BIG, BIG + 1, usize::MAX - 64, usize::MAX - 1, usize::MAX]);
    for &p in &rpts {
        let exp = ones.partition_point(|&x| x < p.min(len));
        let act = index.ib_rank1(p);
        if exp != act {
            fail!(format!("C07/ib_rank1/{}", if p > len { "past-len" } else { "in-range" }), {"which": which, "pos": p, "expected": exp, "actual": act, "len": len, "input": tj()});
        }
    }
    st.evals(rpts.len() as u64);

    // select (binary search)
    let ks: Vec<usize> = if n1 + 3 <= 3000 {
        (0..n1 + 3).collect()
    } else {
        let mut v: Vec<usize> = (0..400).map(|_| u.range(0, n1 + 2)).collect();
        v.extend([0, 1, 2, n1 - 2, n1 - 1, n1, n1 + 1, n1 + 2]);
        v
    };
    for &k in &ks {
        let exp = ones.get(k).copied();
        let act = index.ib_select1(k);
        if exp != act {
            return Err(sel_fail("ib_select1", k, None, exp, act, ones, text));
        }
    }
    st.evals(ks.len() as u64);

    // select with hint
    let kh: Vec<usize> = if q.dense && n1 <= 400 {
        (0..n1 + 3).collect()
    } else {
        let mut v: Vec<usize> = vec![0, 1, n1 / 2, n1.saturating_sub(2), n1.saturating_sub(1), n1, n1 + 1, n1 + 2];
        for _ in 0..40 {
            v.push(u.range(0, n1 + 1));
        }
        v.sort();
        v.dedup();
        v
    };
    let mut pairs = 0u64;
    for &k in &kh {
        let exp = ones.get(k).copied();
        let hs = hints_for(u, words, exp.map(|p| p / 64));
        for &h in &hs {
            let act = index.ib_select1_from(k, h);
            if exp != act {
                return Err(sel_fail("ib_select1_from", k, Some(h), exp, act, ones, text));
            }
            if h != k / 8 {
                pairs += 1;
            }
        }
        st.evals(hs.len() as u64);
    }
    let _ = pairs;

    // ranks that can never be satisfied but do not wrap to a valid rank in 32 bits
    for &k in &[BIG - 1, usize::MAX, usize::MAX - 1, (BIG - 1) + BIG] {
        if (k & 0xffff_ffff) < n1 {
            continue;
        }
        let act = index.ib_select1(k);
        if act.is_some() {
            return Err(sel_fail("ib_select1", k, None, None, act, ones, text));
        }
        for h in [0, words / 2, words, usize::MAX] {
            let act = index.ib_select1_from(k, h);
            if act.is_some() {
                return Err(sel_fail("ib_select1_from", k, Some(h), None, act, ones, text));
            }
        }
        st.evals(5);
    }

    // k >= 2^32 whose low 32 bits are a valid rank (shape of the open finding): last,
    // and only in a fraction of the cases, so everything above has been checked before
    // a case is excluded for it
    if huge_k && n1 > 0 {
        st.class("huge-k-probe");
        let mut big = vec![BIG, BIG + n1 - 1, BIG + n1 / 2, 3 * BIG + (n1 - 1).min(7)];
        big.dedup();
        // one API per case (both carry the same open finding; a known-finding Fail ends
        // the case, so each must get cases of its own)
        if u.bool() {
            st.class("huge-k-probe-select1");
            for &k in &big {
                let act = index.ib_select1(k);
                if act.is_some() {
                    return Err(sel_fail("ib_select1", k, None, None, act, ones, text));
                }
            }
        } else {
            st.class("huge-k-probe-select1_from");
            for &k in &big {
                for h in [0, words / 2, words, words + 10] {
                    let act = index.ib_select1_from(k, h);
                    if act.is_some() {
                        return Err(sel_fail("ib_select1_from", k, Some(h), None, act, ones, text));
                    }
                }
            }
        }
        st.evals(big.len() as u64 * 5);
    }
    Ok(())
}

fn check_any_text(text: &[u8], cls: &str, u: &mut Src, st: &mut Stats) -> Result<(), Fail> {
    let len = text.len();
    let index = JsonIndex::build(text);
    check_eq!("C07/ib_len", len, index.ib_len(), {"len": len});
    let ones = ones_of(index.ib(), index.ib_len());
    let words = index.ib().len();
    // bits at or beyond ib_len would be invisible to select but visible to rank
    let total: usize = index.ib().iter().map(|w| w.count_ones() as usize).sum();
    check_eq!("C07/ib/stray-bits-past-ib_len", ones.len(), total, {"len": len, "input": crate::props::c06::text_json(text)});

    let nt = words >= 2 && ones.len() >= 3;
    if nt {
        st.nontrivial(hash_bytes(text));
    }
    st.class_if(nt, "nontrivial");
    st.class(&format!("source-{}", cls));
    st.class_if(words >= 2, "ib-words>=2");
    st.class_if(words > 40, "ib-words>40");
    st.class_if(words > 128, "ib-words>128");
    st.class_if(len % 64 != 0, "len-not-multiple-of-64");
    st.class_if(ones.is_empty(), "no-ones");
    let zero_words = index.ib().iter().filter(|w| **w == 0).count();
    st.class_if(zero_words >= 3 && !ones.is_empty(), "zero-ib-words>=3");
    let gap = ones.windows(2).any(|w| w[1] / 64 >= w[0] / 64 + 4);
    st.class_if(gap, "gap>=4-words-between-ones");
    st.size(len);
    st.sample(cls, || json!({"text": show_bytes(&text[..len.min(200)]), "len": len, "ones": ones.len(), "ib_words": words}));

    let huge_k = u.ratio(1, 12);
    let q = Queries { dense: words <= 40 };
    check_rank_select("owned", &index, text, &ones, u, st, &q, false)?;

    // borrowed index over the same words (generic storage)
    if u.ratio(1, 3) {
        let ibw: Vec<u64> = index.ib().to_vec();
        let bpw: Vec<u64> = index.bp().words().to_vec();
        let b: JsonIndex<&[u64]> = JsonIndex::from_parts(&ibw[..], index.ib_len(), &bpw[..], index.bp().len());
        st.class("borrowed-from_parts");
        check_rank_select("borrowed", &b, text, &ones, u, st, &Queries { dense: false }, false)?;
    }

    // offset -> node, consistency half (any text)
    let root = index.root(text);
    let opts: Vec<usize> = if len <= 600 {
        (0..=len + 2).collect()
    } else {
        let mut v: Vec<usize> = (0..150).map(|_| u.range(0, len + 1)).collect();
        v.extend([0, 1, len - 1, len, len + 1]);
        for _ in 0..50 {
            if !ones.is_empty() {
                let p = ones[u.below(ones.len())];
                v.extend([p.saturating_sub(1), p, p + 1]);
            }
        }
        v
    };
    for &o in &opts {
        if let Some(c) = root.cursor_at_offset(o) {
            let pred = if o < len { ones[..ones.partition_point(|&x| x <= o)].last().copied() } else { None };
            let tp = c.text_position();
            if pred.is_none() || tp != pred {
                fail!("C07/cursor_at_offset/any-text/inconsistent-start", {"offset": o, "expected_start": pred, "cursor_text_position": tp, "bp": c.bp_position(), "input": crate::props::c06::text_json(text)});
            }
        }
    }
    st.evals(opts.len() as u64);

    if huge_k {
        check_rank_select("owned-huge-k", &index, text, &ones, u, st, &Queries { dense: false }, true)?;
    }
    Ok(())
}

// ------------------------------------------------------------------ node positions

fn naive_line_starts(text: &[u8]) -> Vec<usize> {
    let mut starts = vec![0usize];
    let mut i = 0;
    while i < text.len() {
        let next = match text[i] {
            b'\n' => i + 1,
            b'\r' => {
                if i + 1 < text.len() && text[i + 1] == b'\n' {
                    i + 2
                } else {
                    i + 1
                }
            }
            _ => {
                i += 1;
                continue;
            }
        };
        if next < text.len() {
            starts.push(next);
        }
        i = next;
    }
    starts
}

fn check_positions(root_j: &J, r: &Rendered, u: &mut Src, st: &mut Stats) -> Result<(), Fail> {
    let text = &r.text[..];
    let len = text.len();
    let index = JsonIndex::build(text);
    let root = index.root(text);
    let tj = || crate::props::c06::text_json(text);
    let _ = root_j;

    // all cursors reachable from the root, document order
    let mut walked: Vec<JsonCursor<'_, Vec<u64>>> = Vec::with_capacity(r.spans.len());
    {
        let mut stack = vec![root];
        while let Some(c) = stack.pop() {
            walked.push(c);
            let mut kids = vec![];
            let mut k = c.first_child();
            while let Some(kc) = k {
                kids.push(kc);
                k = kc.next_sibling();
            }
            for kc in kids.into_iter().rev() {
                stack.push(kc);
            }
        }
    }
    check_eq!("C07/nodes/count", r.spans.len(), walked.len(), {"input": tj()});
    for (i, c) in walked.iter().enumerate() {
        let sp = &r.spans[i];
        let tp = c.text_position();
        if tp != Some(sp.start) {
            fail!(format!("C07/text_position/{}", if sp.role == Role::Key { "key" } else { sp.kind }), {"node": i, "expected": sp.start, "actual": tp, "bp": c.bp_position(), "input": tj()});
        }
    }
    st.evals(walked.len() as u64);

    let starts: Vec<usize> = r.spans.iter().map(|s| s.start).collect();
    let lines = naive_line_starts(text);
    let offsets: Vec<usize> = if len <= 3000 {
        (0..=len + 2).collect()
    } else {
        let mut v: Vec<usize> = (0..400).map(|_| u.range(0, len + 1)).collect();
        v.extend([0, 1, len - 1, len, len + 1]);
        for _ in 0..300 {
            let sp = &r.spans[u.below(r.spans.len())];
            v.extend([sp.start.saturating_sub(1), sp.start, sp.start + 1, sp.end.saturating_sub(1), sp.end]);
        }
        v
    };
    // a second receiver: the result must not depend on the cursor it is called on
    let other = walked[u.below(walked.len())];
    for &o in &offsets {
        let idx = starts.partition_point(|&s| s <= o);
        let exp = if o < len && idx > 0 { Some(idx - 1) } else { None };
        for (recv, name) in [(&root, "root"), (&other, "other")] {
            let act = recv.cursor_at_offset(o);
            match (exp, act) {
                (None, None) => {}
                (Some(e), Some(a)) if a.bp_position() == walked[e].bp_position() => {}
                (e, a) => {
                    let shape = match (e, a) {
                        (None, Some(_)) => "some-where-none-expected",
                        (Some(_), None) => "none-where-node-expected",
                        _ => "wrong-node",
                    };
                    fail!(format!("C07/cursor_at_offset/{}", shape), {"receiver": name, "offset": o, "expected_node": e, "expected_start": e.map(|e| starts[e]), "actual_bp": a.map(|a| a.bp_position()), "actual_start": a.and_then(|a| a.text_position()), "input": tj()});
                }
            }
        }
        // equivalent line/column
        if o < len {
            let li = lines.partition_point(|&s| s <= o) - 1;
            let (line, col) = (li + 1, o - lines[li] + 1);
            let act = root.cursor_at_position(line, col);
            match (exp, act) {
                (None, None) => {}
                (Some(e), Some(a)) if a.bp_position() == walked[e].bp_position() => {}
                (e, a) => {
                    fail!("C07/cursor_at_position/wrong-node", {"offset": o, "line": line, "column": col, "expected_node": e, "expected_start": e.map(|e| starts[e]), "actual_bp": a.map(|a| a.bp_position()), "actual_start": a.and_then(|a| a.text_position()), "input": tj()});
                }
            }
        }
    }
    st.evals(offsets.len() as u64 * 3);
    // documented None cases of the line/column form
    for (l, c) in [(0usize, 1usize), (1, 0), (0, 0), (lines.len() + 1, 1), (usize::MAX, 1)] {
        if root.cursor_at_position(l, c).is_some() {
            fail!("C07/cursor_at_position/some-for-invalid-position", {"line": l, "column": c, "input": tj()});
        }
    }
    for o in [BIG, BIG + 1, usize::MAX] {
        if root.cursor_at_offset(o).is_some() {
            fail!("C07/cursor_at_offset/some-where-none-expected", {"offset": o, "input": tj()});
        }
    }
    st.evals(8);
    Ok(())
}

// ------------------------------------------------------------------ replays

fn replay_input(v: &Value) -> Option<Fail> {
    // {"subcheck": "ib-rank-select", "input": {"text": "...", "api": "ib_select1"|"ib_select1_from", "k": n, "hint": n}}
    let inp = &v["input"];
    let text = inp["text"].as_str().unwrap_or("").as_bytes().to_vec();
    let k = inp["k"].as_u64().unwrap_or(0) as usize;
    let index = JsonIndex::build(&text);
    let ones = ones_of(index.ib(), index.ib_len());
    let exp = ones.get(k).copied();
    match inp["api"].as_str().unwrap_or("") {
        "ib_select1" => {
            let act = index.ib_select1(k);
            if act != exp {
                return Some(sel_fail("ib_select1", k, None, exp, act, &ones, &text));
            }
        }
        "ib_select1_from" => {
            let h = inp["hint"].as_u64().unwrap_or(0) as usize;
            let act = index.ib_select1_from(k, h);
            if act != exp {
                return Some(sel_fail("ib_select1_from", k, Some(h), exp, act, &ones, &text));
            }
        }
        other => return Some(Fail::new("harness/C07/replay-unknown-api", json!({"api": other}))),
    }
    None
}

pub fn run(cx: &mut Ctx) {
    cx.assume("model of the interest bits: the 1-bit positions of JsonIndex::ib() below ib_len(), read one bit at a time (harness code)");
    cx.assume("node starts come from the G-json renderer's span table; line/column by a naive LF / CR / CRLF scan (a terminator at the very end starts no line)");
    cx.assume("for malformed input only consistency of cursor_at_offset is asserted (the approximate bp_len can make a node unreachable)");
    for (name, v) in cx.replays.clone() {
        if v["kind"] == "input" {
            let r = replay_input(&v);
            cx.replay_outcome(&name, r);
        }
    }
    let thorough = cx.tier == Tier::Thorough;
    let max_text = 20_000;
    cx.check(
        "ib-rank-select",
        RULE,
        Budget { quick: 300_000, thorough: 6_000_000, max_len: 6000 },
        |u, st| {
            let (text, cls) = any_text(u, max_text);
            st.describe(|| crate::props::c06::text_json(&text));
            check_any_text(&text, cls, u, st)
        },
    );
    for cl in ["nontrivial", "ib-words>40", "ib-words>128", "zero-ib-words>=3", "gap>=4-words-between-ones", "source-valid", "source-mutated", "source-soup", "source-raw", "borrowed-from_parts", "huge-k-probe", "no-ones", "len-not-multiple-of-64"] {
        cx.require_class("ib-rank-select", cl, 20);
    }
    let max_nodes = if thorough { 1500 } else { 300 };
    cx.check(
        "node-positions",
        RULE,
        Budget { quick: 160_000, thorough: 3_000_000, max_len: if thorough { 30_000 } else { 10_000 } },
        |u, st| {
            let deep = u.ratio(1, 12);
            let o = GenOpts {
                max_depth: if deep { 2 } else { *u.pick(&[1, 2, 3, 4, 6, 10]) },
                max_nodes: if deep {
                    u.range(1, 8)
                } else {
                    match u.below(4) {
                        0 => u.range(1, 10),
                        _ => u.range(5, max_nodes),
                    }
                },
                keys: *u.pick(&[KeyPalette::AsStrings, KeyPalette::Ident, KeyPalette::Hostile]),
                max_str_len: *u.pick(&[4, 24, 100]),
                ..GenOpts::default()
            };
            let mut j = gen_value(u, &o);
            if deep {
                let d = *u.pick(&[64usize, 127, 129, 257, 300]);
                j = wrap_deep(u, j, d);
            }
            let ro = render_opts(u);
            let r = render(&j, u, ro);
            let text = &r.text;
            let index_words = text.len().div_ceil(64);
            let nt = index_words >= 2 && r.spans.len() >= 3;
            if nt {
                st.nontrivial(hash_bytes(text));
            }
            st.class_if(nt, "nontrivial");
            st.class_if(deep, "deep-chain");
            st.class_if(text.contains(&b'\n'), "has-lf");
            st.class_if(text.contains(&b'\r'), "has-cr");
            st.class_if(text.windows(2).any(|w| w == b"\r\n"), "has-crlf");
            st.class_if(text.first().map_or(false, |b| b.is_ascii_whitespace()), "whitespace-before-root");
            st.class_if(text.last().map_or(false, |b| b.is_ascii_whitespace()), "whitespace-after-root");
            st.class_if(r.spans.iter().any(|s| s.role == Role::Key), "has-keys");
            st.class_if(text.len() > 3000, "len>3000");
            st.class(&format!("ws-{:?}", ro.ws));
            st.size(text.len());
            st.sample(if deep { "deep" } else { "plain" }, || json!({"text": show_bytes(&text[..text.len().min(200)]), "len": text.len(), "nodes": r.spans.len()}));
            st.describe(|| crate::props::c06::text_json(text));
            let res = check_positions(&j, &r, u, st);
            drop_deep(j);
            res
        },
    );
    for cl in ["nontrivial", "deep-chain", "has-lf", "has-cr", "has-crlf", "whitespace-before-root", "whitespace-after-root", "has-keys", "len>3000"] {
        cx.require_class("node-positions", cl, 20);
    }
}
