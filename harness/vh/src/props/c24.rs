//! C24 — not built yet.
use crate::engine::*;

pub const RULE: &str = "not built";

pub fn run(cx: &mut Ctx) {
    cx.infra("check not built");
}
