//! C24 — jq mode matches jq 1.7.1 outside documented divergences (DESIGN §4 C24).
//!
//! The pinned jq 1.7.1 binary is not in the sandbox. Two black-box oracles through the CLI:
//!  (a) `meta`: recorded-truth metamorphic search. Every recorded (filter, input) ↦ result
//!      pair of the repository's jq 1.7.1 corpus (golden cases + error probes) is wrapped in
//!      programs whose jq result is a function of the recorded result by jq's defining
//!      equations; the expected outcome is computed by the harness from the recording alone.
//!  (b) `proxy`: differential against /usr/bin/jq (1.6) on the version-stable core fragment
//!      (typed generator `gen::jqcore`), value-level comparison.
//! plus `anchors` (the recorded corpus itself, verbatim) and a calibration pass that measures
//! how far jq 1.6 agrees with the 1.7.1 recordings (numbers go into the evidence).
use crate::cli::{self, CliOut};
use crate::engine::*;
use crate::gen::jqcore::{self, Shape};
use crate::gen::json::{j_eq, to_compact, J};
use crate::oracle::jsonval::{parse_one, parse_stream};
use serde_json::{json, Value};
use std::collections::{BTreeMap, BTreeSet};
use std::sync::Mutex;
use std::time::Duration;

pub const RULE: &str = "(a) meta: anchor drawn from the recorded jq 1.7.1 corpus (487 golden cases + 219 error probes, minus the repo's known-failure manifests, minus filters using input/halt/$__loc__/env/now/debug, minus -r cases) wrapped in 1..3 nested law wrappers ([f], f|., .|f, (f),(f), first, limit, [f][i], as-bindings, def, if, try/catch, ?, {a:f}, [f]|length, reduce, foreach, //, label/break, [.[]|f] over [x,x], ...); expected outcome (values, error or not, message, exit status, and the text when the wrapper preserves it) computed from the recording alone. Non-trivial: >= 2 wrappers; distinct by hash(anchor, program). (b) proxy: typed core-fragment program (gen::jqcore) over 1..6 same-shape documents, compared with jq 1.6 by value (numbers as doubles), error-or-not, exit status, and message text only for message families the recorded probe corpus shows identical in 1.6 and 1.7.1. Non-trivial: >= 3 AST nodes on a non-scalar input; distinct by hash(program, docs).";

const JQ16: &str = "/usr/bin/jq";
/// known finding: a postfix (`[i]`, `.k`, `[]`, slice) directly after an array/object
/// construction, string literal, function call or `..` is a parse error in succinctly
const SIG_POSTFIX: &str = "C24/parse-reject/postfix-on-constructed-term";
/// known finding: `error(f)` with f producing no output raises "no value" instead of producing nothing
const SIG_ERROR_EMPTY: &str = "C24/zero-output-argument/error(empty)-raises-no-value";
/// known finding: a string with an interpolation is rejected as an object key
const SIG_INTERP_KEY: &str = "C24/parse-reject/interpolated-object-key";
/// known finding: `{$v}` object-construction shorthand is rejected
const SIG_VAR_SHORTHAND: &str = "C24/parse-reject/object-variable-shorthand";
/// known finding: `"" | split(",")` / `"" / ","` is [""] instead of []
const SIG_SPLIT_EMPTY: &str = "C24/proxy/values/split-of-empty-string";
/// known finding: `last(f)` of an empty stream is null in jq <= 1.7.1 (`reduce f as $x (null; $x)`), nothing in succinctly
const SIG_LAST_EMPTY: &str = "C24/proxy/values/last-of-empty-stream";
/// known finding: variables bound outside `error(...)` (by `as` or --arg) are undefined inside its argument
const SIG_ERROR_ARG_SCOPE: &str = "C24/error-argument-loses-variable-scope";
/// known finding: index/rindex/indices(string) on an *object* input index the object (`.[$i]`) in jq, give null in succinctly
const SIG_INDEX_OBJECT: &str = "C24/proxy/index-builtins-on-object-input";
/// known finding: sqrt is a Newton iteration, 1 ulp off for many inputs (`2|sqrt`)
const SIG_SQRT: &str = "C24/proxy/values/sqrt-not-correctly-rounded";
/// known finding: bare `flatten` flattens one level only (jq: all levels)
const SIG_FLATTEN: &str = "C24/proxy/values/flatten-only-one-level";
const SIG_NEG_ZERO_TEXT: &str = "C24/proxy/values/negative-zero-sign-lost-in-text";
const SIG_TONUMBER_BLANK: &str = "C24/proxy/message/tonumber-of-blank-string";
const SIG_REDUCE_EAGER_SOURCE: &str = "C24/proxy/message/reduce-source-evaluated-before-body";

/// "-0" tokens (not part of a longer number) spelled as "0".
fn norm_neg_zero(s: &str) -> String {
    let b = s.as_bytes();
    let mut out = String::with_capacity(s.len());
    let mut i = 0;
    while i < b.len() {
        if b[i] == b'-' && i + 1 < b.len() && b[i + 1] == b'0' {
            let before_ok = i == 0 || !(b[i - 1].is_ascii_digit() || b[i - 1] == b'.' || b[i - 1] == b'e' || b[i - 1] == b'E');
            let after = b.get(i + 2).copied();
            let after_ok = !matches!(after, Some(c) if c.is_ascii_digit() || c == b'.' || c == b'e' || c == b'E');
            if before_ok && after_ok {
                out.push('0');
                i += 2;
                continue;
            }
        }
        out.push(b[i] as char);
        i += 1;
    }
    out
}
const SIG_FORMAT_LITERAL: &str = "C24/parse-reject/format-string-literal";
const TWO53: f64 = 9007199254740992.0;

fn repo() -> String {
    std::env::var("VH_REPO").unwrap_or_else(|_| "/repo".into())
}

// ------------------------------------------------------------------ corpus

#[derive(Clone, Debug)]
struct Golden {
    name: String,
    args: Vec<String>,
    filter: String,
    input: String,
    out: String,
    status: Option<i32>,
    err: Option<String>,
}

#[derive(Clone, Debug)]
struct Probe {
    id: String,
    filter: String,
    input: String,
    msg: String,
}

fn manifest_names(path: &str) -> BTreeSet<String> {
    std::fs::read_to_string(path)
        .unwrap_or_default()
        .lines()
        .map(str::trim)
        .filter(|l| !l.is_empty() && !l.starts_with('#'))
        .filter_map(|l| l.split_whitespace().next().map(|s| s.to_string()))
        .collect()
}

fn load_goldens() -> Result<Vec<Golden>, String> {
    let dir = format!("{}/tests/data/jq-golden/cases", repo());
    let mut names: Vec<String> = std::fs::read_dir(&dir).map_err(|e| format!("{}: {}", dir, e))?.filter_map(|e| e.ok()).filter(|e| e.path().is_dir()).map(|e| e.file_name().to_string_lossy().to_string()).collect();
    names.sort();
    let mut out = vec![];
    for name in names {
        let rd = |f: &str| std::fs::read_to_string(format!("{}/{}/{}", dir, name, f)).ok();
        let (Some(args), Some(filter), Some(input), Some(o)) = (rd("args"), rd("filter"), rd("input.json"), rd("expected.out")) else {
            return Err(format!("golden case {} is incomplete", name));
        };
        out.push(Golden {
            name: name.clone(),
            args: args.lines().map(str::to_string).collect(),
            filter: filter.trim_end_matches('\n').to_string(),
            input,
            out: o,
            status: rd("expected.status").and_then(|s| s.trim().parse().ok()),
            err: rd("expected.err"),
        });
    }
    Ok(out)
}

fn load_probes() -> Result<Vec<Probe>, String> {
    let p = format!("{}/tests/data/jq-error-messages.tsv", repo());
    let t = std::fs::read_to_string(&p).map_err(|e| format!("{}: {}", p, e))?;
    let mut out = vec![];
    for l in t.lines() {
        let l = l.trim_end();
        if l.is_empty() || l.starts_with('#') {
            continue;
        }
        let c: Vec<&str> = l.split('\t').collect();
        if c.len() < 4 {
            return Err(format!("malformed probe row: {}", l));
        }
        out.push(Probe { id: c[0].into(), filter: c[1].into(), input: c[2].into(), msg: c[3].into() });
    }
    Ok(out)
}

// ------------------------------------------------------------------ running

/// Run a jq program (always via `-f <file>`): `bin` None = succinctly, Some = a reference jq.
fn run_prog(bin: Option<&str>, args: &[String], prog: &str, input: &[u8], timeout_s: u64) -> CliOut {
    let f = cli::write_tmp("prog", prog.as_bytes());
    let fs = f.to_string_lossy().to_string();
    let mut a: Vec<&str> = vec![];
    if bin.is_none() {
        a.push("jq");
    }
    for x in args {
        a.push(x);
    }
    a.push("-f");
    a.push(&fs);
    let path = match bin {
        Some(b) => b.to_string(),
        None => cli::cli_path(),
    };
    let r = cli::run_with(&path, &a, Some(input), Duration::from_secs(timeout_s), &[]);
    let _ = std::fs::remove_file(&f);
    r
}

#[derive(Clone, Debug, PartialEq)]
enum ErrMsg {
    /// string payload / runtime message
    Str(String),
    /// non-string payload, JSON text
    NotStr(String),
}

/// Parse the "jq: error (at <loc>)[ (not a string)]: …" lines of a stderr stream.
/// Returns None if stderr holds anything else (compile errors, usage, panics …).
fn parse_errs(stderr: &str) -> Option<Vec<ErrMsg>> {
    let mut out: Vec<ErrMsg> = vec![];
    for line in stderr.split_inclusive('\n') {
        let l = line.strip_suffix('\n').unwrap_or(line);
        if let Some(rest) = l.strip_prefix("jq: error (at ") {
            let close = rest.find(')')?;
            let after = &rest[close + 1..];
            if let Some(m) = after.strip_prefix(": ") {
                out.push(ErrMsg::Str(m.to_string()));
            } else if let Some(m) = after.strip_prefix(" (not a string): ") {
                out.push(ErrMsg::NotStr(m.to_string()));
            } else {
                return None;
            }
        } else if l.is_empty() && line == "\n" && out.is_empty() {
            return None;
        } else {
            // continuation of a multi-line string payload
            match out.last_mut() {
                Some(ErrMsg::Str(s)) | Some(ErrMsg::NotStr(s)) => {
                    s.push('\n');
                    s.push_str(l);
                }
                None => return None,
            }
        }
    }
    Some(out)
}

fn errmsg_of_payload(p: &J) -> ErrMsg {
    match p {
        J::Str(s) => ErrMsg::Str(s.clone()),
        v => ErrMsg::NotStr(to_compact(v)),
    }
}

fn errmsg_eq(a: &ErrMsg, b: &ErrMsg) -> bool {
    match (a, b) {
        (ErrMsg::Str(x), ErrMsg::Str(y)) => x == y,
        (ErrMsg::NotStr(x), ErrMsg::NotStr(y)) => match (parse_one(x.as_bytes()), parse_one(y.as_bytes())) {
            (Ok(p), Ok(q)) => j_eq(&p, &q),
            _ => x == y,
        },
        _ => false,
    }
}

/// Normalise a message into its family: value dumps -> (V), quoted strings -> "S", digits -> N.
fn template(msg: &str) -> String {
    const TYPES: [&str; 6] = ["null", "boolean", "number", "string", "array", "object"];
    const TAILS: [&str; 12] = [" and ", " cannot ", " has ", " is ", " only ", " can't ", " as ", " not ", " number required", " trailing ", " key", " with "];
    // 1. dumps
    let mut s = String::new();
    let b = msg;
    let mut i = 0;
    while i < b.len() {
        let rest = &b[i..];
        let mut done = false;
        for t in TYPES {
            if rest.starts_with(t) && rest[t.len()..].starts_with(" (") && (i == 0 || !b.as_bytes()[i - 1].is_ascii_alphanumeric()) {
                let body = &rest[t.len() + 2..];
                // the dump ends at the first ')' followed by a known tail or the end
                let mut end = None;
                for (k, c) in body.char_indices() {
                    if c == ')' {
                        let after = &body[k + 1..];
                        if after.is_empty() || TAILS.iter().any(|x| after.starts_with(x)) {
                            end = Some(k);
                            break;
                        }
                    }
                }
                if let Some(k) = end {
                    s.push_str(t);
                    s.push_str(" (V)");
                    i += t.len() + 2 + k + 1;
                    done = true;
                }
                break;
            }
        }
        if !done {
            let c = rest.chars().next().unwrap();
            s.push(c);
            i += c.len_utf8();
        }
    }
    // 2. quoted strings and digit runs
    let mut o = String::new();
    let cs: Vec<char> = s.chars().collect();
    let mut i = 0;
    while i < cs.len() {
        let c = cs[i];
        if c == '"' {
            // up to the last quote of the message family's key position: take to the next unescaped quote
            let mut j = i + 1;
            while j < cs.len() && cs[j] != '"' {
                if cs[j] == '\\' {
                    j += 1;
                }
                j += 1;
            }
            o.push_str("\"S\"");
            i = (j + 1).min(cs.len());
        } else if c == '\'' && !(i > 0 && cs[i - 1].is_ascii_alphabetic()) {
            let mut j = i + 1;
            while j < cs.len() && cs[j] != '\'' {
                j += 1;
            }
            o.push_str("'S'");
            i = (j + 1).min(cs.len());
        } else if c.is_ascii_digit() {
            while i < cs.len() && cs[i].is_ascii_digit() {
                i += 1;
            }
            o.push('N');
        } else {
            o.push(c);
            i += 1;
        }
    }
    o
}

fn short(s: &str, n: usize) -> String {
    if s.len() <= n {
        s.to_string()
    } else {
        let mut e = n;
        while !s.is_char_boundary(e) {
            e -= 1;
        }
        format!("{}…(+{}B)", &s[..e], s.len() - e)
    }
}

fn show_out(o: &CliOut) -> Value {
    json!({"exit": o.code, "signal": o.signal, "timed_out": o.timed_out, "stdout": short(&o.stdout_str(), 1500), "stderr": short(&o.stderr_str(), 800)})
}

fn has_big_number(j: &J) -> bool {
    match j {
        J::Num(n) => !n.value.is_finite() || n.value.abs() > TWO53,
        J::Arr(a) => a.iter().any(has_big_number),
        J::Obj(f) => f.iter().any(|x| has_big_number(&x.1)),
        _ => false,
    }
}

// ------------------------------------------------------------------ anchors (verbatim) + calibration

/// The repository's own comparison for a golden case; Ok or a short reason.
fn golden_verdict(g: &Golden, o: &CliOut) -> Result<(), String> {
    if o.timed_out {
        return Err("timeout".into());
    }
    match g.status {
        None => {
            if o.code != Some(0) {
                return Err(format!("exit {:?}, jq exits 0", o.code));
            }
        }
        Some(w) => {
            if o.code != Some(w) {
                return Err(format!("exit {:?}, jq exits {}", o.code, w));
            }
            if o.stderr != g.err.clone().unwrap_or_default().as_bytes() {
                return Err("stderr differs".into());
            }
        }
    }
    if o.stdout != g.out.as_bytes() {
        return Err("stdout differs".into());
    }
    Ok(())
}

fn probe_verdict(p: &Probe, o: &CliOut) -> Result<(), String> {
    if o.timed_out {
        return Err("timeout".into());
    }
    if o.code != Some(5) {
        return Err(format!("exit {:?}, jq exits 5", o.code));
    }
    match parse_errs(&o.stderr_str()) {
        Some(v) if v.len() == 1 => match &v[0] {
            // the recording keeps the first line of the message
            ErrMsg::Str(m) if m.lines().next().unwrap_or("") == p.msg || *m == p.msg => Ok(()),
            m => Err(format!("message {:?}", m)),
        },
        _ => Err("stderr is not one jq error line".into()),
    }
}

struct Calibration {
    golden_agree: usize,
    golden_total: usize,
    golden_disagree: Vec<(String, String)>,
    probe_agree: usize,
    probe_total: usize,
    probe_disagree: Vec<(String, String)>,
    /// message families shown identical in 1.6 and 1.7.1
    stable: BTreeSet<String>,
    /// families seen in a disagreeing probe (1.6's own wording)
    unstable: BTreeSet<String>,
}

fn par_map<T: Sync, R: Send>(items: &[T], threads: usize, f: impl Fn(&T) -> R + Sync) -> Vec<R> {
    let next = std::sync::atomic::AtomicUsize::new(0);
    let out: Mutex<Vec<(usize, R)>> = Mutex::new(vec![]);
    std::thread::scope(|s| {
        for _ in 0..threads.max(1) {
            s.spawn(|| loop {
                let i = next.fetch_add(1, std::sync::atomic::Ordering::Relaxed);
                if i >= items.len() {
                    break;
                }
                let r = f(&items[i]);
                out.lock().unwrap().push((i, r));
            });
        }
    });
    let mut v = out.into_inner().unwrap();
    v.sort_by_key(|x| x.0);
    v.into_iter().map(|x| x.1).collect()
}

fn calibrate(goldens: &[Golden], probes: &[Probe], threads: usize) -> Calibration {
    // a time-out is retried once with a longer limit (a loaded machine is not a disagreement);
    // what still times out is jq 1.6 not terminating (its regex loops on empty matches)
    let gres = par_map(goldens, threads, |g| {
        let mut o = run_prog(Some(JQ16), &g.args, &g.filter, g.input.as_bytes(), 2);
        if o.timed_out {
            o = run_prog(Some(JQ16), &g.args, &g.filter, g.input.as_bytes(), 10);
        }
        golden_verdict(g, &o)
    });
    let pres = par_map(probes, threads, |p| {
        let mut o = run_prog(Some(JQ16), &["-c".to_string()], &p.filter, p.input.as_bytes(), 2);
        if o.timed_out {
            o = run_prog(Some(JQ16), &["-c".to_string()], &p.filter, p.input.as_bytes(), 10);
        }
        let own = parse_errs(&o.stderr_str()).and_then(|v| v.into_iter().next());
        (probe_verdict(p, &o), own)
    });
    let mut c = Calibration { golden_agree: 0, golden_total: goldens.len(), golden_disagree: vec![], probe_agree: 0, probe_total: probes.len(), probe_disagree: vec![], stable: BTreeSet::new(), unstable: BTreeSet::new() };
    for (g, r) in goldens.iter().zip(gres) {
        match r {
            Ok(()) => {
                c.golden_agree += 1;
                if let Some(e) = &g.err {
                    if let Some(v) = parse_errs(e) {
                        for m in v {
                            if let ErrMsg::Str(m) = m {
                                c.stable.insert(template(&m));
                            }
                        }
                    }
                }
            }
            Err(why) => c.golden_disagree.push((g.name.clone(), why)),
        }
    }
    for (p, (r, own)) in probes.iter().zip(pres) {
        match r {
            Ok(()) => {
                c.probe_agree += 1;
                c.stable.insert(template(&p.msg));
            }
            Err(why) => {
                c.probe_disagree.push((p.id.clone(), why));
                // the recorded 1.7.1 wording that 1.6 does not produce; 1.6's own wording belongs to
                // constructs the core profile excludes (regex flags, slice paths, NaN indices, implode)
                let _ = own;
                c.unstable.insert(template(&p.msg));
            }
        }
    }
    for u in c.unstable.clone() {
        c.stable.remove(&u);
    }
    c
}

/// Development aid only (never set by run.sh): VH_C24_CAL_CACHE=<file> reuses a previous
/// calibration so that iterating on the generator does not re-run 706 reference spawns.
fn calibrate_cached(goldens: &[Golden], probes: &[Probe], threads: usize) -> Calibration {
    let Ok(path) = std::env::var("VH_C24_CAL_CACHE") else {
        return calibrate(goldens, probes, threads);
    };
    if let Ok(t) = std::fs::read_to_string(&path) {
        if let Ok(v) = serde_json::from_str::<Value>(&t) {
            let pairs = |k: &str| -> Vec<(String, String)> { v[k].as_array().map(|a| a.iter().map(|x| (x[0].as_str().unwrap_or("").to_string(), x[1].as_str().unwrap_or("").to_string())).collect()).unwrap_or_default() };
            let set = |k: &str| -> BTreeSet<String> { v[k].as_array().map(|a| a.iter().filter_map(|x| x.as_str().map(str::to_string)).collect()).unwrap_or_default() };
            return Calibration { golden_agree: v["ga"].as_u64().unwrap_or(0) as usize, golden_total: goldens.len(), golden_disagree: pairs("gd"), probe_agree: v["pa"].as_u64().unwrap_or(0) as usize, probe_total: probes.len(), probe_disagree: pairs("pd"), stable: set("stable"), unstable: set("unstable") };
        }
    }
    let c = calibrate(goldens, probes, threads);
    let _ = std::fs::write(&path, json!({"ga": c.golden_agree, "pa": c.probe_agree, "gd": c.golden_disagree.iter().map(|x| json!([x.0, x.1])).collect::<Vec<_>>(), "pd": c.probe_disagree.iter().map(|x| json!([x.0, x.1])).collect::<Vec<_>>(), "stable": c.stable.iter().collect::<Vec<_>>(), "unstable": c.unstable.iter().collect::<Vec<_>>()}).to_string());
    c
}

// ------------------------------------------------------------------ (a) metamorphic

#[derive(Clone, Debug)]
struct Anchor {
    id: String,
    args: Vec<String>,
    filter: String,
    input: String,
    /// recorded outputs (value, compact text when the recording is `-c` text) — None for probes
    ys: Option<Vec<(J, Option<String>)>>,
    /// recorded error payload
    err: Option<J>,
    null_input: bool,
    exit_status_flag: bool,
    /// the recorded run prints one compact value per line (`-c`, no -a/-S): text laws apply
    compact_text: bool,
}

const BANNED: &[&str] = &["input", "inputs", "halt", "halt_error", "$__loc__", "input_line_number", "debug", "stderr", "env", "$ENV", "now", "localtime", "input_filename", "$__prog_args", "import", "include", "modulemeta", "get_search_list", "builtins"];

fn idents(s: &str) -> Vec<String> {
    let mut out = vec![];
    let cs: Vec<char> = s.chars().collect();
    let mut i = 0;
    while i < cs.len() {
        if cs[i].is_ascii_alphabetic() || cs[i] == '_' || cs[i] == '$' {
            let st = i;
            i += 1;
            while i < cs.len() && (cs[i].is_ascii_alphanumeric() || cs[i] == '_') {
                i += 1;
            }
            out.push(cs[st..i].iter().collect());
        } else {
            i += 1;
        }
    }
    out
}

fn filter_banned(f: &str) -> bool {
    idents(f).iter().any(|w| BANNED.contains(&w.as_str()))
}

fn build_anchors(goldens: &[Golden], probes: &[Probe], known_g: &BTreeSet<String>, known_p: &BTreeSet<String>, skipped: &mut BTreeMap<String, u64>) -> Vec<Anchor> {
    let mut out = vec![];
    let mut skip = |why: &str| *skipped.entry(why.to_string()).or_insert(0) += 1;
    for g in goldens {
        if known_g.contains(&g.name) {
            skip("golden: listed in jq-golden-known-failures.txt");
            continue;
        }
        if filter_banned(&g.filter) {
            skip("golden: filter uses input/halt/$__loc__/env/now/debug…");
            continue;
        }
        // options: only those that do not change the value stream (or that we replicate)
        let mut ok = true;
        let mut i = 0;
        let mut compact = false;
        let mut plain_text = true;
        let mut null_input = false;
        let mut eflag = false;
        while i < g.args.len() {
            match g.args[i].as_str() {
                "-c" => compact = true,
                "-n" => null_input = true,
                "-a" | "-S" => plain_text = false,
                "-e" => eflag = true,
                "--arg" | "--argjson" => i += 2,
                "" => {}
                _ => ok = false,
            }
            i += 1;
        }
        if !ok {
            skip("golden: output option not value-preserving (-r …)");
            continue;
        }
        if !null_input {
            match parse_stream(g.input.as_bytes()) {
                Ok(v) if v.len() == 1 => {}
                _ => {
                    skip("golden: input is not exactly one JSON document");
                    continue;
                }
            }
        }
        let vals = match parse_stream(g.out.as_bytes()) {
            Ok(v) => v,
            Err(_) => {
                skip("golden: recorded stdout is not a JSON value stream");
                continue;
            }
        };
        let lines: Vec<&str> = g.out.lines().collect();
        let texts: Vec<Option<String>> = if compact && plain_text && lines.len() == vals.len() { lines.iter().map(|l| Some(l.to_string())).collect() } else { vec![None; vals.len()] };
        let err = match (&g.status, &g.err) {
            (None, _) => None,
            (Some(5), Some(e)) => match parse_errs(e) {
                Some(v) if v.len() == 1 => match &v[0] {
                    ErrMsg::Str(m) => Some(J::Str(m.clone())),
                    ErrMsg::NotStr(t) => match parse_one(t.as_bytes()) {
                        Ok(j) => Some(j),
                        Err(_) => {
                            skip("golden: unparsable error payload");
                            continue;
                        }
                    },
                },
                _ => {
                    skip("golden: recorded stderr is not one runtime error");
                    continue;
                }
            },
            _ => {
                skip("golden: recorded failure is not a runtime error (status != 5)");
                continue;
            }
        };
        out.push(Anchor { id: format!("golden:{}", g.name), args: g.args.iter().filter(|a| !a.is_empty()).cloned().collect(), filter: g.filter.clone(), input: g.input.clone(), ys: Some(vals.into_iter().zip(texts).collect()), err, null_input, exit_status_flag: eflag, compact_text: compact && plain_text });
    }
    for p in probes {
        if known_p.contains(&p.id) {
            skip("probe: listed in jq-error-known-divergences.txt");
            continue;
        }
        if filter_banned(&p.filter) {
            skip("probe: filter uses input/halt/$__loc__/env/now/debug…");
            continue;
        }
        if !matches!(parse_stream(p.input.as_bytes()), Ok(v) if v.len() == 1) {
            skip("probe: input is not exactly one JSON document");
            continue;
        }
        out.push(Anchor { id: format!("probe:{}", p.id), args: vec!["-c".into()], filter: p.filter.clone(), input: p.input.clone(), ys: None, err: Some(J::Str(p.msg.clone())), null_input: false, exit_status_flag: false, compact_text: true });
    }
    out
}

/// What jq does with a program: the outputs, then either normal end or an error payload.
#[derive(Clone, Debug)]
struct Outc {
    /// None: outputs before the error are not recorded (error probes)
    ys: Option<Vec<(J, Option<String>)>>,
    err: Option<J>,
    /// the recorded filter does arithmetic / uses nan: a printed `null` may be NaN (truthy)
    null_may_be_nan: bool,
}

#[derive(Clone, Debug, PartialEq)]
enum W {
    Collect,
    PipeId,
    IdPipe,
    Dup,
    First,
    Limit(usize),
    CollectIdx(i64),
    CollectIdxParen(i64),
    AsIn,
    Def,
    DefArg,
    IfTrue,
    IfFalse,
    TryCatch,
    TryQ,
    TryBare,
    ObjVal,
    AsOut,
    CollectLen,
    ReduceLast,
    ForeachCount,
    PipeConst,
    Alt,
    SelectTrue,
    ArrEach,
    Tail,
    Head,
    Label,
    LabelBreak,
    CollectIter,
    ErrFirst,
    EmptyAfter,
}

const ALL_W: &[W] = &[
    W::Collect, W::PipeId, W::IdPipe, W::Dup, W::First, W::Limit(1), W::Limit(2), W::Limit(3), W::CollectIdx(0), W::CollectIdxParen(0), W::CollectIdxParen(1), W::CollectIdxParen(-1), W::CollectIdxParen(7), W::CollectIdxParen(2), W::AsIn, W::Def, W::DefArg, W::IfTrue, W::IfFalse, W::TryCatch, W::TryCatch, W::TryQ, W::TryBare, W::ObjVal, W::AsOut, W::CollectLen, W::ReduceLast, W::ForeachCount, W::PipeConst, W::Alt, W::SelectTrue, W::ArrEach, W::Tail, W::Head, W::Label, W::LabelBreak, W::CollectIter, W::ErrFirst, W::EmptyAfter,
];

impl W {
    fn name(&self) -> String {
        match self {
            W::Limit(n) => format!("Limit:{}", n),
            W::CollectIdx(i) => format!("CollectIdx:{}", i),
            W::CollectIdxParen(i) => format!("CollectIdxParen:{}", i),
            w => format!("{:?}", w),
        }
    }
    fn parse(s: &str) -> Option<W> {
        if let Some(n) = s.strip_prefix("Limit:") {
            return n.parse().ok().map(W::Limit);
        }
        if let Some(n) = s.strip_prefix("CollectIdx:") {
            return n.parse().ok().map(W::CollectIdx);
        }
        if let Some(n) = s.strip_prefix("CollectIdxParen:") {
            return n.parse().ok().map(W::CollectIdxParen);
        }
        ALL_W.iter().find(|w| w.name() == s).cloned()
    }
    /// also valid when the outputs before the error are unknown (erases them)
    fn erases_prefix(&self) -> bool {
        matches!(self, W::Collect | W::CollectIdx(_) | W::CollectIdxParen(_) | W::CollectLen | W::ReduceLast | W::CollectIter)
    }

    /// program text and outcome of the wrapped program; `d` makes bound names unique
    fn apply(&self, p: &str, o: &Outc, d: usize) -> Option<(String, Outc)> {
        if o.ys.is_none() && !self.erases_prefix() {
            return None;
        }
        let ys: Vec<(J, Option<String>)> = o.ys.clone().unwrap_or_default();
        let ok = o.err.is_none();
        let same = |t: String| Some((t, Outc { null_may_be_nan: o.null_may_be_nan, ys: Some(ys.clone()), err: o.err.clone() }));
        let text_all = |v: &[(J, Option<String>)]| -> Option<Vec<String>> { v.iter().map(|x| x.1.clone()).collect() };
        let collected = || -> (J, Option<String>) { (J::Arr(ys.iter().map(|x| x.0.clone()).collect()), text_all(&ys).map(|t| format!("[{}]", t.join(",")))) };
        let lit = |j: J| -> (J, Option<String>) {
            let t = to_compact(&j);
            (j, Some(t))
        };
        match self {
            W::Collect => Some((format!("[{}]", p), if ok { Outc { null_may_be_nan: o.null_may_be_nan, ys: Some(vec![collected()]), err: None } } else { Outc { null_may_be_nan: o.null_may_be_nan, ys: Some(vec![]), err: o.err.clone() } })),
            W::PipeId => same(format!("({}) | .", p)),
            W::IdPipe => same(format!(". | ({})", p)),
            W::Dup => {
                let mut v = ys.clone();
                if ok {
                    v.extend(ys.clone());
                }
                Some((format!("({}), ({})", p, p), Outc { null_may_be_nan: o.null_may_be_nan, ys: Some(v), err: o.err.clone() }))
            }
            W::First => Some((format!("first({})", p), if ys.is_empty() { Outc { null_may_be_nan: o.null_may_be_nan, ys: Some(vec![]), err: o.err.clone() } } else { Outc { null_may_be_nan: o.null_may_be_nan, ys: Some(vec![ys[0].clone()]), err: None } })),
            W::Limit(n) => Some((format!("limit({}; {})", n, p), if ys.len() >= *n { Outc { null_may_be_nan: o.null_may_be_nan, ys: Some(ys[..*n].to_vec()), err: None } } else { Outc { null_may_be_nan: o.null_may_be_nan, ys: Some(ys.clone()), err: o.err.clone() } })),
            W::CollectIdx(i) | W::CollectIdxParen(i) => {
                let t = if matches!(self, W::CollectIdx(_)) { format!("[{}][{}]", p, i) } else { format!("([{}])[{}]", p, i) };
                if !ok {
                    return Some((t, Outc { null_may_be_nan: o.null_may_be_nan, ys: Some(vec![]), err: o.err.clone() }));
                }
                let n = ys.len() as i64;
                let k = if *i < 0 { n + i } else { *i };
                let v = if k >= 0 && k < n { ys[k as usize].clone() } else { lit(J::Null) };
                Some((t, Outc { null_may_be_nan: o.null_may_be_nan, ys: Some(vec![v]), err: None }))
            }
            W::AsIn => same(format!(". as $vh_i{} | ({})", d, p)),
            W::Def => same(format!("def vh_g{}: {}; vh_g{}", d, p, d)),
            W::DefArg => same(format!("def vh_h{}(f): f; vh_h{}({})", d, d, p)),
            W::IfTrue => same(format!("if true then ({}) else empty end", p)),
            W::IfFalse => same(format!("if false then empty else ({}) end", p)),
            W::TryCatch => {
                let mut v = ys.clone();
                if let Some(e) = &o.err {
                    v.push((e.clone(), None));
                }
                Some((format!("try ({}) catch .", p), Outc { null_may_be_nan: o.null_may_be_nan, ys: Some(v), err: None }))
            }
            W::TryQ => Some((format!("({})?", p), Outc { null_may_be_nan: o.null_may_be_nan, ys: Some(ys.clone()), err: None })),
            W::TryBare => Some((format!("try ({})", p), Outc { null_may_be_nan: o.null_may_be_nan, ys: Some(ys.clone()), err: None })),
            W::ObjVal => Some((format!("{{a: ({})}}", p), Outc { null_may_be_nan: o.null_may_be_nan, ys: Some(ys.iter().map(|(j, t)| (J::Obj(vec![("a".into(), j.clone())]), t.as_ref().map(|t| format!("{{\"a\":{}}}", t)))).collect()), err: o.err.clone() })),
            W::AsOut => same(format!("({}) as $vh_o{} | $vh_o{}", p, d, d)),
            W::CollectLen => Some((format!("[{}] | length", p), if ok { Outc { null_may_be_nan: o.null_may_be_nan, ys: Some(vec![lit(J::int(ys.len() as i64))]), err: None } } else { Outc { null_may_be_nan: o.null_may_be_nan, ys: Some(vec![]), err: o.err.clone() } })),
            W::ReduceLast => Some((format!("reduce ({}) as $vh_r{} (null; $vh_r{})", p, d, d), if ok { Outc { null_may_be_nan: o.null_may_be_nan, ys: Some(vec![ys.last().cloned().unwrap_or_else(|| lit(J::Null))]), err: None } } else { Outc { null_may_be_nan: o.null_may_be_nan, ys: Some(vec![]), err: o.err.clone() } })),
            W::ForeachCount => Some((
                format!("foreach ({}) as $vh_f{} (0; . + 1; [., $vh_f{}])", p, d, d),
                Outc { null_may_be_nan: o.null_may_be_nan, ys: Some(ys.iter().enumerate().map(|(i, (j, t))| (J::Arr(vec![J::int(i as i64 + 1), j.clone()]), t.as_ref().map(|t| format!("[{},{}]", i + 1, t)))).collect()), err: o.err.clone() },
            )),
            W::PipeConst => Some((format!("({}) | \"vh\"", p), Outc { null_may_be_nan: o.null_may_be_nan, ys: Some(ys.iter().map(|_| lit(J::Str("vh".into()))).collect()), err: o.err.clone() })),
            W::Alt if o.null_may_be_nan && ys.iter().any(|x| matches!(x.0, J::Null)) => None,
            W::Alt => {
                let truthy: Vec<(J, Option<String>)> = ys.iter().filter(|x| !matches!(x.0, J::Null | J::Bool(false))).cloned().collect();
                let t = format!("({}) // \"vh-dflt\"", p);
                if ok {
                    let v = if truthy.is_empty() { vec![lit(J::Str("vh-dflt".into()))] } else { truthy };
                    Some((t, Outc { null_may_be_nan: o.null_may_be_nan, ys: Some(v), err: None }))
                } else {
                    // an error raised by the left-hand side propagates (golden alt_error_after_output)
                    Some((t, Outc { null_may_be_nan: o.null_may_be_nan, ys: Some(truthy), err: o.err.clone() }))
                }
            }
            W::SelectTrue => same(format!("({}) | select(true)", p)),
            W::ArrEach => Some((format!("({}) | [.]", p), Outc { null_may_be_nan: o.null_may_be_nan, ys: Some(ys.iter().map(|(j, t)| (J::Arr(vec![j.clone()]), t.as_ref().map(|t| format!("[{}]", t)))).collect()), err: o.err.clone() })),
            W::Tail => {
                let mut v = ys.clone();
                if ok {
                    v.push(lit(J::Str("vh-tail".into())));
                }
                Some((format!("({}), \"vh-tail\"", p), Outc { null_may_be_nan: o.null_may_be_nan, ys: Some(v), err: o.err.clone() }))
            }
            W::Head => {
                let mut v = vec![lit(J::Str("vh-head".into()))];
                v.extend(ys.clone());
                Some((format!("\"vh-head\", ({})", p), Outc { null_may_be_nan: o.null_may_be_nan, ys: Some(v), err: o.err.clone() }))
            }
            W::Label => same(format!("label $vh_l{} | ({})", d, p)),
            W::LabelBreak => same(format!("label $vh_b{} | (({}), break $vh_b{}, \"vh-unreachable\")", d, p, d)),
            W::CollectIter => Some((format!("[{}] | .[]", p), if ok { Outc { null_may_be_nan: o.null_may_be_nan, ys: Some(ys.clone()), err: None } } else { Outc { null_may_be_nan: o.null_may_be_nan, ys: Some(vec![]), err: o.err.clone() } })),
            W::ErrFirst => {
                // try error(f) catch . : the first output of f is raised and caught; an error of f itself is caught too
                let t = format!("try error({}) catch .", p);
                if let Some(y) = ys.first() {
                    Some((t, Outc { null_may_be_nan: o.null_may_be_nan, ys: Some(vec![(y.0.clone(), None)]), err: None }))
                } else if let Some(e) = &o.err {
                    Some((t, Outc { null_may_be_nan: o.null_may_be_nan, ys: Some(vec![(e.clone(), None)]), err: None }))
                } else {
                    Some((t, Outc { null_may_be_nan: o.null_may_be_nan, ys: Some(vec![]), err: None }))
                }
            }
            W::EmptyAfter => Some((format!("({}) | empty", p), Outc { null_may_be_nan: o.null_may_be_nan, ys: Some(vec![]), err: o.err.clone() })),
        }
    }
}

struct MetaCase {
    anchor: Anchor,
    wrappers: Vec<W>,
    iter2: bool,
    program: String,
    input: String,
    expect: Outc,
    /// an `error(f)` wrapper was applied to an f with no outputs and no error
    errfirst_empty: bool,
}

fn build_meta(a: &Anchor, ws: &[W], iter2: bool) -> Option<MetaCase> {
    let mut prog = a.filter.clone();
    let arith = ["nan", "infinite", "log", "log2", "log10", "exp", "exp2", "exp10", "sqrt", "pow", "sin", "cos", "atan", "floor", "ceil", "round", "trunc", "fabs", "tonumber", "fromjson", "significand", "gamma", "logb"];
    let may_nan = a.filter.chars().any(|c| "+-*/%".contains(c)) || idents(&a.filter).iter().any(|w| arith.contains(&w.as_str()));
    let mut o = Outc { null_may_be_nan: may_nan, ys: a.ys.clone(), err: a.err.clone() };
    let mut applied = vec![];
    let mut errfirst_empty = false;
    for (d, w) in ws.iter().enumerate() {
        if *w == W::ErrFirst && o.err.is_none() && matches!(&o.ys, Some(v) if v.is_empty()) {
            errfirst_empty = true;
        }
        if let Some((t, no)) = w.apply(&prog, &o, d) {
            prog = t;
            o = no;
            applied.push(w.clone());
        }
    }
    if applied.is_empty() || o.ys.is_none() {
        return None;
    }
    let mut input = a.input.clone();
    let mut it = false;
    if iter2 && !a.null_input {
        // [.[] | P] over [x, x]
        let ys = o.ys.clone().unwrap();
        let ok = o.err.is_none();
        let mut v = ys.clone();
        v.extend(ys.clone());
        let txt: Option<Vec<String>> = v.iter().map(|x| x.1.clone()).collect();
        o = if ok { Outc { null_may_be_nan: o.null_may_be_nan, ys: Some(vec![(J::Arr(v.iter().map(|x| x.0.clone()).collect()), txt.map(|t| format!("[{}]", t.join(","))))]), err: None } } else { Outc { null_may_be_nan: o.null_may_be_nan, ys: Some(vec![]), err: o.err.clone() } };
        prog = format!("[.[] | ({})]", prog);
        let x = a.input.trim();
        input = format!("[{},{}]\n", x, x);
        it = true;
    }
    Some(MetaCase { anchor: a.clone(), wrappers: applied, iter2: it, program: prog, input, expect: o, errfirst_empty })
}

fn check_meta(c: &MetaCase, st: &mut Stats) -> Result<(), Fail> {
    let o = run_prog(None, &c.anchor.args, &c.program, c.input.as_bytes(), 20);
    st.evals(1);
    if o.timed_out {
        st.discard();
        return Ok(());
    }
    let case = || json!({"anchor": c.anchor.id, "recorded_filter": c.anchor.filter, "args": c.anchor.args, "wrappers": c.wrappers.iter().map(|w| w.name()).collect::<Vec<_>>(), "iter2": c.iter2, "program": c.program, "input": short(&c.input, 600)});
    let ws = c.wrappers.iter().map(|w| format!("{:?}", w).split('(').next().unwrap().to_string()).collect::<Vec<_>>().join("+");
    if o.crashed() {
        fail!("C24/crash", {"case": case(), "got": show_out(&o)});
    }
    if o.code == Some(1) && o.stderr_str().contains("compile error") {
        // the program is standard jq (the recorded filter inside law wrappers) and must compile
        // is the only obstacle the `[f][i]` spelling? re-run with `([f])[i]`
        let postfix = c.wrappers.iter().any(|w| matches!(w, W::CollectIdx(_))) && {
            let ws2: Vec<W> = c.wrappers.iter().map(|w| if let W::CollectIdx(i) = w { W::CollectIdxParen(*i) } else { w.clone() }).collect();
            match build_meta(&c.anchor, &ws2, c.iter2) {
                Some(c2) => {
                    let o2 = run_prog(None, &c2.anchor.args, &c2.program, c2.input.as_bytes(), 20);
                    !(o2.code == Some(1) && o2.stderr_str().contains("compile error"))
                }
                None => false,
            }
        };
        let sig = if postfix { SIG_POSTFIX.to_string() } else { format!("C24/meta/parse-reject/{}", ws) };
        fail!(sig, {"case": case(), "got": show_out(&o)});
    }
    let exp_ys = c.expect.ys.as_ref().unwrap();
    let exp_render = || json!({"values": exp_ys.iter().map(|x| to_compact(&x.0)).collect::<Vec<_>>(), "error": c.expect.err.as_ref().map(to_compact)});
    // stdout: values
    let got = match parse_stream(&o.stdout) {
        Ok(v) => v,
        Err(e) => fail!(format!("C24/meta/stdout-not-json/{}", ws), {"case": case(), "parse_error": e.msg, "got": show_out(&o), "expected": exp_render()}),
    };
    if got.len() != exp_ys.len() || got.iter().zip(exp_ys.iter()).any(|(g, e)| !j_eq(g, &e.0)) {
        if c.wrappers.contains(&W::ErrFirst) && c.anchor.args.iter().any(|a| a == "--arg" || a == "--argjson") && o.stdout_str().contains("undefined variable: $") {
            fail!(SIG_ERROR_ARG_SCOPE, {"case": case(), "got": show_out(&o), "expected": exp_render()});
        }
        // the same scope loss seen through `?`/`try`: inside error(...) the --arg variable is
        // undefined, the optional swallows that error, error() is left with no value
        if c.wrappers.contains(&W::ErrFirst)
            && c.anchor.args.iter().any(|a| a == "--arg" || a == "--argjson")
            && c.program.contains('$')
            && (c.program.contains(")?") || c.program.contains("try "))
            && (o.stdout_str().contains("\"no value\"") || o.stderr_str().contains("no value"))
        {
            fail!(SIG_ERROR_ARG_SCOPE, {"case": case(), "got": show_out(&o), "expected": exp_render(), "note": "undefined-variable error swallowed by the optional, leaving error() with no value"});
        }
        if c.errfirst_empty && (o.stdout_str().contains("\"no value\"") || o.stderr_str().contains("no value")) {
            fail!(SIG_ERROR_EMPTY, {"case": case(), "got": show_out(&o), "expected": exp_render()});
        }
        fail!(format!("C24/meta/values/{}", ws), {"case": case(), "got": show_out(&o), "expected": exp_render()});
    }
    // error or not, message, exit status
    match &c.expect.err {
        None => {
            let want = if c.anchor.exit_status_flag {
                match exp_ys.last() {
                    None => 4,
                    Some((J::Null, _)) | Some((J::Bool(false), _)) => 1,
                    _ => 0,
                }
            } else {
                0
            };
            if o.code != Some(want) {
                fail!(format!("C24/meta/unexpected-failure/{}", ws), {"case": case(), "got": show_out(&o), "expected": exp_render(), "expected_exit": want});
            }
        }
        Some(p) => {
            if o.code != Some(5) {
                fail!(format!("C24/meta/missing-error/{}", ws), {"case": case(), "got": show_out(&o), "expected": exp_render(), "expected_exit": 5});
            }
            let want = errmsg_of_payload(p);
            let gotm = parse_errs(&o.stderr_str());
            let okm = match &gotm {
                Some(v) if v.len() == 1 => {
                    // probe recordings keep the first line only
                    errmsg_eq(&v[0], &want) || matches!((&v[0], &want), (ErrMsg::Str(a), ErrMsg::Str(b)) if c.anchor.id.starts_with("probe:") && a.lines().next() == Some(b.as_str()))
                }
                _ => false,
            };
            if !okm {
                fail!(format!("C24/meta/message/{}", ws), {"case": case(), "got": show_out(&o), "expected_message": format!("{:?}", want)});
            }
        }
    }
    // text, when every expected value carries its recorded text
    if let (true, Some(txt)) = (c.anchor.compact_text, exp_ys.iter().map(|x| x.1.clone()).collect::<Option<Vec<String>>>()) {
        let mut want = txt.join("\n");
        if !txt.is_empty() {
            want.push('\n');
        }
        st.class("text-compared");
        if o.stdout != want.as_bytes() {
            fail!(format!("C24/meta/text/{}", ws), {"case": case(), "got": show_out(&o), "expected_stdout": short(&want, 1500)});
        }
    }
    Ok(())
}

fn gen_meta(u: &mut Src, anchors: &[Anchor]) -> Option<MetaCase> {
    let a = &anchors[u.below(anchors.len())];
    let depth = 1 + u.weighted(&[3, 5, 4]);
    let mut ws = vec![];
    for i in 0..depth {
        // probes need a prefix-erasing wrapper first
        if i == 0 && a.ys.is_none() {
            ws.push(u.pick(&[W::Collect, W::Collect, W::CollectLen, W::ReduceLast, W::CollectIdxParen(0), W::CollectIter]).clone());
        } else {
            ws.push(u.pick(ALL_W).clone());
        }
    }
    let iter2 = u.ratio(1, 8);
    build_meta(a, &ws, iter2)
}

// ------------------------------------------------------------------ (b) proxy differential

#[derive(Clone, Debug)]
struct ProxyCase {
    program: String,
    docs: Vec<String>,
    raw: bool,
    ops: Vec<String>,
    nodes: usize,
    catch_dot: bool,
    deliberate: usize,
    scalar_input: bool,
}

fn gen_proxy(u: &mut Src) -> ProxyCase {
    let shape = jqcore::gen_shape(u, 0);
    let raw = u.ratio(1, 3);
    let k = if raw { 1 } else { u.range(2, 6) };
    let dup = u.ratio(1, 30);
    let docs: Vec<String> = (0..k)
        .map(|_| {
            let mut j = jqcore::instantiate(u, &shape);
            if dup {
                // a duplicate key right before its survivor: same position, last value wins
                if let J::Obj(f) = &mut j {
                    if let Some(first) = f.first().cloned() {
                        f.insert(0, (first.0, J::Str("shadowed".into())));
                    }
                }
            }
            to_compact(&j)
        })
        .collect();
    let p = jqcore::gen_program(u, &shape);
    ProxyCase { program: p.text, docs, raw, ops: p.ops, nodes: p.nodes, catch_dot: p.catch_dot, deliberate: p.deliberate, scalar_input: !matches!(shape, Shape::Arr(_) | Shape::ArrOf(_) | Shape::Obj(_)) }
}

#[derive(Clone, Debug)]
struct DocRes {
    ys: Vec<J>,
    err: Option<ErrMsg>,
}

enum Side {
    Ok(Vec<DocRes>),
    /// the tool refused the program (compile error) — message
    Reject(String),
    Crash,
    Timeout,
    /// anything else that cannot be interpreted (tool assertion, stray stderr, misaligned batch)
    Weird(String),
}

fn marker(j: &J, key: &str) -> Option<i64> {
    match j {
        J::Obj(f) if f.len() == 1 && f[0].0 == key => match &f[0].1 {
            J::Num(n) => n.int,
            _ => None,
        },
        _ => None,
    }
}

fn interpret(o: &CliOut, ndocs: usize, batch: bool, succ: bool) -> Side {
    if o.timed_out {
        return Side::Timeout;
    }
    if succ && o.crashed() {
        return Side::Crash;
    }
    let stderr = o.stderr_str();
    if succ {
        if o.code == Some(1) && stderr.contains("compile error") {
            return Side::Reject(short(stderr.lines().next().unwrap_or(""), 200));
        }
    } else {
        if o.code == Some(3) || o.code == Some(2) {
            return Side::Reject(short(&stderr, 300));
        }
        if o.signal.is_some() || !matches!(o.code, Some(0) | Some(5)) {
            return Side::Weird(format!("reference exit {:?} signal {:?}: {}", o.code, o.signal, short(&stderr, 200)));
        }
    }
    let errs = if stderr.is_empty() {
        vec![]
    } else {
        match parse_errs(&stderr) {
            Some(v) => v,
            None => return Side::Weird(format!("stderr not understood: {}", short(&stderr, 300))),
        }
    };
    let vals = match parse_stream(&o.stdout) {
        Ok(v) => v,
        Err(e) => return Side::Weird(format!("stdout is not a JSON value stream: {}", e.msg)),
    };
    if !batch {
        if errs.len() > 1 {
            return Side::Weird("more than one error line for one document".into());
        }
        return Side::Ok(vec![DocRes { ys: vals, err: errs.into_iter().next() }]);
    }
    let mut docs: Vec<DocRes> = vec![];
    let mut ended: Vec<bool> = vec![];
    for v in vals {
        if let Some(k) = marker(&v, "__vh_s") {
            if k != docs.len() as i64 {
                return Side::Weird("batch markers out of order".into());
            }
            docs.push(DocRes { ys: vec![], err: None });
            ended.push(false);
        } else if let Some(k) = marker(&v, "__vh_e") {
            if docs.is_empty() || k != docs.len() as i64 - 1 || ended[k as usize] {
                return Side::Weird("batch end marker out of order".into());
            }
            ended[k as usize] = true;
        } else {
            match docs.last_mut() {
                Some(d) if !*ended.last().unwrap() => d.ys.push(v),
                _ => return Side::Weird("output outside batch markers".into()),
            }
        }
    }
    if docs.len() != ndocs {
        return Side::Weird(format!("batch produced {} of {} documents", docs.len(), ndocs));
    }
    let open: Vec<usize> = (0..ndocs).filter(|&i| !ended[i]).collect();
    if open.len() != errs.len() {
        return Side::Weird(format!("{} unfinished documents but {} error lines", open.len(), errs.len()));
    }
    for (i, e) in open.into_iter().zip(errs) {
        docs[i].err = Some(e);
    }
    Side::Ok(docs)
}

fn run_side(bin: Option<&str>, c: &ProxyCase, docs: &[String], batch: bool) -> (Side, CliOut) {
    let (prog, input) = if batch {
        let inp: String = docs.iter().enumerate().map(|(i, d)| format!("{{\"i\":{},\"d\":{}}}\n", i, d)).collect();
        (format!("{{\"__vh_s\": .i}}, (.d | ({})), {{\"__vh_e\": .i}}", c.program), inp)
    } else {
        (c.program.clone(), format!("{}\n", docs[0]))
    };
    let o = run_prog(bin, &["-c".to_string()], &prog, input.as_bytes(), if bin.is_some() { 5 } else { 20 });
    (interpret(&o, docs.len(), batch, bin.is_none()), o)
}

/// user-raised payloads of the generator: always comparable
const USER_MSGS: &[&str] = &["boom", "msg"];

fn ops_sig(ops: &[String]) -> String {
    let structural = ["pipe", "comma", "collect", "field", "index", "iterate", "object", "try"];
    let mut v: Vec<&String> = ops.iter().filter(|o| !structural.contains(&o.as_str())).collect();
    if v.is_empty() {
        v = ops.iter().collect();
    }
    v.iter().take(5).map(|s| s.as_str()).collect::<Vec<_>>().join(",")
}

struct ProxyEnv {
    stable: BTreeSet<String>,
}

/// Known-finding signatures: a narrow predicate on the failing case maps to a stable name.
fn known_signature(kind: &str, c: &ProxyCase, _detail: &str) -> Option<String> {
    let has = |o: &str| c.ops.iter().any(|x| x == o);
    match kind {
        // a program containing one of these spellings is rejected whatever else it contains
        "parse-reject" if has("format-interp") => Some(SIG_FORMAT_LITERAL.into()),
        "parse-reject" if has("interp-key") => Some(SIG_INTERP_KEY.into()),
        "parse-reject" if has("obj-var-shorthand") => Some(SIG_VAR_SHORTHAND.into()),
        "parse-reject" if has("postfix-term") => Some(SIG_POSTFIX.into()),
        _ => None,
    }
}

fn compare_docs(c: &ProxyCase, env: &ProxyEnv, a: &[DocRes], b: &[DocRes], docs: &[String], st: &mut Stats, mode: &str) -> Result<(), Fail> {
    // a = jq 1.6, b = succinctly
    for (i, (ra, rb)) in a.iter().zip(b.iter()).enumerate() {
        st.evals(1);
        if ra.ys.iter().chain(rb.ys.iter()).any(has_big_number) {
            st.class("doc-discard:number-beyond-2^53");
            continue;
        }
        let case = || json!({"program": c.program, "doc": docs[i], "mode": mode, "ops": c.ops, "jq16": {"values": ra.ys.iter().map(to_compact).collect::<Vec<_>>(), "error": format!("{:?}", ra.err)}, "succinctly": {"values": rb.ys.iter().map(to_compact).collect::<Vec<_>>(), "error": format!("{:?}", rb.err)}});
        let vals_eq = ra.ys.len() == rb.ys.len() && ra.ys.iter().zip(rb.ys.iter()).all(|(x, y)| j_eq(x, y));
        match (&ra.err, &rb.err) {
            (Some(ErrMsg::Str(m)), None) => {
                let t = template(m);
                if c.program.contains("index(\"") && docs[i].starts_with('{') && m.starts_with("Cannot index") && rb.ys.len() == 1 && matches!(rb.ys[0], J::Null) {
                    fail!(SIG_INDEX_OBJECT, {"case": case()});
                }
                fail!(format!("C24/proxy/only-jq-errors/{}", t), {"case": case(), "family_recorded_stable": env.stable.contains(&t)});
            }
            (Some(ErrMsg::NotStr(_)), None) => fail!("C24/proxy/only-jq-errors/(not a string)", {"case": case()}),
            (None, Some(ErrMsg::Str(m))) => fail!(format!("C24/proxy/only-succinctly-errors/{}", template(m)), {"case": case()}),
            (None, Some(ErrMsg::NotStr(_))) => fail!("C24/proxy/only-succinctly-errors/(not a string)", {"case": case()}),
            _ => {}
        }
        if !vals_eq {
            if c.catch_dot {
                // the text of a caught message may be part of a value; only stable families count
                if let Some((sa, sb)) = first_string_diff(&ra.ys, &rb.ys) {
                    let t = template(&sa);
                    if env.stable.contains(&t) && sa.is_ascii() && sb.is_ascii() {
                        fail!(format!("C24/proxy/caught-message/{}", t), {"case": case(), "jq16_string": sa, "succinctly_string": sb});
                    }
                    if looks_like_message(&sa) || looks_like_message(&sb) {
                        st.class("doc-discard:caught-message-family-not-recorded-stable");
                        continue;
                    }
                }
                // a number measured off a caught message (`try f catch . | length`): the message
                // text itself is only comparable for recorded-stable families, so its length is not
                if (c.program.contains("length") || c.program.contains("utf8bytelength"))
                    && ra.ys.len() == rb.ys.len()
                    && ra.ys.iter().zip(rb.ys.iter()).all(|(x, y)| j_eq(x, y) || (matches!(x, J::Num(_)) && matches!(y, J::Num(_))))
                {
                    st.class("doc-discard:number-measured-off-a-caught-message");
                    continue;
                }
            }
            if c.program.contains("sqrt") && ra.ys.len() == rb.ys.len() && ra.ys.iter().zip(rb.ys.iter()).all(|(x, y)| near_eq(x, y)) {
                fail!(SIG_SQRT, {"case": case()});
            }
            if c.program.contains("flatten") && !c.program.contains("flatten(") && ra.ys.len() == rb.ys.len() && ra.ys.iter().zip(rb.ys.iter()).all(|(x, y)| to_compact(x).replace(['[', ']'], "") == to_compact(y).replace(['[', ']'], "")) {
                fail!(SIG_FLATTEN, {"case": case()});
            }
            if c.program.starts_with("last(") && rb.ys.is_empty() && ra.ys.len() == 1 && matches!(ra.ys[0], J::Null) {
                fail!(SIG_LAST_EMPTY, {"case": case()});
            }
            if (c.program.contains("split(") || c.program.contains(" / \"")) && docs[i].contains("\"\"") && strip_empty_string_arrays(&ra.ys) == strip_empty_string_arrays(&rb.ys) {
                fail!(SIG_SPLIT_EMPTY, {"case": case()});
            }
            // the sign of a computed zero survives in jq's text forms ("-0") but not here ("0")
            if ra.ys.len() == rb.ys.len() && ra.ys.iter().zip(rb.ys.iter()).all(|(x, y)| norm_neg_zero(&to_compact(x)) == norm_neg_zero(&to_compact(y))) {
                fail!(SIG_NEG_ZERO_TEXT, {"case": case()});
            }
            fail!(format!("C24/proxy/values/{}", ops_sig(&c.ops)), {"case": case()});
        }
        if let (Some(ma), Some(mb)) = (&ra.err, &rb.err) {
            match (ma, mb) {
                (ErrMsg::Str(x), ErrMsg::Str(y)) => {
                    let t = template(x);
                    let comparable = (env.stable.contains(&t) || USER_MSGS.contains(&x.as_str())) && x.is_ascii() && y.is_ascii();
                    if comparable {
                        st.class("message-compared");
                        if x != y {
                            // reduce/foreach: the whole source generator is evaluated before the
                            // first iteration of the body, so an error raised by a later source
                            // element pre-empts the error jq raises in the body of an earlier one
                            if (c.program.contains("reduce ") || c.program.contains("foreach ")) && template(x) != template(y) {
                                fail!(SIG_REDUCE_EAGER_SOURCE, {"case": case()});
                            }
                            // `tonumber` on a white-space-only string: jq's JSON parser sees no value
                            if x.starts_with("Expected JSON value (while parsing '") && y.starts_with("Invalid numeric literal at EOF") && c.program.contains("tonumber") {
                                let inner = &x["Expected JSON value (while parsing '".len()..x.len().saturating_sub(2)];
                                if !inner.is_empty() && inner.chars().all(|ch| ch == ' ' || ch == '\t') {
                                    fail!(SIG_TONUMBER_BLANK, {"case": case()});
                                }
                            }
                            fail!(format!("C24/proxy/message/{}", t), {"case": case()});
                        }
                    } else {
                        st.class("message-family-not-recorded-stable");
                    }
                }
                (ErrMsg::NotStr(_), ErrMsg::NotStr(_)) => {
                    if !errmsg_eq(ma, mb) {
                        fail!("C24/proxy/message/(not a string)", {"case": case()});
                    }
                }
                _ => fail!("C24/proxy/message/payload-kind", {"case": case()}),
            }
        }
    }
    Ok(())
}

/// compact text of the outputs with every `[""]` rewritten to `[]`
fn strip_empty_string_arrays(v: &[J]) -> String {
    v.iter().map(|j| to_compact(j).replace("[\"\"]", "[]")).collect::<Vec<_>>().join("\n")
}

/// equal up to a few ulps in every number
fn near_eq(a: &J, b: &J) -> bool {
    match (a, b) {
        (J::Num(x), J::Num(y)) => x.value == y.value || (x.value - y.value).abs() <= 1e-15 * x.value.abs().max(y.value.abs()),
        (J::Arr(x), J::Arr(y)) => x.len() == y.len() && x.iter().zip(y.iter()).all(|(p, q)| near_eq(p, q)),
        (J::Obj(x), J::Obj(y)) => x.len() == y.len() && x.iter().zip(y.iter()).all(|(p, q)| p.0 == q.0 && near_eq(&p.1, &q.1)),
        _ => j_eq(a, b),
    }
}

fn looks_like_message(s: &str) -> bool {
    ["cannot", "Cannot", "not ", "has no", "Invalid", "must", "required", "is not", "Out of bounds", "only", "can't"].iter().any(|w| s.contains(w))
}

fn first_string_diff(a: &[J], b: &[J]) -> Option<(String, String)> {
    fn walk(a: &J, b: &J) -> Option<(String, String)> {
        match (a, b) {
            (J::Str(x), J::Str(y)) if x != y => Some((x.clone(), y.clone())),
            (J::Arr(x), J::Arr(y)) if x.len() == y.len() => x.iter().zip(y.iter()).find_map(|(p, q)| walk(p, q)),
            (J::Obj(x), J::Obj(y)) if x.len() == y.len() => x.iter().zip(y.iter()).find_map(|(p, q)| walk(&p.1, &q.1)),
            _ => None,
        }
    }
    if a.len() != b.len() {
        return None;
    }
    a.iter().zip(b.iter()).find_map(|(p, q)| walk(p, q))
}

fn check_proxy(c: &ProxyCase, env: &ProxyEnv, st: &mut Stats) -> Result<(), Fail> {
    let batch = !c.raw && c.docs.len() > 1;
    let (sa, oa) = run_side(Some(JQ16), c, &c.docs, batch);
    let a = match sa {
        Side::Ok(v) => v,
        Side::Reject(m) => {
            // a program jq 1.6 does not compile is outside the proxy's domain
            st.class("discard:jq16-compile-error");
            st.sample("discard:jq16-compile-error", || json!({"program": c.program, "stderr": m}));
            st.discard();
            return Ok(());
        }
        Side::Timeout => {
            st.class("discard:jq16-timeout");
            st.discard();
            return Ok(());
        }
        Side::Crash | Side::Weird(_) => {
            st.class("discard:jq16-uninterpretable");
            st.sample("discard:jq16-uninterpretable", || json!({"program": c.program, "got": show_out(&oa)}));
            st.discard();
            return Ok(());
        }
    };
    let (sb, ob) = run_side(None, c, &c.docs, batch);
    let case = || json!({"program": c.program, "docs": c.docs, "mode": if batch { "batch" } else { "raw" }, "ops": c.ops});
    let b = match sb {
        Side::Ok(v) => v,
        Side::Crash => fail!("C24/crash", {"case": case(), "got": show_out(&ob)}),
        Side::Timeout => {
            st.class("discard:succinctly-timeout");
            st.discard();
            return Ok(());
        }
        Side::Reject(m) => {
            let sig = known_signature("parse-reject", c, &m).unwrap_or_else(|| format!("C24/proxy/parse-reject/{}", ops_sig(&c.ops)));
            fail!(sig, {"case": case(), "succinctly_stderr": m, "note": "jq 1.6 compiles and runs this program"});
        }
        Side::Weird(m) => {
            if batch {
                // fall back to one document at a time below
                vec![]
            } else {
                fail!("C24/proxy/uninterpretable-output", {"case": case(), "why": m, "got": show_out(&ob)});
            }
        }
    };
    if batch && b.len() == a.len() {
        match compare_docs(c, env, &a, &b, &c.docs, st, "batch") {
            Ok(()) => return Ok(()),
            Err(_) => {} // bisect: re-run document by document without the batch wrapper
        }
    }
    if batch {
        let mut any = false;
        for d in &c.docs {
            let one = [d.clone()];
            let (s1, o1) = run_side(Some(JQ16), c, &one, false);
            let (s2, o2) = run_side(None, c, &one, false);
            let case1 = || json!({"program": c.program, "doc": d, "mode": "raw (bisected from batch)", "ops": c.ops});
            match (s1, s2) {
                (Side::Ok(x), Side::Ok(y)) => {
                    if let Err(f) = compare_docs(c, env, &x, &y, &one, st, "raw (bisected from batch)") {
                        return Err(f);
                    }
                    any = true;
                }
                (_, Side::Crash) => fail!("C24/crash", {"case": case1(), "got": show_out(&o2)}),
                (Side::Ok(_), Side::Weird(m)) => fail!("C24/proxy/uninterpretable-output", {"case": case1(), "why": m, "got": show_out(&o2)}),
                _ => {
                    let _ = o1;
                }
            }
        }
        if any {
            // every document agrees on its own, the batch did not
            fail!("C24/proxy/batch-only-difference", {"case": case(), "jq16": show_out(&oa), "succinctly": show_out(&ob)});
        }
        st.discard();
        return Ok(());
    }
    // raw mode: exit status too (jq 1.6: 5 iff the single document raised)
    compare_docs(c, env, &a, &b, &c.docs, st, "raw")?;
    if matches!(oa.code, Some(0) | Some(5)) && ob.code != oa.code {
        fail!("C24/proxy/exit-status", {"case": case(), "jq16_exit": oa.code, "succinctly_exit": ob.code, "got": show_out(&ob)});
    }
    Ok(())
}

// ------------------------------------------------------------------ replays

fn replay_input(v: &Value, anchors: &[Anchor], env: &ProxyEnv) -> Option<Fail> {
    let inp = &v["input"];
    let mut st = Stats::default();
    match v["subcheck"].as_str().unwrap_or("") {
        "proxy" => {
            let docs: Vec<String> = inp["docs"].as_array().map(|a| a.iter().filter_map(|x| x.as_str().map(str::to_string)).collect()).unwrap_or_default();
            let c = ProxyCase {
                program: inp["program"].as_str().unwrap_or(".").to_string(),
                raw: inp["mode"].as_str() != Some("batch"),
                docs,
                ops: inp["ops"].as_array().map(|a| a.iter().filter_map(|x| x.as_str().map(str::to_string)).collect()).unwrap_or_default(),
                nodes: 0,
                catch_dot: inp["program"].as_str().unwrap_or("").contains("catch ."),
                deliberate: 0,
                scalar_input: false,
            };
            if c.docs.is_empty() {
                return Some(Fail::new("C24/replay/malformed", json!({"replay": v})));
            }
            check_proxy(&c, env, &mut st).err()
        }
        "meta" => {
            let id = inp["anchor"].as_str().unwrap_or("");
            let Some(a) = anchors.iter().find(|a| a.id == id) else {
                return Some(Fail::new("C24/replay/unknown-anchor", json!({"anchor": id})));
            };
            let ws: Vec<W> = inp["wrappers"].as_array().map(|x| x.iter().filter_map(|s| s.as_str().and_then(W::parse)).collect()).unwrap_or_default();
            match build_meta(a, &ws, inp["iter2"].as_bool().unwrap_or(false)) {
                Some(c) => check_meta(&c, &mut st).err(),
                None => Some(Fail::new("C24/replay/malformed", json!({"replay": v}))),
            }
        }
        _ => Some(Fail::new("C24/replay/malformed", json!({"replay": v}))),
    }
}

// ------------------------------------------------------------------ entry point

pub fn run(cx: &mut Ctx) {
    cx.assume("The recorded corpus under /repo/tests/data (jq-golden/cases, jq-error-messages.tsv) is what jq 1.7.1 printed; it is read at run time and never regenerated. The repository's manifests jq-golden-known-failures.txt / jq-error-known-divergences.txt and docs/compliance/jq/limitations.md (+ the Known Limitations of docs/reference/jq-language.md) define the documented divergences, which are excluded by construction.");
    cx.assume("(a) rests on jq's defining equations for the wrapper forms (jq 1.7.1 manual and builtin.jq definitions of first/limit/reduce/foreach/try/label); each law is applied only where it is sound (e.g. [f] of an erroring f is the error alone; first(f) ignores an error after the first output; error probes record no outputs, so they are only wrapped in prefix-erasing forms first).");
    cx.assume("(b) /usr/bin/jq is jq 1.6, a proxy: it can only confirm agreement where 1.6 == 1.7.1. The generator emits only constructs outside every measured 1.6-vs-recording disagreement cluster and every 1.6->1.7 change known from the changelog; message text is compared only for message families the recorded probes show identical in both versions; a disagreement is a finding only after checking it against the recordings and limitations.md. Numbers are compared as doubles; documents whose outputs exceed 2^53 are discarded (documented i64/f64 arithmetic). Trusted: Rust str::parse::<f64>, the harness JSON value parser.");
    // development aid (never set by run.sh): dump N generated proxy cases as JSON lines and stop
    if let Ok(n) = std::env::var("VH_C24_DUMP") {
        use proptest::strategy::{Strategy, ValueTree};
        let n: u64 = n.parse().unwrap_or(100);
        let strat = EntropyStrategy { max_len: 512 };
        let base = cx.sub_seed("proxy");
        for i in 0..n {
            let mut r = runner_for(base, i);
            if let Ok(t) = strat.new_tree(&mut r) {
                let e = t.current();
                let mut u = Src::new(&e.0);
                let c = gen_proxy(&mut u);
                println!("{}", json!({"program": c.program, "docs": c.docs, "ops": c.ops, "raw": c.raw, "catch_dot": c.catch_dot}));
            }
        }
        cx.infra("dump mode");
        return;
    }
    if !cli::cli_available() {
        cx.infra(format!("CLI binary missing: {}", cli::cli_path()));
        return;
    }
    let (goldens, probes) = match (load_goldens(), load_probes()) {
        (Ok(g), Ok(p)) => (g, p),
        (Err(e), _) | (_, Err(e)) => {
            cx.infra(format!("recorded corpus unreadable: {}", e));
            return;
        }
    };
    if goldens.len() < 400 || probes.len() < 200 {
        cx.infra(format!("recorded corpus looks truncated: {} goldens, {} probes", goldens.len(), probes.len()));
        return;
    }
    let have16 = std::path::Path::new(JQ16).exists() && {
        let o = cli::run_with(JQ16, &["--version"], None, Duration::from_secs(5), &[]);
        o.stdout_str().trim() == "jq-1.6"
    };
    let known_g = manifest_names(&format!("{}/tests/data/jq-golden-known-failures.txt", repo()));
    let known_p = manifest_names(&format!("{}/tests/data/jq-error-known-divergences.txt", repo()));
    let mut skipped = BTreeMap::new();
    let anchors = build_anchors(&goldens, &probes, &known_g, &known_p, &mut skipped);

    // calibration of the proxy against the recordings
    // (only needed by the proxy sub-check; skipped when a development run selects other sub-checks)
    let want_proxy = !cx.skip("proxy") && cx.replay_entropy.as_ref().map(|r| r.0 == "proxy").unwrap_or(true);
    let cal = if have16 && want_proxy { Some(calibrate_cached(&goldens, &probes, cx.threads)) } else { None };
    let env = ProxyEnv { stable: cal.as_ref().map(|c| c.stable.clone()).unwrap_or_default() };
    if let Some(c) = &cal {
        cx.extra.insert(
            "jq16_vs_recorded_jq171".into(),
            json!({
                "goldens_agree": c.golden_agree, "goldens_total": c.golden_total,
                "goldens_disagree": c.golden_disagree.iter().map(|x| json!([x.0, x.1])).collect::<Vec<_>>(),
                "probes_agree": c.probe_agree, "probes_total": c.probe_total,
                "probes_disagree": c.probe_disagree.iter().map(|x| json!([x.0, x.1])).collect::<Vec<_>>(),
                "stable_message_families": c.stable.len(),
                "unstable_message_families": c.unstable.iter().collect::<Vec<_>>(),
            }),
        );
        // the measured agreement must stay in the region the design was calibrated on
        if c.golden_agree * 100 < c.golden_total * 85 || c.probe_agree * 100 < c.probe_total * 85 {
            cx.infra(format!("proxy calibration out of range: jq 1.6 reproduces {}/{} goldens and {}/{} probes", c.golden_agree, c.golden_total, c.probe_agree, c.probe_total));
        }
    } else if want_proxy {
        cx.infra("reference /usr/bin/jq (1.6) not available: proxy differential cannot run");
    }
    cx.extra.insert("excluded_constructs".into(), json!(jqcore::EXCLUDED.iter().map(|x| json!({"construct": x.0, "reason": x.1})).collect::<Vec<_>>()));
    cx.extra.insert("anchors".into(), json!({"eligible": anchors.len(), "goldens": goldens.len(), "probes": probes.len(), "skipped": skipped, "manifest_known_golden_failures": known_g.len(), "manifest_known_probe_divergences": known_p.len()}));

    // 1. committed replays
    for (name, v) in cx.replays.clone() {
        if v["kind"] == "input" {
            let r = replay_input(&v, &anchors, &env);
            cx.replay_outcome(&name, r);
        }
    }

    // 2. the recorded corpus itself, verbatim (what the repository's own suites assert)
    {
        let kg = &known_g;
        let kp = &known_p;
        let gs = &goldens;
        let ps = &probes;
        cx.exhaustive("anchors", "every recorded golden case (stdout, exit status, stderr byte for byte) and every error probe (exit 5, message) through the CLI, minus the repository's known-failure manifests", true, |shard, n, st| {
            for (i, g) in gs.iter().enumerate() {
                if i % n != shard || kg.contains(&g.name) {
                    continue;
                }
                let o = run_prog(None, &g.args, &g.filter, g.input.as_bytes(), 30);
                st.evals(1);
                st.class("golden");
                st.nontrivial(hash_str(&g.name));
                if o.crashed() {
                    fail!("C24/crash", {"golden": g.name, "filter": g.filter, "got": show_out(&o)});
                }
                if let Err(why) = golden_verdict(g, &o) {
                    if o.timed_out {
                        continue;
                    }
                    fail!(format!("C24/anchor/golden/{}", g.name), {"filter": g.filter, "args": g.args, "input": short(&g.input, 400), "why": why, "got": show_out(&o), "expected_stdout": short(&g.out, 800), "expected_status": g.status, "expected_stderr": g.err});
                }
            }
            for (i, p) in ps.iter().enumerate() {
                if i % n != shard || kp.contains(&p.id) {
                    continue;
                }
                let o = run_prog(None, &["-c".to_string()], &p.filter, p.input.as_bytes(), 30);
                st.evals(1);
                st.class("probe");
                st.nontrivial(hash_str(&p.id));
                if o.crashed() {
                    fail!("C24/crash", {"probe": p.id, "filter": p.filter, "got": show_out(&o)});
                }
                if let Err(why) = probe_verdict(p, &o) {
                    if o.timed_out {
                        continue;
                    }
                    fail!(format!("C24/anchor/probe/{}", p.id), {"filter": p.filter, "input": p.input, "why": why, "got": show_out(&o), "expected_message": p.msg});
                }
            }
            Ok(())
        });
    }

    // 3. (a) metamorphic search around the recordings
    {
        let an = &anchors;
        cx.check("meta", "anchor x 1..3 nested law wrappers (+ optional [.[]|P] over [x,x]); expected outcome computed from the recording", Budget { quick: 6000, thorough: 150_000, max_len: 64 }, |u, st| {
            let Some(c) = gen_meta(u, an) else {
                st.discard();
                return Ok(());
            };
            st.class(if c.anchor.id.starts_with("probe:") {
                "anchor:probe"
            } else if c.anchor.err.is_some() {
                "anchor:golden-error"
            } else {
                "anchor:golden"
            });
            st.class(&format!("depth:{}", c.wrappers.len()));
            for w in &c.wrappers {
                st.class(&format!("w:{}", format!("{:?}", w).split('(').next().unwrap()));
            }
            st.class_if(c.iter2, "w:Iter2");
            st.class(if c.expect.err.is_some() { "expect:error" } else { "expect:ok" });
            if c.wrappers.len() >= 2 {
                st.nontrivial(hash_str(&format!("{}|{}", c.anchor.id, c.program)));
            }
            st.size(c.program.len());
            st.sample(&format!("depth:{}", c.wrappers.len()), || json!({"anchor": c.anchor.id, "program": c.program, "input": short(&c.input, 200), "expected_values": c.expect.ys.as_ref().unwrap().iter().map(|x| to_compact(&x.0)).collect::<Vec<_>>(), "expected_error": c.expect.err.as_ref().map(to_compact)}));
            st.describe(|| json!({"subcheck": "meta", "input": {"anchor": c.anchor.id, "wrappers": c.wrappers.iter().map(|w| w.name()).collect::<Vec<_>>(), "iter2": c.iter2}, "program": c.program, "stdin": c.input, "args": c.anchor.args}));
            check_meta(&c, st)
        });
        for cl in ["anchor:golden", "anchor:golden-error", "anchor:probe", "expect:error", "text-compared", "w:TryCatch", "w:Collect", "w:First", "depth:3"] {
            cx.require_class("meta", cl, 20);
        }
    }

    // 4. (b) proxy differential on the version-stable core
    if have16 && want_proxy {
        let envr = &env;
        cx.check("proxy", "typed core-fragment program x 1..6 same-shape documents, succinctly vs jq 1.6 (values, error-or-not, exit status, stable message families)", Budget { quick: 3000, thorough: 200_000, max_len: 512 }, |u, st| {
            let c = gen_proxy(u);
            st.class(if c.raw || c.docs.len() == 1 { "mode:raw" } else { "mode:batch" });
            for o in &c.ops {
                st.class(&format!("op:{}", o));
            }
            st.class_if(c.deliberate > 0, "deliberate-type-error");
            st.class_if(c.catch_dot, "catch-dot");
            st.class_if(c.scalar_input, "input:scalar");
            st.class_if(!c.scalar_input, "input:container");
            if c.nodes >= 3 && !c.scalar_input {
                st.nontrivial(hash_str(&format!("{}|{}", c.program, c.docs.join("\n"))));
            }
            st.size(c.program.len());
            st.sample(if c.deliberate > 0 { "deliberate-type-error" } else if c.nodes >= 8 { "large" } else { "small" }, || json!({"program": c.program, "docs": c.docs}));
            st.describe(|| json!({"subcheck": "proxy", "input": {"program": c.program, "docs": c.docs, "mode": if c.raw || c.docs.len() == 1 { "raw" } else { "batch" }, "ops": c.ops}}));
            check_proxy(&c, envr, st)
        });
        // jq's total order on objects (sorted key lists first, then values in sorted-key order),
        // unchanged between 1.6 and 1.7.1: families of objects over one key set, each written in
        // its own insertion order, under the ordering builtins
        cx.check("proxy-object-order", "arrays of 2..5 objects over one key set of 2..4 keys in random insertion orders with values 0..2 (plus occasional extra/missing key) x {sort, unique, min, max, group_by(.), sort_by(.), .[0] < .[1], .[0] == .[1], unique_by(.)}: succinctly vs jq 1.6", Budget { quick: 400, thorough: 20_000, max_len: 96 }, |u, st| {
            let pool = ["b", "a", "d", "c"];
            let nk = u.range(2, 4);
            let n = u.range(2, 5);
            let mut objs: Vec<String> = vec![];
            for _ in 0..n {
                let mut order: Vec<usize> = (0..nk).collect();
                for i in (1..nk).rev() {
                    let j = u.below(i + 1);
                    order.swap(i, j);
                }
                if u.ratio(1, 8) {
                    order.pop();
                }
                let mut fields: Vec<String> = order.iter().map(|&i| format!("\"{}\":{}", pool[i], u.range(0, 2))).collect();
                if u.ratio(1, 8) {
                    fields.push("\"z\":0".to_string());
                }
                objs.push(format!("{{{}}}", fields.join(",")));
            }
            let doc = format!("[{}]", objs.join(","));
            let program = u.pick(&["sort", "unique", "min", "max", "group_by(.)", "sort_by(.)", "(.[0] < .[1])", "(.[0] == .[1])", "unique_by(.)", "(.[0] <= .[1])", "[.[] | . > {\"a\":1,\"b\":1}]"]).to_string();
            let c = ProxyCase { program: program.clone(), docs: vec![doc.clone()], raw: true, ops: vec!["object-order".to_string()], nodes: 3, catch_dot: false, deliberate: 0, scalar_input: false };
            st.class(&format!("prog:{}", program));
            st.nontrivial(hash_str(&format!("{}|{}", program, doc)));
            st.sample("object-order", || json!({"program": program, "doc": doc}));
            st.describe(|| json!({"subcheck": "proxy", "input": {"program": c.program, "docs": c.docs, "mode": "raw", "ops": c.ops}}));
            check_proxy(&c, envr, st)
        });
        for cl in ["mode:raw", "mode:batch", "deliberate-type-error", "message-compared", "op:reduce", "op:foreach", "op:if", "op:try", "op:alternative", "op:object", "op:assign", "op:update", "op:path", "op:sort", "op:add", "op:div", "op:select", "op:limit", "op:def", "op:as", "op:interpolation", "input:container"] {
            cx.require_class("proxy", cl, 10);
        }
    }
    cli::cleanup();
}
