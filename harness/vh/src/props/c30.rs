//! C30 — jq programs never crash the process (DESIGN §4 C30).
//!
//! Subject: `jq::parse`, `jq::parse_program`, `parse_with_mode(Yq)`, `parse_program_with_mode(Yq)`
//! on every program text; if `jq::parse` accepts it, the library evaluator (`jq::eval`) and the
//! generic evaluator (`eval_generic::eval_with_cursor`, the CLI's) on a generated input. Allowed
//! outcomes: outputs, a jq error, break/halt, a parse error. A panic (caught in the worker, with
//! location), a stack overflow, an abort, or an allocation request >= 2^40 bytes is a violation.
//! A case that makes no progress for the watchdog period is killed and discarded (the statement
//! excludes non-terminating programs); an allocation failure < 2^40 bytes under the 6 GiB
//! address-space limit is discarded as inconclusive. A fraction of cases is also run through
//! `succinctly jq -c -f <file> <input>` (exit status 101 / death by signal = crash).
//!
//! Abort-prone programs (huge numeric operands, `infinite`, >= 100 levels of nesting) that parse are
//! run through the CLI *first* (under `ulimit -v` 6 GiB): a CLI death gives the abort a minimised,
//! narrow signature `C30/cli-abort/<kind>/<culprit>` and keeps the worker alive; everything else
//! that kills a worker is reported by the engine as `C30/<sub>/process-abort/<kind>`.
//! Signatures of caught panics: `C30/<stage>/panic@<file>/<message, digits -> N>/<culprit>` where the
//! culprit is the last builtin (or the operators) left after AST + token delta debugging.
//!
//! Development aids (never set by run.sh): `VH_C30_SHOW=<entropy replay>` prints the case without
//! running it (process-abort replays carry no description because the worker died);
//! `VH_C30_COLLECT=<file>` appends failures instead of stopping; `VH_C30_TRACE=<dir>` leaves the
//! filter of every unfinished case behind; `VH_C30_DUMP_SNIPPETS=1` lists the hostile snippets.
use crate::cli;
use crate::engine::*;
use crate::gen::jqprog::{self, Cfg, Profile, Prog};
use crate::gen::json::{self as gjson, GenOpts, KeyPalette, StrPalette, J};
use crate::isolate::IsoOpts;
use crate::props::c23::{run_full, run_generic, Outcome};
use serde_json::{json, Value};
use succinctly::jq::{self, ParserMode};

pub const RULE: &str = "G-jqprog *hostile*: typed programs with extreme operands (infinite, nan, 1e19, -0, 9007199254740993, 1e1000, i64 edges, repeat counts <= 1e5 or >= 1e15), ~900 hostile snippets (string repetition, implode, splits/sub with empty regex, tojson of deep values, getpath/setpath/slice assignment with huge indices, dates with extreme inputs, @base64d/fromjson/tonumber of garbage, limit/first/nth edge counts, label/break, def recursion, reduce/foreach edge cases) composed with generated pieces, one construct nested up to 5 000 levels (51 nesting forms), token soups over a 300-token alphabet, 1-3 edit mutants of the 487 jq-golden filters, generated programs with non-ASCII/control characters spliced into the text; x small G-json inputs (sometimes 100-400 levels deep). Non-trivial: program that parses and contains an extreme operand or >= 50 levels of nesting; distinct by hash(program text, input).";

const GOLDEN_DIR: &str = "/repo/tests/data/jq-golden/cases";

pub fn load_seeds() -> Vec<String> {
    let mut v = vec![];
    if let Ok(rd) = std::fs::read_dir(GOLDEN_DIR) {
        let mut dirs: Vec<_> = rd.filter_map(|e| e.ok()).map(|e| e.path()).collect();
        dirs.sort();
        for d in dirs {
            if let Ok(f) = std::fs::read_to_string(d.join("filter")) {
                let f = f.trim().to_string();
                if !f.is_empty() && f.len() < 400 {
                    v.push(f);
                }
            }
        }
    }
    v
}

fn norm_msg(m: &str) -> String {
    let mut out = String::new();
    let mut in_num = false;
    // keep the fixed part of the message: std messages quote data after `;`, a backtick or a quote
    let m = m.split(|c| c == ';' || c == '`' || c == '\'' || c == '"').next().unwrap_or(m);
    for c in m.chars().take(90) {
        if c.is_ascii_digit() {
            if !in_num {
                out.push('N');
            }
            in_num = true;
        } else {
            in_num = false;
            out.push(if c.is_ascii_alphanumeric() || " :_-.()".contains(c) { c } else { '?' });
        }
    }
    out.trim().replace(' ', "-")
}

fn is_nesting_guard(msg: &str) -> bool {
    msg.starts_with("nesting depth exceeds limit of")
}

/// Could this (program, input) really reach nesting >= 256? (sound over-approximation: only then is
/// the documented `nesting depth exceeds limit of N` guard panic tolerated)
fn deep_capable(text: &str, input_depth: usize, nest: usize) -> bool {
    if input_depth >= 200 || nest >= 100 || text.bytes().filter(|b| *b == b'[' || *b == b'{').count() >= 100 {
        return true;
    }
    const LOOPS: &[&str] = &["reduce", "foreach", "recurse", "repeat", "while", "until", "range", "limit", "def ", "..", "setpath", "fromjson", "walk", "paths", "getpath", "tostream", "fromstream", "*", "tojson", "flatten", "combinations", "transpose", "input"];
    LOOPS.iter().any(|k| text.contains(k))
}

/// Builtin names and operators of a (minimised) program: strings, numbers, field names and variables
/// are dropped so that the same defect keeps the same signature whatever data triggered it.
fn culprit(text: &str) -> String {
    let toks = lex(text);
    let mut v: Vec<String> = vec![];
    let mut prev = String::new();
    for t in &toks {
        let c0 = t.chars().next().unwrap_or(' ');
        let keep = if c0 == '"' || c0.is_ascii_digit() || c0 == '$' || c0 == ' ' || matches!(t.as_str(), "infinite" | "nan" | "null" | "true" | "false") {
            false
        } else if c0.is_ascii_alphabetic() || c0 == '_' || c0 == '@' {
            prev != "."
        } else {
            "*+-/%=:?".contains(c0)
        };
        if keep && !v.contains(t) {
            v.push(t.clone());
        }
        prev = t.clone();
    }
    // control wrappers are never the crash site; operators only matter when no builtin is left
    v.retain(|t| t != "try" && t != "catch");
    if v.iter().any(|t| t.chars().next().map_or(false, |c| c.is_ascii_alphabetic() || c == '@' || c == '_')) {
        v.retain(|t| t.chars().next().map_or(false, |c| c.is_ascii_alphabetic() || c == '@' || c == '_'));
    }
    let is_id = |t: &String| t.chars().next().map_or(false, |c| c.is_ascii_alphabetic() || c == '@' || c == '_');
    if v.iter().any(is_id) {
        // pipelines crash in their last stage: the last builtin left after minimisation names it
        return v.iter().rev().find(|t| is_id(t)).cloned().unwrap_or_default();
    }
    v.truncate(4);
    if v.is_empty() {
        "-".into()
    } else {
        v.join("")
    }
}

/// Two-phase minimisation: AST reductions first (drops whole wrappers / composed pieces cheaply),
/// then token-level ddmin on the remaining text.
fn minimize_prog(prog: &Prog, pred: &dyn Fn(&str) -> bool, max_evals: usize, early: &dyn Fn(&str) -> bool) -> String {
    let mut text = prog.text.clone();
    let structured = !matches!(&prog.ast, jqprog::E::Raw(_, _, tag) if *tag == "rawtext");
    let mut evals = 0;
    if structured {
        let mut best = prog.ast.clone();
        'outer: loop {
            for cand in jqprog::shrink_candidates(&best) {
                if evals >= max_evals / 2 {
                    break 'outer;
                }
                let t = jqprog::print(&cand);
                evals += 1;
                if pred(&t) {
                    if early(&t) {
                        return t;
                    }
                    best = cand;
                    continue 'outer;
                }
            }
            break;
        }
        text = jqprog::print(&best);
    }
    minimize_text(&text, pred, max_evals.saturating_sub(evals).max(20), early)
}

fn lex(text: &str) -> Vec<String> {
    let mut toks = vec![];
    let cs: Vec<char> = text.chars().collect();
    let mut i = 0;
    while i < cs.len() {
        let c = cs[i];
        let mut j = i + 1;
        if c.is_ascii_alphanumeric() || c == '_' || c == '$' || c == '@' {
            while j < cs.len() && (cs[j].is_ascii_alphanumeric() || cs[j] == '_' || cs[j] == '.' && c.is_ascii_digit()) {
                j += 1;
            }
        } else if c == '"' {
            while j < cs.len() && cs[j] != '"' {
                if cs[j] == '\\' {
                    j += 1;
                }
                j += 1;
            }
            j = (j + 1).min(cs.len());
        } else if c == ' ' {
            while j < cs.len() && cs[j] == ' ' {
                j += 1;
            }
        }
        toks.push(cs[i..j.min(cs.len())].iter().collect());
        i = j.min(cs.len()).max(i + 1);
    }
    toks
}

/// ddmin over tokens: smallest token subsequence for which `pred` still holds (bounded work).
fn minimize_text(text: &str, pred: &dyn Fn(&str) -> bool, max_evals: usize, early: &dyn Fn(&str) -> bool) -> String {
    let mut toks = lex(text);
    if toks.len() > 400 {
        return text.to_string();
    }
    let mut evals = 0;
    let mut chunk = (toks.len() / 2).max(1);
    while chunk >= 1 {
        let mut i = 0;
        let mut progressed = false;
        while i < toks.len() {
            if evals > max_evals {
                return toks.concat();
            }
            let end = (i + chunk).min(toks.len());
            let mut cand = toks.clone();
            cand.drain(i..end);
            evals += 1;
            if !cand.is_empty() && pred(&cand.concat()) {
                toks = cand;
                progressed = true;
                if early(&toks.concat()) {
                    return toks.concat();
                }
            } else {
                i += chunk;
            }
        }
        if chunk == 1 && !progressed {
            break;
        }
        chunk = if chunk > 1 { chunk / 2 } else { 1 };
        if chunk == 1 && !progressed && toks.len() <= 1 {
            break;
        }
    }
    toks.concat()
}

#[derive(Clone, Debug, PartialEq)]
struct Crash {
    stage: &'static str,
    loc: String,
    msg: String,
}

/// Everything C30 does in-process with one (program text, input): None = no crash.
fn crash_of(text: &str, input: &[u8]) -> (Option<Crash>, Option<(Outcome, Outcome)>, bool) {
    let stages: [(&'static str, Box<dyn Fn() -> bool>); 4] = [
        ("parse", Box::new(|| jq::parse(text).is_ok())),
        ("parse_program", Box::new(|| jq::parse_program(text).is_ok())),
        ("parse-yq", Box::new(|| jq::parse_with_mode(text, ParserMode::Yq).is_ok())),
        ("parse_program-yq", Box::new(|| jq::parse_program_with_mode(text, ParserMode::Yq).is_ok())),
    ];
    for (name, f) in stages.iter() {
        if let Err((loc, msg)) = catch(|| f()) {
            return (Some(Crash { stage: name, loc, msg }), None, false);
        }
    }
    let expr = match catch(|| jq::parse(text)) {
        Ok(Ok(e)) => e,
        _ => return (None, None, false),
    };
    let f = match run_full(&expr, input) {
        Ok(o) => o,
        Err((loc, msg)) => return (Some(Crash { stage: "eval-full", loc, msg }), None, true),
    };
    let g = match run_generic(&expr, input) {
        Ok(o) => o,
        Err((loc, msg)) => return (Some(Crash { stage: "eval-generic", loc, msg }), None, true),
    };
    (None, Some((f, g)), true)
}

/// panic location without line number, toolchain hash or registry prefix
fn loc_sig(loc: &str) -> String {
    let l = panic_sig(loc);
    if l.starts_with("/rustc/") {
        // inside the standard library: the exact file depends on the operand, not on the defect
        return "std".to_string();
    }
    if let Some(i) = l.find("/registry/src/") {
        return l[i + 14..].splitn(2, '/').nth(1).unwrap_or(&l).to_string();
    }
    l
}

fn crash_sig(c: &Crash, culprit: &str) -> String {
    format!("C30/{}/panic@{}/{}/{}", c.stage, loc_sig(&c.loc), norm_msg(&c.msg), culprit)
}

fn same_crash(a: &Crash, b: &Crash) -> bool {
    a.stage == b.stage && loc_sig(&a.loc) == loc_sig(&b.loc) && norm_msg(&a.msg) == norm_msg(&b.msg)
}

pub fn gen_input(u: &mut Src) -> J {
    let o = GenOpts {
        max_depth: u.range(0, 4),
        max_nodes: u.range(1, 30),
        dup_keys: u.ratio(1, 4),
        strings: *u.pick(&[StrPalette::AsciiPlain, StrPalette::Ascii, StrPalette::Full]),
        keys: *u.pick(&[KeyPalette::Ident, KeyPalette::Ident, KeyPalette::AsStrings, KeyPalette::Hostile]),
        numbers: *u.pick(&[0u8, 1, 2, 2]),
        max_str_len: 12,
    };
    let v = gjson::gen_value(u, &o);
    if u.ratio(1, 40) {
        let d = *u.pick(&[100usize, 200, 255, 256, 257, 300, 383, 384, 385, 400]);
        return gjson::wrap_deep(u, v, d);
    }
    v
}

/// `succinctly jq -c -f <filter> <input>` under `ulimit -v` 6 GiB. None = timed out.
fn run_cli(text: &str, input: &str) -> Option<cli::CliOut> {
    let fp = cli::write_tmp("c30-filter", text.as_bytes());
    let ip = cli::write_tmp("c30-input", input.as_bytes());
    let cmd = format!("ulimit -v 6291456; ulimit -c 0; exec \"$0\" jq -c -f \"$1\" \"$2\"");
    let out = cli::run_with("/bin/sh", &["-c", &cmd, &cli::cli_path(), fp.to_str().unwrap_or(""), ip.to_str().unwrap_or("")], None, std::time::Duration::from_secs(5), &[]);
    let _ = std::fs::remove_file(&fp);
    let _ = std::fs::remove_file(&ip);
    if out.timed_out {
        None
    } else {
        Some(out)
    }
}

/// How a CLI run crashed: None = it did not (or only a plausible allocation failure).
#[derive(Clone, Debug, PartialEq)]
struct CliCrash {
    how: String,
    loc: String,
    msg: String,
    nesting_guard: bool,
    signal: bool,
}

fn cli_crash(out: &cli::CliOut) -> Option<CliCrash> {
    if !out.crashed() {
        return None;
    }
    let err = out.stderr_str();
    let mut how = match (out.code, out.signal) {
        (_, Some(s)) => format!("signal-{}", s),
        (Some(c), _) => format!("exit-{}", c),
        _ => "?".into(),
    };
    if err.contains("overflowed its stack") {
        how = "stack-overflow".into();
    }
    if let Some(i) = err.find("memory allocation of ") {
        let n: String = err[i + 21..].chars().take_while(|c| c.is_ascii_digit()).collect();
        match n.parse::<u128>() {
            Ok(n) if n < (1u128 << 40) => return None, // plausible request that met the limit
            _ => how = "impossible-allocation".into(),
        }
    }
    let loc = err.split("panicked at ").nth(1).and_then(|r| r.split(|c| c == ',' || c == '\n').next()).unwrap_or("-").trim_end_matches(':').to_string();
    let msg = err.lines().skip_while(|l| !l.contains("panicked at")).nth(1).unwrap_or("").to_string();
    Some(CliCrash { how, loc, nesting_guard: err.contains("nesting depth exceeds limit of"), msg, signal: out.signal.is_some() })
}

fn check_prog(prog: &Prog, doc: &J, st: &mut Stats, cli_sample: bool, known: &[String]) -> Result<(), Fail> {
    let input = gjson::to_compact(doc);
    let text = &prog.text;
    let depth = doc.depth();
    st.describe(|| json!({"filter": text, "input": if input.len() < 4000 { input.clone() } else { format!("<{} bytes, depth {}>", input.len(), depth) }, "family": prog.family}));
    st.size(text.len());
    st.class(&format!("family:{}", prog.family));
    st.evals(1);
    if let Ok(dir) = std::env::var("VH_C30_TRACE") {
        let _ = std::fs::write(format!("{}/{}-{}", dir, std::process::id(), st.cur_case), format!("{}\n<<< {}\n", text, input.chars().take(300).collect::<String>()));
    }
    // Programs that may abort the process (extreme operands, deep nesting) go through the CLI first:
    // a separate process can die without taking the worker down, which gives aborts a narrow,
    // minimised signature instead of the worker-level `process-abort/<kind>`.
    let abort_prone = jqprog::big_number_in_text(text, 5) || text.contains("infinite") || prog.nest >= 100 || depth >= 100;
    let mut cli_exit101: Option<CliCrash> = None;
    // a program the in-process parser rejects is never evaluated, so it cannot abort the worker:
    // no pre-screen needed (the sampled CLI run still happens). Deep-nesting programs are screened
    // regardless, because there the parser itself is the abort candidate.
    let parses_here = prog.nest >= 100 || matches!(catch(|| jq::parse(text).is_ok()), Ok(true) | Err(_));
    if ((abort_prone && parses_here) || cli_sample) && cli::cli_available() && text.len() < 100_000 {
        st.class("cli-run");
        st.evals(1);
        match run_cli(text, &input) {
            None => {
                st.class("cli-timeout-discarded");
                st.discard();
                return Ok(());
            }
            Some(out) => {
                if let Some(c) = cli_crash(&out) {
                    if c.nesting_guard && deep_capable(text, depth, prog.nest) {
                        st.class("documented-nesting-guard-panic");
                    } else if c.signal || c.how != "exit-101" {
                        // abort: a listed finding is recognised without minimisation (each CLI crash is slow)
                        let sig0 = format!("C30/cli-abort/{}/{}", c.how, culprit(text));
                        if known.iter().any(|k| *k == sig0) {
                            return Err(Fail::new(sig0, json!({"filter": text.chars().take(2000).collect::<String>(), "input": input.chars().take(4000).collect::<String>(), "cli": true})));
                        }
                        // otherwise minimise through the CLI, then report
                        let pred = |t: &str| -> bool { run_cli(t, &input).and_then(|o| cli_crash(&o)).map_or(false, |c2| c2.how == c.how) };
                        let how = c.how.clone();
                        let early = |t: &str| -> bool { let s1 = format!("C30/cli-abort/{}/{}", how, culprit(t)); known.iter().any(|k| *k == s1) };
                        let min = minimize_prog(prog, &pred, 150, &early);
                        return Err(Fail::new(
                            format!("C30/cli-abort/{}/{}", c.how, culprit(&min)),
                            json!({"filter": min, "original_filter": text.chars().take(2000).collect::<String>(), "input": input.chars().take(4000).collect::<String>(), "exit": out.code, "signal": out.signal,
                                   "stderr_tail": out.stderr_str().chars().take(400).collect::<String>(), "cli": true}),
                        ));
                    } else {
                        cli_exit101 = Some(c);
                    }
                }
            }
        }
    }
    let (crash, outs, parsed) = crash_of(text, input.as_bytes());
    st.class(if parsed { "parses" } else { "parse-error" });
    if parsed {
        st.evals(2);
        st.class_if(prog.extreme, "extreme-operand");
        st.class_if(prog.nest >= 50, "nesting>=50");
        if prog.extreme || prog.nest >= 50 {
            st.class("nontrivial");
            st.nontrivial(hash_str(text) ^ hash_str(&input).rotate_left(17));
        }
    }
    if let Some((f, g)) = &outs {
        st.class(&format!("end:{}", f.end.kind()));
        st.class_if(!f.outs.is_empty(), "has-outputs");
        st.digest(hash_str(&format!("{:?}{:?}", f.end.kind(), g.end.kind())));
        st.sample(prog.family, || json!({"filter": text.chars().take(300).collect::<String>(), "input": input.chars().take(200).collect::<String>(), "full": f.to_value()}));
    }
    if let Some(c) = crash {
        if is_nesting_guard(&c.msg) && deep_capable(text, depth, prog.nest) {
            st.class("documented-nesting-guard-panic");
            st.sample("nesting-guard", || json!({"filter": text.chars().take(300).collect::<String>(), "stage": c.stage, "loc": c.loc, "msg": c.msg}));
            return Ok(());
        }
        // minimise the program text while the same crash persists; culprit = its identifiers
        let pred = |t: &str| -> bool { matches!(crash_of(t, input.as_bytes()).0, Some(ref c2) if same_crash(&c, c2)) };
        let min = minimize_prog(prog, &pred, 600, &|_| false);
        return Err(Fail::new(
            crash_sig(&c, &culprit(&min)),
            json!({"filter": min, "original_filter": text.chars().take(2000).collect::<String>(), "input": input.chars().take(4000).collect::<String>(), "stage": c.stage, "panic_location": c.loc, "panic_message": c.msg}),
        ));
    }
    if let Some(c) = cli_exit101 {
        // the release CLI panicked where the in-process evaluation did not
        return Err(Fail::new(
            format!("C30/cli/exit-101/{}/{}/{}", loc_sig(&c.loc), norm_msg(&c.msg), if text.len() < 200 { culprit(text) } else { "-".into() }),
            json!({"filter": text.chars().take(2000).collect::<String>(), "input": input.chars().take(4000).collect::<String>(), "panic_location": c.loc, "panic_message": c.msg, "cli": true}),
        ));
    }
    Ok(())
}

/// The case of sub-check `sub` decoded from entropy: (program, input document, sample through the CLI?)
pub fn gen_case(sub: &str, u: &mut Src, cfg: &Cfg, seeds: &[String]) -> (Prog, J, bool) {
    let (p, doc, c) = gen_case0(sub, u, cfg, seeds);
    // Deep inputs make the CLI stop at its documented nesting guard before the program runs, so the
    // CLI pre-screen says nothing about an abort-prone program there: pair those with shallow input.
    if (p.extreme || jqprog::extreme_in_text(&p.text)) && doc.depth() >= 100 {
        return (p, J::Arr(vec![J::int(1), J::Str("a".into()), J::Null]), c);
    }
    (p, doc, c)
}

fn gen_case0(sub: &str, u: &mut Src, cfg: &Cfg, seeds: &[String]) -> (Prog, J, bool) {
    let doc = gen_input(u);
    match sub {
        "gen" => {
            let p = if u.ratio(1, 4) { jqprog::text_hostile(u, &doc, cfg) } else { jqprog::gen_program(u, &doc, cfg) };
            let c = u.ratio(1, 16);
            (p, doc, c)
        }
        "extreme" => {
            let p = jqprog::snippet_program(u, &doc, cfg);
            let c = u.ratio(1, 16);
            (p, doc, c)
        }
        "deep" => {
            let p = jqprog::deep_program(u);
            let c = u.ratio(1, 10);
            (p, doc, c)
        }
        "soup" => {
            let p = jqprog::soup_program(u);
            let c = u.ratio(1, 20);
            (p, doc, c)
        }
        _ => {
            let p = jqprog::mutant_program(u, seeds);
            let c = u.ratio(1, 20);
            (p, doc, c)
        }
    }
}

fn replay_input(v: &Value) -> Option<Fail> {
    let filter = v["input"]["filter"].as_str().unwrap_or(".").to_string();
    let input = v["input"]["input"].as_str().unwrap_or("null");
    let doc = crate::oracle::jsonval::parse_one(input.as_bytes()).unwrap_or(J::Null);
    let mut prog = jqprog::prog_of(jqprog::E::raw(filter.clone()), true, "replay");
    prog.text = filter;
    let mut st = Stats::default();
    // abort replays would kill this (parent) process if evaluated in-process: CLI only
    if v["input"]["cli_only"].as_bool().unwrap_or(false) {
        if !cli::cli_available() {
            return None;
        }
        let out = run_cli(&prog.text, input)?;
        let c = cli_crash(&out)?;
        return Some(Fail::new(
            format!("C30/cli-abort/{}/{}", c.how, culprit(&prog.text)),
            json!({"filter": prog.text, "input": input, "exit": out.code, "signal": out.signal, "stderr_tail": out.stderr_str().chars().take(300).collect::<String>()}),
        ));
    }
    let cli_too = v["input"]["cli"].as_bool().unwrap_or(false);
    check_prog(&prog, &doc, &mut st, cli_too, &[]).err()
}

pub fn run(cx: &mut Ctx) {
    cx.assume("workers run each case on the process main thread (8 MiB stack, like the CLI) under RLIMIT_AS = 6 GiB; the harness build has overflow-checks and debug-assertions on, the sampled CLI is the release build");
    cx.assume("a panic whose message is the documented guard `nesting depth exceeds limit of N` (MAX_NESTING_DEPTH 256 / MAX_VALUE_TREE_DEPTH 384, doc comments in src/jq/eval_generic.rs and src/jq/value.rs) is tolerated only when the input is >= 200 levels deep or the program can build deep values (loops, recursion, >= 100 levels of literal nesting); watchdog expiry and allocation failures < 2^40 bytes are discarded");
    let seeds = load_seeds();
    if std::env::var("VH_C30_DUMP_SNIPPETS").is_ok() {
        for sn in jqprog::HOSTILE_SNIPPETS {
            println!("{}", sn);
        }
        return;
    }
    // development aid: VH_C30_SHOW=<entropy replay file> prints the case without running it
    if let Ok(p) = std::env::var("VH_C30_SHOW") {
        if let Ok(v) = serde_json::from_str::<Value>(&std::fs::read_to_string(&p).unwrap_or_default()) {
            let ent = unhex(v["entropy_hex"].as_str().unwrap_or(""));
            let mut u = Src::new(&ent);
            let mut cfg = Cfg::new(Profile::Hostile);
            cfg.max_depth = 4;
            let (pr, doc, c) = gen_case(v["subcheck"].as_str().unwrap_or("gen"), &mut u, &cfg, &seeds);
            println!("{}", json!({"filter": pr.text, "input": gjson::to_compact(&doc), "family": pr.family, "cli": c}));
        }
        return;
    }
    if seeds.len() < 400 {
        cx.infra(format!("golden filters not found under {} ({} read)", GOLDEN_DIR, seeds.len()));
        return;
    }
    for (name, v) in cx.replays.clone() {
        if v["kind"] == "input" {
            let r = replay_input(&v);
            cx.replay_outcome(&name, r);
        }
    }
    let mut cfg = Cfg::new(Profile::Hostile);
    cfg.max_depth = 4;
    let thorough = cx.tier == Tier::Thorough;
    let iso = |chunk: u64| IsoOpts { watchdog_s: if thorough { 60 } else { 30 }, rlimit_as_gib: 6, chunk, hang_is_inconclusive: false };
    let cfg = &cfg;
    let seeds = &seeds;
    let known_v: Vec<String> = cx.known.iter().filter(|k| k.status == "known").map(|k| k.signature.clone()).collect();
    let known = &known_v;

    for (sub, quick, thorough, max_len, chunk) in [("gen", 5_000u64, 1_000_000u64, 1400usize, 160u64), ("extreme", 2_500, 400_000, 1400, 80), ("deep", 800, 100_000, 600, 25), ("soup", 5_000, 600_000, 600, 160), ("mutant", 4_000, 600_000, 600, 125)] {
        cx.check_isolated(sub, RULE, Budget { quick, thorough, max_len }, iso(chunk), |u, st| {
            let (p, doc, cli_s) = gen_case(sub, u, cfg, seeds);
            let r = check_prog(&p, &doc, st, cli_s, known);
            if let Ok(dir) = std::env::var("VH_C30_TRACE") {
                let _ = std::fs::remove_file(format!("{}/{}-{}", dir, std::process::id(), st.cur_case));
            }
            if let (Err(f), Ok(path)) = (&r, std::env::var("VH_C30_COLLECT")) {
                use std::io::Write;
                if let Ok(mut fh) = std::fs::OpenOptions::new().create(true).append(true).open(path) {
                    let _ = writeln!(fh, "{}\t{}", f.sig, f.detail);
                }
                return Ok(());
            }
            r
        });
    }
    cli::cleanup();
    sweep_dead_tmp(&cx.root);
    for (sub, cl, min) in [("gen", "nontrivial", 100), ("gen", "parses", 1000), ("extreme", "nontrivial", 200), ("extreme", "end:error", 100), ("deep", "nesting>=50", 50), ("deep", "parse-error", 50), ("soup", "parse-error", 500), ("mutant", "parses", 300), ("mutant", "parse-error", 300)] {
        cx.require_class(sub, cl, min);
    }
}

/// Worker processes leave their (empty) CLI scratch directories behind: remove those of dead pids.
fn sweep_dead_tmp(root: &str) {
    if let Ok(rd) = std::fs::read_dir(format!("{}/out/tmp", root)) {
        for e in rd.filter_map(|e| e.ok()) {
            let name = e.file_name().to_string_lossy().to_string();
            if name.chars().all(|c| c.is_ascii_digit()) && !std::path::Path::new(&format!("/proc/{}", name)).exists() {
                let _ = std::fs::remove_dir_all(e.path());
            }
        }
    }
}
