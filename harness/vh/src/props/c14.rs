//! C14 — YAML loading reproduces the document's value (DESIGN §4 C14).
//!
//! Sub-checks
//! * `load-vs-model` — G-yaml streams (every feature group on); oracle = the model:
//!   (a) library walk of `YamlIndex::build(text)?.root(text)`: root = sequence of
//!   documents, mappings through `YamlFields` + `key_string`, sequences through
//!   `YamlElements`, scalars through `YamlValue` / `YamlString::as_str` with the core-schema
//!   typing the model expects (`resolve_plain` only for unquoted scalars; typed getters of
//!   `DocumentValue`), aliases followed to their anchor's value;
//!   (b) `to_json_document()`, `stream_json(COMPACT)` and each document cursor's
//!   `to_json()` parsed with O-jsonval = the model's JSON.
//!   `YamlIndex::build` returning `Err` on a generated stream is a violation.
//! * `load-vs-model-plain` — the same oracle over `YOpts::plain_data()` (block / flow only)
//!   so that the basic presentation space gets its own dense coverage.
//! * `generator-selfcheck` — development aid, skipped unless `VH_YAML_DUMP=<dir>`: writes
//!   `<dir>/<i>.yaml` and `<dir>/<i>.json` (typed model, `gen::yaml::to_typed_json`) for
//!   cross-checking the *generator* with PyYAML (`tools`-free script: see
//!   `harness/vh/src/gen/yaml_selfcheck.py`). `VH_YAML_DUMP_MODE=full` lifts the PyYAML
//!   compatibility restriction.
use crate::engine::*;
use crate::gen::json::J;
use crate::gen::yaml::{self as gy, Seg, YOpts, YRole, YStyle, Y};
use crate::oracle::jsonval;
use serde_json::{json, Value};
use std::sync::atomic::{AtomicUsize, Ordering};
use succinctly::jq::document::{DocumentValue, IndentSpec};
use succinctly::yaml::{resolve_plain, ResolvedScalar, YamlIndex, YamlValue};

pub const RULE: &str = "G-yaml streams (1-4 documents, depth <= 8 with occasional single-child spines to 40 (100 thorough), every presentation choice drawn independently per node: block/flow collections, compact `- k: v`, sequences at the parent key's indentation, indentation 1-6, plain/single/double/literal/folded scalars, chomping -/clip/+, multi-line folded flow scalars, anchors+aliases, trailing comments, comment lines, blank lines, `---`, LF/CRLF/CR, tabs as separation). Oracle: the model (library walk with core-schema typing; three JSON routes read back with O-jsonval). Non-trivial: >=2 collection styles and >=3 scalar styles and a comment; distinct by hash(text).";

#[derive(Debug)]
pub struct Mis {
    pub kind: String,
    pub path: String,
    pub segs: Vec<Seg>,
    pub doc: usize,
    pub expected: String,
    pub actual: String,
    /// when the library answered with a string scalar: (unquoted?, decoded text)
    pub actual_str: Option<(bool, String)>,
    /// build() error, when that is the failure
    pub err: Option<succinctly::yaml::YamlError>,
    /// the model string, when a string was expected
    pub expected_str: Option<String>,
}

fn mis(kind: &str, path: &[Seg], e: impl std::fmt::Debug, a: impl std::fmt::Debug) -> Mis {
    Mis { kind: kind.to_string(), path: gy::path_str(path), segs: path.to_vec(), doc: 0, expected: trunc(format!("{:?}", e)), actual: trunc(format!("{:?}", a)), actual_str: None, err: None, expected_str: None }
}

/// mismatch whose actual answer is a library value
fn mis_v(kind: &str, path: &[Seg], e: impl std::fmt::Debug, v: &YamlValue<'_>) -> Mis {
    let mut m = mis(kind, path, e, describe_value(v));
    if let YamlValue::String(s) = v {
        if let Ok(t) = s.as_str() {
            m.actual_str = Some((s.is_unquoted(), t.into_owned()));
        }
    }
    m
}

fn trunc(s: String) -> String {
    if s.len() > 300 {
        let mut e = 300;
        while !s.is_char_boundary(e) {
            e -= 1;
        }
        format!("{}...", &s[..e])
    } else {
        s
    }
}

fn vkind<W: AsRef<[u64]>>(v: &YamlValue<'_, W>) -> &'static str {
    match v {
        YamlValue::Null => "Null",
        YamlValue::String(_) => "String",
        YamlValue::Mapping(_) => "Mapping",
        YamlValue::Sequence(_) => "Sequence",
        YamlValue::Alias { .. } => "Alias",
        YamlValue::Error(_) => "Error",
    }
}

/// (a) the library walk. `n_alias` counts aliases followed.
pub fn walk(v: YamlValue<'_>, y: &Y, path: &mut Vec<Seg>, n_alias: &mut u32, evals: &mut u64) -> Result<(), Mis> {
    // aliases resolve to the anchored value
    let mut v = v;
    let mut hops = 0;
    while let YamlValue::Alias { target, anchor_name } = &v {
        *n_alias += 1;
        hops += 1;
        match target {
            Some(t) if hops < 64 => v = t.value(),
            _ => return Err(mis("alias-unresolved", path, y.kind(), anchor_name)),
        }
    }
    *evals += 1;
    match y {
        Y::Null => {
            let ok = match &v {
                YamlValue::Null => true,
                YamlValue::String(s) if s.is_unquoted() => {
                    matches!(s.as_str(), Ok(t) if resolve_plain(&t) == ResolvedScalar::Null)
                }
                _ => false,
            };
            if !ok {
                return Err(mis_v("null", path, "null", &v));
            }
            if !v.is_null() || v.type_name() != "null" {
                return Err(mis("null-getters", path, "is_null && type_name==null", (v.is_null(), v.type_name())));
            }
        }
        Y::Bool(b) => {
            if v.as_bool() != Some(*b) || v.type_name() != "boolean" {
                return Err(mis_v("bool", path, b, &v));
            }
            if v.is_null() || v.as_i64().is_some() {
                return Err(mis("bool-getters", path, "not null, not int", describe_value(&v)));
            }
        }
        Y::Int(n) => {
            if v.as_i64() != Some(*n) || v.type_name() != "number" {
                return Err(mis_v("int", path, n, &v));
            }
            if v.is_null() || v.as_bool().is_some() {
                return Err(mis("int-getters", path, "not null, not bool", describe_value(&v)));
            }
        }
        Y::Str(s) => match &v {
            YamlValue::String(ys) => {
                let got = ys.as_str();
                match &got {
                    Ok(t) if t.as_ref() == s.as_str() => {}
                    _ => {
                        let mut m = mis_v("str-content", path, s, &v);
                        m.expected_str = Some(s.clone());
                        return Err(m);
                    }
                }
                if ys.is_unquoted() && resolve_plain(s) != ResolvedScalar::Str {
                    return Err(mis("str-typed-as-other", path, "string", resolve_plain(s)));
                }
                if v.type_name() != "string" || v.is_null() || v.as_bool().is_some() || v.as_i64().is_some() || v.as_f64().is_some() {
                    return Err(mis("str-getters", path, "string", (v.type_name(), v.is_null(), v.as_bool(), v.as_i64())));
                }
                match DocumentValue::as_str(&v) {
                    Some(t) if t.as_ref() == s.as_str() => {}
                    o => return Err(mis("str-as_str", path, s, o.map(|c| c.into_owned()))),
                }
            }
            _ => return Err(mis_v("str", path, s, &v)),
        },
        Y::Seq(a) => match &v {
            YamlValue::Sequence(el) => {
                let mut el = *el;
                let mut i = 0;
                loop {
                    match el.uncons() {
                        Some((x, rest)) => {
                            if i >= a.len() {
                                return Err(mis("seq-longer", path, a.len(), describe_value(&x)));
                            }
                            path.push(Seg::Idx(i));
                            walk(x, &a[i], path, n_alias, evals)?;
                            path.pop();
                            i += 1;
                            el = rest;
                        }
                        None => break,
                    }
                }
                if i != a.len() {
                    return Err(mis("seq-shorter", path, a.len(), i));
                }
            }
            _ => return Err(mis_v("seq", path, format!("sequence of {}", a.len()), &v)),
        },
        Y::Map(m) => match &v {
            YamlValue::Mapping(f) => {
                let mut f = f.clone();
                let mut i = 0;
                loop {
                    match f.uncons() {
                        Some((field, rest)) => {
                            let k = field.key().key_string().into_owned();
                            if i >= m.len() {
                                return Err(mis("map-longer", path, m.len(), k));
                            }
                            if k != m[i].0 {
                                return Err(mis("map-key", path, &m[i].0, k));
                            }
                            path.push(Seg::Key(k));
                            walk(field.value(), &m[i].1, path, n_alias, evals)?;
                            path.pop();
                            i += 1;
                            f = rest;
                        }
                        None => break,
                    }
                }
                if i != m.len() {
                    return Err(mis("map-shorter", path, m.len(), i));
                }
                // lookup by name agrees with iteration (keys are unique in the model)
                for (k, val) in m.iter().take(4) {
                    match f_find(&v, k) {
                        Some(x) => {
                            path.push(Seg::Key(k.clone()));
                            let r = shallow_same(&x, val);
                            path.pop();
                            if !r {
                                return Err(mis("map-find", path, val.kind(), describe_value(&x)));
                            }
                        }
                        None => return Err(mis("map-find-none", path, k, "None")),
                    }
                }
            }
            _ => return Err(mis_v("map", path, format!("mapping of {}", m.len()), &v)),
        },
    }
    Ok(())
}

fn f_find<'a>(v: &YamlValue<'a>, k: &str) -> Option<YamlValue<'a>> {
    match v {
        YamlValue::Mapping(f) => f.find(k),
        _ => None,
    }
}

/// kind-level agreement (used for `find`, whose deep value the walk already checked)
fn shallow_same(v: &YamlValue<'_>, y: &Y) -> bool {
    let mut v = v.clone();
    let mut hops = 0;
    while let YamlValue::Alias { target: Some(t), .. } = &v {
        hops += 1;
        if hops > 64 {
            return false;
        }
        v = t.value();
    }
    match y {
        Y::Null => v.is_null(),
        Y::Bool(b) => v.as_bool() == Some(*b),
        Y::Int(n) => v.as_i64() == Some(*n),
        Y::Str(s) => matches!(DocumentValue::as_str(&v), Some(t) if t.as_ref() == s.as_str()) && v.type_name() == "string",
        Y::Seq(_) => matches!(v, YamlValue::Sequence(_)),
        Y::Map(_) => matches!(v, YamlValue::Mapping(_)),
    }
}

fn describe_value(v: &YamlValue<'_>) -> String {
    match v {
        YamlValue::String(s) => format!("String(unquoted={}, {:?})", s.is_unquoted(), s.as_str().map(|c| c.into_owned()).map_err(|e| e.to_string())),
        YamlValue::Alias { anchor_name, .. } => format!("Alias({})", anchor_name),
        YamlValue::Error(e) => format!("Error({})", e),
        o => vkind(o).to_string(),
    }
}

/// Does the JSON value `j` encode the model value `y`? (ints exact, strings exact,
/// object fields in order)
pub fn json_matches(j: &J, y: &Y, path: &mut Vec<Seg>) -> Result<(), Mis> {
    match (j, y) {
        (J::Null, Y::Null) => Ok(()),
        (J::Bool(a), Y::Bool(b)) if a == b => Ok(()),
        (J::Num(n), Y::Int(i)) => {
            let exact = n.int == Some(*i);
            let small_float = n.value == *i as f64 && i.unsigned_abs() < (1u64 << 53);
            if exact || small_float {
                Ok(())
            } else {
                Err(mis("json-int", path, i, &n.text))
            }
        }
        (J::Str(a), Y::Str(b)) if a == b => Ok(()),
        (J::Arr(a), Y::Seq(b)) => {
            if a.len() != b.len() {
                return Err(mis("json-seq-len", path, b.len(), a.len()));
            }
            for (i, (x, z)) in a.iter().zip(b.iter()).enumerate() {
                path.push(Seg::Idx(i));
                json_matches(x, z, path)?;
                path.pop();
            }
            Ok(())
        }
        (J::Obj(a), Y::Map(b)) => {
            if a.len() != b.len() {
                return Err(mis("json-map-len", path, b.iter().map(|e| &e.0).collect::<Vec<_>>(), a.iter().map(|e| &e.0).collect::<Vec<_>>()));
            }
            for ((k1, x), (k2, z)) in a.iter().zip(b.iter()) {
                if k1 != k2 {
                    return Err(mis("json-map-key", path, k2, k1));
                }
                path.push(Seg::Key(k2.clone()));
                json_matches(x, z, path)?;
                path.pop();
            }
            Ok(())
        }
        _ => Err(mis(&format!("json-{}-for-{}", j.kind(), y.kind()), path, gy::to_typed_json(y).to_string(), crate::gen::json::to_compact(j))),
    }
}

/// Everything C14 asserts about one rendered stream. `Err((route, Mis))`.
pub fn check_stream(stream: &[Y], text: &[u8], st: &mut Stats) -> Result<(), (String, Mis)> {
    let index = match YamlIndex::build(text) {
        Ok(i) => i,
        Err(e) => {
            let name = format!("{:?}", e);
            let variant = name.split(|c: char| !c.is_alphanumeric()).next().unwrap_or("?").to_string();
            let mut m = mis("build-err", &[], "Ok", e.to_string());
            m.kind = variant;
            m.err = Some(e);
            return Err(("build-err".to_string(), m));
        }
    };
    let root = index.root(text);
    // (a) walk
    let mut evals = 0u64;
    let mut n_alias = 0u32;
    let docs = match root.value() {
        YamlValue::Sequence(el) => el,
        o => return Err(("walk".into(), mis("root-not-sequence", &[], "Sequence", vkind(&o)))),
    };
    let mut el = docs;
    let mut i = 0;
    while let Some((cursor, rest)) = el.uncons_cursor() {
        if i >= stream.len() {
            return Err(("walk".into(), mis("doc-count", &[], stream.len(), format!("more; extra doc {}", cursor.to_json()))));
        }
        let mut path = vec![];
        walk(cursor.value(), &stream[i], &mut path, &mut n_alias, &mut evals).map_err(|mut m| {
            m.path = format!("doc{}:{}", i, m.path);
            m.doc = i;
            ("walk".to_string(), m)
        })?;
        // (b3) per-document cursor JSON
        let js = cursor.to_json();
        let j = jsonval::parse_one(js.as_bytes()).map_err(|e| ("doc-to_json".to_string(), mis("json-unparseable", &[], "valid JSON", format!("{:?} in {}", e, trunc(js.clone())))))?;
        let mut path = vec![];
        json_matches(&j, &stream[i], &mut path).map_err(|mut m| {
            m.path = format!("doc{}:{}", i, m.path);
            ("doc-to_json".to_string(), m)
        })?;
        evals += 1;
        i += 1;
        el = rest;
    }
    if i != stream.len() {
        return Err(("walk".into(), mis("doc-count", &[], stream.len(), i)));
    }
    // (b1) to_json_document: single document unwrapped, several as an array
    let js = root.to_json_document();
    let j = jsonval::parse_one(js.as_bytes()).map_err(|e| ("to_json_document".to_string(), mis("json-unparseable", &[], "valid JSON", format!("{:?} in {}", e, trunc(js.clone())))))?;
    let whole = Y::Seq(stream.to_vec());
    let expect: &Y = if stream.len() == 1 { &stream[0] } else { &whole };
    json_matches(&j, expect, &mut vec![]).map_err(|m| ("to_json_document".to_string(), m))?;
    // (b2) stream_json of the root: always the array of documents
    let mut out = String::new();
    if root.stream_json(&mut out, IndentSpec::COMPACT, false).is_err() {
        return Err(("stream_json".into(), mis("fmt-error", &[], "Ok", "Err")));
    }
    let j = jsonval::parse_one(out.as_bytes()).map_err(|e| ("stream_json".to_string(), mis("json-unparseable", &[], "valid JSON", format!("{:?} in {}", e, trunc(out.clone())))))?;
    json_matches(&j, &whole, &mut vec![]).map_err(|m| ("stream_json".to_string(), m))?;
    evals += 2;
    st.evals(evals);
    let _ = n_alias;
    Ok(())
}

/// Stable, narrow failure signature: route + mismatch kind + (for known shapes) a shape tag.
pub fn signature(route: &str, m: &Mis, text: &[u8], stream: &[Y], r: Option<&gy::RenderedYaml>) -> String {
    let mut sig = format!("C14/{}/{}", route, m.kind);
    let tag = shape_tag(route, m, text, stream).or_else(|| r.and_then(|r| shape_from_spans(route, m, r)));
    if let Some(tag) = tag {
        sig.push('/');
        sig.push_str(tag);
    }
    sig
}

/// index of the first document whose root is a block scalar (`block == true`) or carries an
/// anchor (`block == false`)
fn first_doc_with(r: &gy::RenderedYaml, block: bool) -> Option<usize> {
    let a = r.spans.iter().filter(|s| s.path.is_empty() && if block { matches!(s.style, gy::YStyle::Literal | gy::YStyle::Folded) } else { s.anchor.is_some() }).map(|s| s.doc).min();
    let b = if block { None } else { r.containers.iter().filter(|c| c.path.is_empty() && c.anchor.is_some()).map(|c| c.doc).min() };
    match (a, b) {
        (Some(x), Some(y)) => Some(x.min(y)),
        (x, y) => x.or(y),
    }
}

/// Attribution through the generator's span table (exact for generated text): the first
/// recorded-finding shape present in the stream whose known wrong answers include this
/// kind of failure.
fn shape_from_spans(route: &str, m: &Mis, r: &gy::RenderedYaml) -> Option<&'static str> {
    let root = m.segs.is_empty() || m.kind == "doc-count";
    gy::known_shapes(r).into_iter().find(|&s| match (s, route, m.kind.as_str()) {
        ("tab-after-closing-quote", "build-err", "TabIndentation") => true,
        ("compact-quoted-key-then-space", "build-err", "UnexpectedCharacter") => true,
        ("quote-inside-flow-plain", "build-err", "UnexpectedCharacter") => true,
        // the document start is misread: whatever error follows is a consequence
        ("root-anchor-then-comment", "build-err", _) => true,
        ("root-block-scalar-reread", "build-err", _) => true,
        // the tail of the scalar is re-read as structure: any later error is a consequence
        ("literal-hash-first-then-indented", "build-err", _) => true,
        ("empty-value-then-col0-quoted-key", "walk", "null") => matches!(m.actual_str, Some((false, _))),
        ("empty-node-at-eof-len64", "walk", "null") => m.actual.contains("invalid cursor position"),
        ("nextline-plain-continuation-not-deeper", "walk", "str-content") => true,
        ("literal-hash-first-then-indented", "walk", _) => true,
        // these two shapes make the loader emit an extra document, so every later document
        // is shifted: a mismatch anywhere in a document after the shape's own is a consequence
        ("root-anchor-then-comment", "walk", _) => root || first_doc_with(r, false).map_or(false, |d| m.doc > d),
        ("root-block-scalar-reread", "walk", _) => root || first_doc_with(r, true).map_or(false, |d| m.doc > d),
        _ => false,
    })
}

/// physical lines (LF / CRLF / CR) of a text
pub fn lines_of(text: &[u8]) -> Vec<&[u8]> {
    let mut v = vec![];
    let mut s = 0;
    let mut i = 0;
    while i < text.len() {
        if text[i] == b'\n' || text[i] == b'\r' {
            v.push(&text[s..i]);
            if text[i] == b'\r' && text.get(i + 1) == Some(&b'\n') {
                i += 1;
            }
            s = i + 1;
        }
        i += 1;
    }
    if s < text.len() {
        v.push(&text[s..]);
    }
    v
}

/// Trigger predicates of the recorded findings (DESIGN §2.6): a failure only gets a
/// finding's tag when the input has the finding's shape *and* the wrong answer is the
/// recorded one. Everything else keeps its untagged signature and is a new VIOLATION.
fn shape_tag(route: &str, m: &Mis, text: &[u8], stream: &[Y]) -> Option<&'static str> {
    use succinctly::yaml::YamlError;
    if route == "build-err" {
        // (3) `- 'k' : v`: white space between a quoted key and `:` in a compact mapping
        if let Some(YamlError::UnexpectedCharacter { offset, context, .. }) = &m.err {
            let o = *offset;
            if context.contains("after key in compact mapping")
                && matches!(text.get(o), Some(b' ' | b'\t'))
                && o > 0
                && matches!(text[o - 1], b'"' | b'\'')
                && trim_ws(&text[o..]).first() == Some(&b':')
            {
                return Some("compact-quoted-key-then-space");
            }
        }
        // (9) a quote character inside a flow-context plain scalar starts a look-ahead that
        //     runs on to a later quote and `:`
        if let Some(YamlError::UnexpectedCharacter { context, .. }) = &m.err {
            let interior_quote = text.windows(2).any(|w| matches!(w[1], b'\'' | b'"') && !matches!(w[0], b' ' | b'\t' | b'\n' | b'\r' | b'[' | b'{' | b',' | b':' | b'\'' | b'"' | b'-'));
            if context.contains("implicit flow mapping entry") && interior_quote {
                return Some("quote-inside-flow-plain");
            }
        }
        // (4) a tab directly after the closing quote of a quoted scalar reported as indentation
        //     (the reported offset is the tab's or the byte after it)
        if let Some(YamlError::TabIndentation { offset, .. }) = &m.err {
            let o = *offset;
            // the reported offset is the first byte after the white space run that holds the tab
            let mut t = o.min(text.len());
            while t > 0 && matches!(text[t - 1], b' ' | b'\t') {
                t -= 1;
            }
            if text.get(t) == Some(&b'\t') && t > 0 {
                // a closing quote: the line scan says so, or (scalar opened on an earlier line)
                // the quote does not stand where a scalar can open
                let quoted = matches!(text[t - 1], b'"' | b'\'')
                    && (closes_quoted_scalar(text, t - 1) || (t >= 2 && !matches!(text[t - 2], b' ' | b'\t' | b'[' | b'{' | b',' | b':' | b'\n' | b'\r')));
                let mut a = t;
                while a > 0 && (text[a - 1].is_ascii_alphanumeric() || matches!(text[a - 1], b'_' | b'-')) {
                    a -= 1;
                }
                let alias = a < t && a > 0 && text[a - 1] == b'*';
                if quoted || alias {
                    return Some("tab-after-closing-quote");
                }
            }
        }
        // (2b) document-level anchor followed by a comment, reported as an indentation error
        //      further down (the comment was taken for the root scalar)
        if m.err.is_some() && root_anchor_then_comment(&lines_of(text)) {
            return Some("root-anchor-then-comment");
        }
        // (7b) the root block scalar finding below, surfacing as an error
        if m.err.is_some() && root_block_scalar_shape(&lines_of(text)) {
            return Some("root-block-scalar-reread");
        }
        // (6b) the literal-block finding below, surfacing as an indentation error
        if matches!(&m.err, Some(YamlError::InconsistentIndentation { .. })) && literal_hash_first_shape(&lines_of(text)) {
            return Some("literal-hash-first-then-indented");
        }
        return None;
    }
    if route != "walk" {
        return None;
    }
    let lines = lines_of(text);
    // (7) document-root block scalar without `---`, or `--- &anchor |`: its content is
    //     loaded a second time as a further document (later documents shift, so the
    //     mismatch is a document count or a document root)
    if (m.kind == "doc-count" || m.segs.is_empty()) && root_block_scalar_shape(&lines) {
        return Some("root-block-scalar-reread");
    }
    // (8) an empty node at the end of a text whose length is a multiple of 64
    if m.kind == "null" && m.actual.contains("invalid cursor position") && text.len() % 64 == 0 {
        let t: &[u8] = {
            let mut e = text.len();
            while e > 0 && matches!(text[e - 1], b' ' | b'\t' | b'\n' | b'\r') {
                e -= 1;
            }
            &text[..e]
        };
        if matches!(t.last(), Some(b':' | b'-')) || t.ends_with(b"---") {
            return Some("empty-node-at-eof-len64");
        }
    }
    // (6) literal block scalar: first content line starts with `#`, a later line is more
    //     indented, then a line returns to the block's indentation: spurious extra entries
    if literal_hash_first_shape(&lines) {
        return Some("literal-hash-first-then-indented");
    }
    // (1) empty mapping value, next content line at column 0 starts with a quoted key, and
    //     the library answered with that key's text as a *quoted* string value
    if m.kind == "null" {
        if let (Some((false, got)), Some(Seg::Key(_))) = (&m.actual_str, m.segs.last()) {
            let root_has_key = matches!(stream.get(m.doc), Some(Y::Map(r)) if r.iter().any(|e| e.0 == *got));
            let col0_quoted = lines.iter().any(|l| matches!(l.first(), Some(b'"' | b'\'')));
            if root_has_key && col0_quoted {
                return Some("empty-value-then-col0-quoted-key");
            }
        }
    }
    // (5) plain scalar starting on the line after `-` / `key: &anchor`, with a continuation
    //     line not deeper than its first line: the library's string is the model's string
    //     cut at a fold
    if m.kind == "str-content" {
        if let (Some((true, got)), Some(exp)) = (&m.actual_str, &m.expected_str) {
            let cut = exp.starts_with(got.as_str()) && exp[got.len()..].starts_with(' ');
            let ind = |l: &[u8]| l.iter().take_while(|&&b| b == b' ').count();
            // content lines only (blank lines and comment lines between them do not matter)
            let content: Vec<&[u8]> = lines.iter().copied().filter(|l| !matches!(trim_ws(l).first(), None | Some(b'#'))).collect();
            let first_word = got.split(' ').next().unwrap_or("").as_bytes();
            let shape = content.windows(2).any(|w| {
                // strip a trailing comment
                let mut l1 = trim_ws(w[0]);
                if let Some(p) = l1.windows(2).position(|x| matches!(x[0], b' ' | b'\t') && x[1] == b'#') {
                    l1 = &l1[..p];
                }
                while matches!(l1.last(), Some(b' ' | b'\t')) {
                    l1 = &l1[..l1.len() - 1];
                }
                let last_tok = l1.rsplit(|&b| b == b' ' || b == b'\t').next().unwrap_or(b"");
                let opens = last_tok == b"-" || last_tok.ends_with(b":") || (last_tok.first() == Some(&b'&') && last_tok.len() > 1);
                opens && ind(w[1]) > ind(w[0]) && w[1][ind(w[1])..].starts_with(first_word)
            });
            if cut && shape {
                return Some("nextline-plain-continuation-not-deeper");
            }
        }
    }
    // (2) document-level anchor followed by a comment: the comment text comes back as a
    //     plain scalar where the anchored root node was expected
    if m.segs.is_empty() {
        if let Some((true, got)) = &m.actual_str {
            if got.starts_with('#') {
                if root_anchor_then_comment(&lines) {
                    return Some("root-anchor-then-comment");
                }
            }
        }
    }
    None
}

/// some document's root node is a block scalar written without `---` or with an anchor
fn root_block_scalar_shape(lines: &[&[u8]]) -> bool {
    let content = |l: &&[u8]| !matches!(trim_ws(l).first(), None | Some(b'#'));
    let mut doc_first = true; // the next content line is the first of its document
    for l in lines.iter() {
        if !content(l) {
            continue;
        }
        let (marker, rest) = match l.strip_prefix(b"---") {
            Some(r) if matches!(r.first(), None | Some(b' ' | b'\t')) => (true, trim_ws(r)),
            _ => (false, *l),
        };
        if marker || doc_first {
            let (anchored, node) = if rest.first() == Some(&b'&') {
                let e = rest.iter().position(|&b| b == b' ' || b == b'\t').unwrap_or(rest.len());
                (true, trim_ws(&rest[e..]))
            } else {
                (false, rest)
            };
            if matches!(node.first(), Some(b'|' | b'>')) && (marker || l.first() != Some(&b' ')) && (!marker || anchored) {
                return true;
            }
        }
        doc_first = marker && rest.is_empty();
    }
    false
}

fn literal_hash_first_shape(lines: &[&[u8]]) -> bool {
    let ind = |l: &[u8]| l.iter().take_while(|&&b| b == b' ').count();
    for (i, l) in lines.iter().enumerate() {
        // header: `|` + optional chomping, optional comment, at the end of the line
        let h = match l.iter().rposition(|&b| b == b'|') {
            Some(p) => p,
            None => continue,
        };
        let rest = &l[h + 1..];
        let rest = if matches!(rest.first(), Some(b'-' | b'+')) { &rest[1..] } else { rest };
        if !matches!(trim_ws(rest).first(), None | Some(b'#')) || (!rest.is_empty() && trim_ws(rest).len() == rest.len() && !rest.is_empty()) {
            continue;
        }
        let mut j = i + 1;
        while j < lines.len() && lines[j].is_empty() {
            j += 1;
        }
        if j >= lines.len() {
            continue;
        }
        let n = ind(lines[j]);
        if n == 0 || lines[j].get(n) != Some(&b'#') {
            continue;
        }
        let mut deeper = false;
        for k in j + 1..lines.len() {
            let lk = lines[k];
            if lk.is_empty() {
                continue;
            }
            let d = ind(lk);
            if d < n {
                break;
            }
            if d > n {
                deeper = true;
            }
        }
        if deeper {
            return true;
        }
    }
    false
}

/// some line is `[--- ]&name <ws> # ...`
fn root_anchor_then_comment(lines: &[&[u8]]) -> bool {
    lines.iter().any(|l| {
        let l = l.strip_prefix(b"---").map(|r| trim_ws(r)).unwrap_or(l);
        if l.first() != Some(&b'&') {
            return false;
        }
        let name_end = l.iter().position(|&b| b == b' ' || b == b'\t').unwrap_or(l.len());
        trim_ws(&l[name_end..]).first() == Some(&b'#')
    })
}

/// Is the quote byte at `q` the *closing* quote of a quoted scalar on its line? Decided by
/// scanning the line from its start with the two quoting rules (`''` / `\"` escapes);
/// good enough for the generated presentation space (quotes inside plain scalars are not
/// followed by tabs there).
fn closes_quoted_scalar(text: &[u8], q: usize) -> bool {
    let ls = text[..q].iter().rposition(|&b| b == b'\n' || b == b'\r').map(|p| p + 1).unwrap_or(0);
    let mut i = ls;
    let mut open: Option<u8> = None;
    while i <= q {
        let c = text[i];
        match open {
            None => {
                if (c == b'"' || c == b'\'') && (i == ls || matches!(text[i - 1], b' ' | b'\t' | b'[' | b'{' | b',' | b':')) {
                    open = Some(c);
                }
            }
            Some(b'"') => {
                if c == b'\\' {
                    i += 1;
                } else if c == b'"' {
                    if i == q {
                        return true;
                    }
                    open = None;
                }
            }
            Some(_) => {
                if c == b'\'' {
                    if text.get(i + 1) == Some(&b'\'') {
                        i += 1;
                    } else {
                        if i == q {
                            return true;
                        }
                        open = None;
                    }
                }
            }
        }
        i += 1;
    }
    false
}

pub fn trim_ws(b: &[u8]) -> &[u8] {
    let mut b = b;
    while let Some((&c, r)) = b.split_first() {
        if c == b' ' || c == b'\t' {
            b = r;
        } else {
            break;
        }
    }
    b
}

pub fn classify(stream: &[Y], r: &gy::RenderedYaml, st: &mut Stats) {
    let s = &r.stats;
    let nt = s.collection_styles() >= 2 && s.scalar_styles() >= 3 && s.has_comment();
    if nt {
        st.nontrivial(hash_bytes(&r.text));
    }
    st.class_if(nt, "nontrivial");
    st.class(&format!("break-{}", s.line_break));
    st.class_if(stream.len() > 1, "multi-document");
    for (name, n) in s.iter() {
        st.class_if(n > 0, name);
    }
    st.class_if(s.anchors > 0 && s.aliases > 0, "anchor+alias");
    let depth = stream.iter().map(|d| d.depth()).max().unwrap_or(0);
    st.class_if(depth >= 20, "depth>=20");
    st.class_if(r.spans.iter().any(|sp| sp.style == YStyle::Alias && sp.value.is_container()), "alias-to-collection");
    st.class_if(r.spans.iter().any(|sp| sp.role == YRole::Key && sp.style != YStyle::Plain), "quoted-key");
    st.class_if(r.text.len() >= 1024, "text>=1KiB");
    st.size(r.text.len());
    let cls = if s.aliases > 0 { "alias" } else if s.literal + s.folded > 0 { "block-scalar" } else if s.flow_maps + s.flow_seqs > 0 { "flow" } else { "block" };
    st.sample(cls, || json!({"yaml": show_bytes(&r.text), "model": stream.iter().map(gy::to_typed_json).collect::<Vec<_>>()}));
}

pub fn describe(stream: &[Y], r: &gy::RenderedYaml) -> Value {
    json!({"yaml_hex": hex(&r.text), "yaml": String::from_utf8_lossy(&r.text), "model": stream.iter().map(gy::to_typed_json).collect::<Vec<_>>()})
}

pub fn opts_for(cx: &Ctx) -> YOpts {
    let mut o = YOpts::full();
    // open known findings are excluded by construction in the main search (DESIGN §2.6);
    // `open-finding-shapes` keeps generating them
    o.avoid = gy::YAvoid { empty_value_before_col0_quoted_key: true, comment_after_root_anchor: true, compact_collection_return_after_deeper: false, tab_after_dash_before_flow_or_quoted: false, opener_after_space_in_plain: false, quote_inside_flow_plain: true, block_scalar_on_compact_line: false, compact_quoted_key_space_colon: false, tab_after_closing_quote: true, nextline_plain_continuation_not_deeper: true, literal_hash_first_then_indented: true, root_block_scalar_reread: true, empty_node_at_eof_len64: false };
    o.max_depth = if cx.tier == Tier::Quick { 40 } else { 100 };
    o
}

pub fn gen_model(u: &mut Src, o: &YOpts) -> Vec<Y> {
    // the spine depth is max_depth; ordinary trees stay shallow
    let mut shallow = o.clone();
    shallow.max_depth = 8;
    let spine = o.deep_spine_16 > 0 && (u.below(16) as u32) >= 16 - o.deep_spine_16.min(16);
    if spine {
        let mut d = o.clone();
        d.deep_spine_16 = 16;
        d.max_nodes = 12;
        d.max_docs = 2;
        gy::gen_stream(u, &d)
    } else {
        shallow.deep_spine_16 = 0;
        gy::gen_stream(u, &shallow)
    }
}

fn run_case(u: &mut Src, st: &mut Stats, o: &YOpts) -> Result<(), Fail> {
    let stream = gen_model(u, o);
    let r = gy::render(&stream, u, o);
    classify(&stream, &r, st);
    st.describe(|| describe(&stream, &r));
    match check_stream(&stream, &r.text, st) {
        Ok(()) => Ok(()),
        Err((route, m)) => Err(Fail::new(
            signature(&route, &m, &r.text, &stream, Some(&r)),
            json!({"route": route, "kind": m.kind, "path": m.path, "expected": m.expected, "actual": m.actual, "yaml": show_bytes(&r.text)}),
        )),
    }
}

/// Structured replay: `{"input": {"yaml": "...", "model": [typed json per document]}}`
fn replay_input(v: &Value) -> Option<Fail> {
    let inp = &v["input"];
    let text: Vec<u8> = match (inp["yaml"].as_str(), inp["yaml_hex"].as_str()) {
        (_, Some(h)) => unhex(h),
        (Some(s), None) => s.as_bytes().to_vec(),
        _ => return Some(Fail::new("C14/replay/malformed", json!({"why": "no yaml"}))),
    };
    let model: Option<Vec<Y>> = inp["model"].as_array().and_then(|a| a.iter().map(gy::from_typed_json).collect());
    let model = match model {
        Some(m) => m,
        None => return Some(Fail::new("C14/replay/malformed", json!({"why": "no model"}))),
    };
    let mut st = Stats::default();
    match catch(|| check_stream(&model, &text, &mut st)) {
        Ok(Ok(())) => None,
        Ok(Err((route, m))) => Some(Fail::new(
            signature(&route, &m, &text, &model, None),
            json!({"route": route, "kind": m.kind, "path": m.path, "expected": m.expected, "actual": m.actual, "yaml": show_bytes(&text)}),
        )),
        Err((loc, msg)) => Some(Fail::new(format!("panic@{}", panic_sig(&loc)), json!({"panic": msg, "location": loc}))),
    }
}

static DUMP_SEQ: AtomicUsize = AtomicUsize::new(0);

/// Development aid: `VH_YAML_PROBE=<file> vh run C14 quick` prints what the library makes of a file.
fn probe(path: &str) {
    let text = std::fs::read(path).expect("probe file");
    println!("text: {}", show_bytes(&text));
    match YamlIndex::build(&text) {
        Ok(ix) => println!("to_json_document: {}", ix.root(&text).to_json_document()),
        Err(e) => println!("build error: {}", e),
    }
    match succinctly::yaml::validate::validate(&text) {
        Ok(()) => println!("validate: Ok"),
        Err(e) => println!("validate: Err {}", e),
    }
}

pub fn run(cx: &mut Ctx) {
    if let Ok(p) = std::env::var("VH_YAML_PROBE") {
        for f in p.split(',') {
            probe(f);
        }
        return;
    }
    cx.assume("the model is the oracle: documents are rendered from a tree, never parsed by harness code");
    cx.assume("G-yaml only emits presentations whose YAML 1.2.2 reading is unambiguous and that the repository documents as supported (gen/yaml.rs lists every exclusion with its citation); the generator was cross-checked with PyYAML 6.0.3 during development");
    cx.assume("O-jsonval (harness JSON parser) reads the library's JSON output");
    for (name, v) in cx.replays.clone() {
        if v["kind"] == "input" {
            let r = replay_input(&v);
            cx.replay_outcome(&name, r);
        }
    }
    let o = opts_for(cx);
    cx.check(
        "load-vs-model",
        RULE,
        Budget { quick: 20_000, thorough: 600_000, max_len: 3000 },
        |u, st| run_case(u, st, &o),
    );
    for cl in [
        "nontrivial", "break-CRLF", "break-CR", "multi-document", "anchor+alias", "alias-to-collection", "chomp_strip", "chomp_clip", "chomp_keep",
        "literal", "folded", "quoted_ambiguous", "block_maps", "block_seqs", "flow_maps", "flow_seqs", "compact_seq_entries",
        "seq_at_parent_indent", "trailing_comments", "comment_lines", "blank_lines", "plain", "single", "double", "null_empty",
        "multiline_plain", "multiline_quoted", "multiline_flow", "depth>=20", "quoted-key", "tabs_separation", "no_final_newline",
    ] {
        cx.require_class("load-vs-model", cl, 20);
    }
    let mut plain = [YOpts::plain_data(), YOpts::block_only(), YOpts::flow_only()];
    for p in plain.iter_mut() {
        p.avoid = o.avoid;
    }
    cx.check(
        "load-vs-model-plain",
        "G-yaml with YOpts::plain_data / block_only / flow_only (no YAML-only devices): same oracle",
        Budget { quick: 6_000, thorough: 200_000, max_len: 2000 },
        |u, st| {
            let o = &plain[u.below(3)];
            run_case(u, st, o)
        },
    );

    // the shapes of the open findings, not avoided: every failure here must carry a listed
    // signature (the engine excludes and counts those); any other failure is a violation
    let mut open = o.clone();
    open.avoid = gy::YAvoid::none();
    cx.check(
        "open-finding-shapes",
        "G-yaml with no known-finding shape avoided; failures with a listed signature are counted, others are violations",
        Budget { quick: 3_000, thorough: 60_000, max_len: 3000 },
        |u, st| run_case(u, st, &open),
    );

    if let Ok(dir) = std::env::var("VH_YAML_DUMP") {
        let _ = std::fs::create_dir_all(&dir);
        let n: u64 = std::env::var("VH_YAML_DUMP_N").ok().and_then(|s| s.parse().ok()).unwrap_or(5000);
        let mode_full = std::env::var("VH_YAML_DUMP_MODE").map(|m| m == "full").unwrap_or(false);
        let mut o = if mode_full { YOpts::full() } else { YOpts::py_compat() };
        o.max_depth = 40;
        o.flow_comments = true; // valid YAML, checked by PyYAML although not in the default space
        DUMP_SEQ.store(0, Ordering::SeqCst);
        cx.check(
            "generator-selfcheck",
            "dump of generated streams for the PyYAML cross-check (development aid)",
            Budget { quick: n, thorough: n, max_len: 3000 },
            |u, _st| {
                let stream = gen_model(u, &o);
                let r = gy::render(&stream, u, &o);
                let i = DUMP_SEQ.fetch_add(1, Ordering::SeqCst);
                let _ = std::fs::write(format!("{}/{}.yaml", dir, i), &r.text);
                let model = json!({"docs": stream.iter().map(gy::to_typed_json).collect::<Vec<_>>(), "stats": r.stats.iter().into_iter().filter(|x| x.1 > 0).map(|x| x.0).collect::<Vec<_>>(), "break": r.stats.line_break});
                let _ = std::fs::write(format!("{}/{}.json", dir, i), model.to_string());
                Ok(())
            },
        );
    }
}
